#!/bin/bash
# confirm_seed.sh <worktree> <seed-id> : independently confirm a seeded change produced by a sub-agent
#  (1) builds, (2) every test that passes on the unchanged tree still passes, (3) the demonstration fails with the
#  change and (4) passes without it.  On success the seed is stored under /verif/seeded/<seed-id>/.
set -u
WT=$1; ID=$2
BASE=/verif/seeded/baseline_fail.txt
OUT=/verif/seeded/$ID
mkdir -p $OUT
cd $WT || exit 2
[ -f seed/patch.diff ] || { echo "no seed/patch.diff"; exit 2; }
git checkout -q -- src Rules 2>/dev/null
git apply seed/patch.diff || { echo "patch does not apply"; exit 2; }
cp seed/seed_demo.rs tests/seed_demo.rs
LOG=$OUT/confirm.log; : > $LOG
echo "== build with change" >> $LOG
cargo build --offline >> $LOG 2>&1 || { echo "BUILD FAILED"; exit 1; }
echo "== suite with change" >> $LOG
cargo nextest run --workspace --no-fail-fast --test-threads 8 --offline -E 'not binary(seed_demo)' 2>&1 \
  | grep -E '^\s+FAIL' | sed -E 's/^\s+FAIL \[[^]]*\] \([^)]*\) //' | sort -u > $OUT/fail_with_change.txt
grep -v Summary $BASE | sort -u > /tmp/base_$$.txt
if ! diff -q /tmp/base_$$.txt $OUT/fail_with_change.txt > /dev/null; then
  echo "SUITE DIFFERS:"; diff /tmp/base_$$.txt $OUT/fail_with_change.txt | head; rm -f /tmp/base_$$.txt; exit 1
fi
rm -f /tmp/base_$$.txt
echo "suite: same failing set as baseline ($(wc -l < $OUT/fail_with_change.txt) failing)" | tee -a $LOG
echo "== demo with change (must fail)" >> $LOG
if cargo nextest run --offline --test seed_demo --no-fail-fast >> $LOG 2>&1; then echo "DEMO PASSES WITH CHANGE"; exit 1; fi
echo "demo fails with change" | tee -a $LOG
git checkout -q -- src Rules
echo "== demo without change (must pass)" >> $LOG
if ! cargo nextest run --offline --test seed_demo --no-fail-fast >> $LOG 2>&1; then echo "DEMO FAILS WITHOUT CHANGE"; git apply seed/patch.diff; exit 1; fi
echo "demo passes without change" | tee -a $LOG
git apply seed/patch.diff
cp seed/patch.diff $OUT/patch.diff
cp seed/seed_demo.rs $OUT/seed_demo.rs
cp seed/README.md $OUT/README.md 2>/dev/null
rm -f $OUT/fail_with_change.txt
echo "CONFIRMED $ID"
