#!/bin/bash
# dev_lane.sh sync | try <seed-id> <check-id> [tier] | rm
# A private lane for trying seeded changes while other checks run against /repo: a copy of /verif (without work/ and .git)
# and a git worktree of /repo's HEAD under /tmp/lane2 (or $LANE); the lane's harness depends on the lane's repo and VERIF_REPO points there.
# Development aid only - no registered command uses it.
L=${LANE:-/tmp/lane2}
case "$1" in
 sync)
  mkdir -p $L
  if [ ! -d $L/repo ]; then git -C /repo worktree add -f --detach $L/repo HEAD -q || exit 2; else git -C $L/repo checkout -q -- . && git -C $L/repo checkout -q --detach $(git -C /repo rev-parse HEAD); fi
  rsync -a --delete --exclude work --exclude .git --exclude evidence /verif/ $L/verif/
  mkdir -p $L/verif/work $L/verif/evidence
  sed -i "s#path = \"/repo\"#path = \"$L/repo\"#" $L/verif/harness/Cargo.toml
  echo "lane at $(git -C $L/repo rev-parse --short HEAD)";;
 try)
  ID=$2; CHK=$3; TIER=${4:-quick}
  P=/verif/seeded/$ID/patch.diff; [ -f /verif/seeded/$ID/patch_head.diff ] && P=/verif/seeded/$ID/patch_head.diff
  [ -f "$ID" ] && P=$ID && ID=$(basename $ID .diff)
  cd $L/repo || exit 2
  git checkout -q -- .
  git apply $P 2>/dev/null || patch -p1 --fuzz=3 -s < $P || { git checkout -- .; find . -name '*.rej' -o -name '*.orig' | xargs rm -f; echo "patch does not apply"; exit 2; }
  find . -name '*.orig' | xargs rm -f
  cd $L/verif && VERIF_REPO=$L/repo bin/check $CHK --tier $TIER > /verif/work/try_${ID}_${CHK}.log 2>&1; rc=$?
  git -C $L/repo checkout -q -- .
  echo "$ID vs $CHK ($TIER): exit=$rc  $(grep -c '^VIOLATION' /verif/work/try_${ID}_${CHK}.log) violation lines, $(grep -c 'MODEL-DRIFT' /verif/work/try_${ID}_${CHK}.log) drift lines"
  grep -A1 '^VIOLATION' /verif/work/try_${ID}_${CHK}.log | head -4 | cut -c1-400;;
 rm) git -C /repo worktree remove --force $L/repo; rm -rf $L;;
esac
