#!/usr/bin/env python3
"""Regenerates MANIFEST.json from the table below (one source of truth for the registered checks)."""
import json
import os
import subprocess

VERIF = os.path.dirname(os.path.dirname(os.path.abspath(__file__)))

CHECKS = {
    "C18": dict(
        category="model_checking",
        technique="TLA+ model (MathVariant.tla) checked exhaustively by TLC against a reference built from Unicode's structure and cross-checked with the UCD; every model state replayed through set_mathml; TLC trace validation of the real outputs",
        text="Exhaustive over the finite space of the property (16 mathvariant values x 135 characters): TLC checks the as-built algorithm model against the Unicode reference (MatchesRef, Assigned, Injective); every pair is replayed in the real library in several token hosts and TLC judges the recorded outputs with the same predicates. The space is finite, so exhaustive enumeration is the right level.",
        design_ref="DESIGN.md section 5 C18",
        note="Trusted: python's unicodedata as the Unicode Character Database; ElementTree parsing of the returned MathML; TLC.",
    ),
}

CHECKS["C11"] = dict(
    category="model_checking",
    technique="TLA+ navigation state machine (Nav.tla) model-checked by TLC; TLC-generated behaviours and deviation counterexamples replayed through the real API; recorded sessions validated by TLC against Trace_Nav.tla; plus cross-subsystem session walks (preferences, expressions, getters, navigation, routing, rule files damaged and repaired in between) with the complete projected state after every call validated by TLC against the umbrella specification Session.tla (Trace_Session.tla; this property's clauses at property level, the step relation at refinement level); plus the key-press table as a TLA+ function (Keys.tla: TLC checks over 256 key codes x 16 modifier combinations that no combination reaches a panic arm) whose every entry is pressed in the library from several start states and judged by TLC (Trace_Keys.tla); where commands land is compared with the landing laws of NavGeom.tla (model-checked on every ordered tree of <= 6 nodes) at refinement level (Trace_NavGeom.tla)",
    text="TLC explores the navigation model (stacks, markers, retry loop, reset) exhaustively for small constants and checks the C11 invariants and action properties; the deviation configurations must be refuted and their counterexamples are replayed in the library. Simulated model behaviours, systematic move/undo sweeps and seeded random walks over the suite's expressions (3 modes, overview/auto-zoom both ways, keys, set_navigation_node, failed and successful set_mathml) are recorded with position before/after and judged event by event by TLC with exactly the clauses of C11. Histories are sampled, not enumerated, in the real library.",
    design_ref="DESIGN.md section 5 C11",
    note="Where a Move/Zoom lands is decided by navigate.yaml and is deliberately unspecified (only: within the expression). Trusted: ids in the returned MathML, TLC, the projection of results into events.",
)

_CANON_NOTE = "Trusted: Python's ElementTree as an independent XML parser for inputs and outputs; the character normalisation table of Canon.tla (transcribed from the documented normalisations); TLC. Inputs on which set_mathml returns Err are outside (C08)."
CHECKS["C01"] = dict(
    category="model_checking",
    technique="TLC-enumerated tree contexts (TreeGen.tla) concretised and run through set_mathml; TLC judges Visible(out) = Visible(in) (Canon.tla / Trace_Canon.tla) on every recorded pair, incl. the suite's expressions and their degenerate-child mutants",
    text="Small-scope exhaustive on the input side: every context P(..Q(..leaf or degenerate filler..)..) of 20 element kinds x 16 leaf/filler classes to depth 2 (29k abstract trees; sampled in quick, all in thorough), deeper simulated nestings, two token alphabets (heuristic-neutral, heuristic-triggering), six separator locales, plus the suite's 2 220 expressions and their mutants. The oracle Visible() is a TLA+ operator evaluated by TLC on the real input/output trees.",
    design_ref="DESIGN.md section 5 C01",
    note=_CANON_NOTE,
)
CHECKS["C02"] = dict(
    category="model_checking",
    technique="same TLC-generated inputs as C01; TLC evaluates WellFormedCanon (arities, paired multiscripts, no empty token, no redundant mrow, wrappers removed) on every returned tree; the returned string must parse with an independent XML parser",
    text="WellFormedCanon is a TLA+ predicate (Canon.tla) evaluated by TLC on every tree returned by set_mathml for the TLC-enumerated contexts, simulated deep trees, suite expressions and degenerate-child mutants; escaping is checked by parsing the returned string with an independent parser and comparing visible content (C01's oracle).",
    design_ref="DESIGN.md section 5 C02",
    note=_CANON_NOTE,
)
CHECKS["C09"] = dict(
    category="model_checking",
    technique="same TLC-generated inputs as C01 under four author-id modes (none, all, alternate, duplicates); TLC evaluates the id predicates of Canon.tla on every returned tree; ids handed out later are judged by the navigation traces (Trace_Nav.tla: position in Ids(expr))",
    text="Every element has an id, library ids are fresh, author ids stay distinct and stay on the token that carries their text: TLA+ predicates evaluated by TLC on the real output for the enumerated contexts x id modes. The 'ids handed out later' clause is covered by the C11 navigation traces (position and get_navigation_mathml ids must be ids of the returned tree) which this check re-runs in a reduced form.",
    design_ref="DESIGN.md section 5 C09",
    note=_CANON_NOTE + " Tokens that canonicalization splits or merges are outside the author-id clause.",
)

CHECKS["C10"] = dict(
    category="model_checking",
    technique="TLA+ model of the lazily loaded, partly shared rule tables (RuleCache.tla) model-checked by TLC (invariant Fresh); model histories and seeded random histories executed in 16 concurrent sessions; TLC validates that memo: (expression, preferences at set time, preferences now, getter) -> output stays a function (Trace_Memo.tla); plus cross-subsystem session walks (preferences, expressions, getters, navigation, routing, rule files damaged and repaired in between) with the complete projected state after every call validated by TLC against the umbrella specification Session.tla (Trace_Session.tla; this property's clauses at property level, the step relation at refinement level); plus the language-selection model LangSelect.tla (TLC refutes three deviations of the pinned commit) whose every 3-call (thorough: 4-call) behaviour is executed and judged by TLC (Trace_LangSelect.tla: same current preference values => same files)",
    text="Design level: TLC explores all interleavings of preference switches (incl. regional variants that share rule files but not Unicode files) and getters over the five rule sets with their shared tables and checks that a getter never answers from a table that is not the one the preferences name. Implementation level: histories simulated from the model, seeded random histories over every shipped language/style/code/engine (away and back, getters in every order and multiplicity, navigation noise, 16 threads at once) and fresh reference sessions are recorded; TLC rejects any two observations with equal key and different output. Histories and schedules are sampled.",
    design_ref="DESIGN.md section 5 C10",
    note="Key completeness: the read-back of every known preference name is the complete assignment. Thread independence rests on the inventory of statics re-derived on every run (a process-wide mutable static is reported as MODEL-DRIFT). Trusted: TLC, the fingerprinting of outputs with ids renamed.",
)

CHECKS["C12"] = dict(
    category="model_checking",
    technique="TLA+ model of the two typed preference maps and the set_preference dispatch (Prefs.tla) model-checked by TLC; class sequences and seeded sequences over every real preference name executed; every call judged by TLC from the complete read-back before/after (Trace_Prefs.tla)",
    text="TLC checks on the model that an accepted preference reads back, unknown names and wrong kinds are rejected, an Err changes nothing and set_mathml never writes preferences - for all sequences of (name class, value class); the dispatch of the pinned commit is refuted. In the real library every set_preference over all 78 known names + unknown/mis-cased names x value classes (valid, invalid, wrong type, empty, differently cased) is recorded with the read-back of every name, the stored kind (hook) and speech/braille fingerprints, and judged with exactly the C12 clauses.",
    design_ref="DESIGN.md section 5 C12",
    note="String preferences accept any string by design (file fallback), so only clear-cut cases require Err. Trusted: get_preference read-back of every known name as the observable store; TLC.",
)
CHECKS["C14"] = dict(
    category="model_checking",
    technique="TLA+ model of the rule tables with environment actions Damage/Repair/SetRulesDir (RuleCache.tla) model-checked by TLC, each deviation of the pinned commit refuted; fault sequences (file x shape x warm/cold x recovery mode) executed on a private Rules copy with explicit mtimes; TLC validates Trace_Faults.tla and the recovery memo (Trace_Memo.tla)",
    text="Design: TLC explores all interleavings of damage, repair, re-pointing, preference switches and getters and checks that answers after recovery are computed from fresh tables. Implementation: every rule file reachable from three configurations (harvested through the file-read hook) x 7 fault shapes x {cold, warm} x {CheckRuleFiles=All, re-point}: no call may panic, loader errors must name the file, no call may fail after repair, and every post-repair output must equal the pre-fault/reference output (quick: seeded sample; thorough: complete product).",
    design_ref="DESIGN.md section 5 C14",
    note="'Names the file' is asserted only for errors raised while the loader was reading the damaged file in that call. Truncation is at YAML item boundaries. Trusted: the file-read hook, explicit mtimes (no wall clock), TLC.",
)

CHECKS["C08"] = dict(
    category="model_checking",
    technique="TLA+ interface state machine (Api.tla): every entry point x argument class enabled in every state; TLC-exported call sequences executed from four start states with crash detection; TLC validates every call (Trace_Api.tla: Ok/Err within the time bound) and the recovery memo (Trace_Memo.tla); plus cross-subsystem session walks (preferences, expressions, getters, navigation, routing, rule files damaged and repaired in between) with the complete projected state after every call validated by TLC against the umbrella specification Session.tla (Trace_Session.tla; this property's clauses at property level, the step relation at refinement level); plus the key-press table as a TLA+ function (Keys.tla: TLC checks over 256 key codes x 16 modifier combinations that no combination reaches a panic arm) whose every entry is pressed in the library from several start states and judged by TLC (Trace_Keys.tla)",
    text="TLC enumerates every (entry point, argument class) call, every ordered pair and simulated 7-call sequences over 16 entry points and their argument classes (malformed/odd/huge/deep MathML, wrong-kind preference values, unknown commands, key codes x modifiers, stale/unknown ids, huge offsets and positions). Each behaviour runs in the real library from four start states; a panic, abort, stack overflow or time-out is the violation, and after each behaviour a valid expression must give exactly what a fresh session gives under the same preference read-back. Sequences longer than 2 are sampled.",
    design_ref="DESIGN.md section 5 C08",
    note="Non-termination is judged by a 15 s bound per call; stack overflow by process death (re-run one script per process). Expressions <= 400 nodes / depth <= 60 on an 8 MiB stack. The model's prediction of which calls err is refinement level only.",
)

CHECKS["C20"] = dict(
    category="model_checking",
    technique="TLA+ model of routing as save/override/search/restore (Route.tla) model-checked by TLC, early-return deviation refuted; highlight/position/routing queries for every id and cell of suite expressions x codes x highlight styles recorded with preference and navigation read-back after every query; judged by TLC (Trace_Route.tla); plus cross-subsystem session walks (preferences, expressions, getters, navigation, routing, rule files damaged and repaired in between) with the complete projected state after every call validated by TLC against the umbrella specification Session.tla (Trace_Session.tla; this property's clauses at property level, the step relation at refinement level)",
    text="Design: PrefRestored holds on every exit of the search in the intended model and is refuted for the pinned commit's early return. Implementation: per (expression, code, style) get_braille for every id and for unknown/stale ids, get_braille_position and get_navigation_node_from_braille_position for every cell (sampled beyond 40) and past the end at several navigation positions; TLC checks success for ids/cells of the expression, bounds, id membership, equality with the unhighlighted braille for Off/unknown ids, and purity (preference, navigation position, later braille and speech). Expressions are sampled from the suite.",
    design_ref="DESIGN.md section 5 C20",
    note="'highlighted = plain + dots 7-8' is not demanded. Position bound = plain braille length + 8 cells. One known finding (non-3-byte characters in Swedish braille) is listed in known_findings.json.",
)

CHECKS["C13"] = dict(
    category="model_checking",
    technique="TLA+ model of the per-engine start/end tag tables, command nesting and pause merging (TTS.tla) model-checked by TLC; real speech of suite expressions under seeded engine/rate/pitch/volume/pause/capital/bookmark combinations tokenised and judged by the same pushdown automaton in TLC (Trace_TTS.tla)",
    text="Design: for every command x engine and every nesting of <= 2 commands around words and pauses the rendered token sequence is balanced, uses only the engine's vocabulary and keeps the words; the SAPI5 end tags of the pinned commit are refuted. Implementation: speech and overview of suite expressions (and expressions that speak as nothing) under SSML and SAPI5 are lexed into tags and words; TLC checks vocabulary, nesting/closing, attribute syntax (lexer flag), character equality with the TTS=None speech and bookmark names against the ids of the returned MathML. Configurations and expressions are sampled.",
    design_ref="DESIGN.md section 5 C13",
    note="The lexer (tag grammar) is the trusted projection. Characters, not words, are compared; pause punctuation is removed on both sides. One known finding (expression text not escaped) is listed.",
)

CHECKS["C04"] = dict(
    category="model_checking",
    technique="TLA+ model of the speech post-processing pipeline (Speech.tla: replace_array_string, optional-word de-duplication, marker stripping, pause merging) model-checked by TLC (OperandsKept); TLC-enumerated textbook-grammar contexts (ExprGen.tla) with a distinct decimal literal at every operand position spoken under every language x style x verbosity; literal counts judged by TLC (Trace_Operands.tla)",
    text="Design: for all child-string triples up to a bound, post-processing never deletes an operand token; the is_repetitive of the pinned commit is refuted. Implementation: every context P(..Q(..)..) of 31 productions (1 922 trees, exhaustive to depth 2) plus simulated depth-4 nestings, literals written with the language's decimal mark, under language x {ClearSpeak, SimpleSpeak} x {Terse, Medium, Verbose} (all 48 in thorough, 3 seeded per tree in quick); TLC counts each literal in the speech (digit boundaries) and rejects fewer occurrences than planted.",
    design_ref="DESIGN.md section 5 C04",
    note="Rule files are data: coverage of rule paths is by generated expressions, not by a model of each rule. More occurrences than planted is MODEL-DRIFT only. Three known findings (decimal-comma mixed number; Vietnamese under/over scripts; is_repetitive deleting the speech in front of a repeated optional word, identified per case by the repetitive_drop hook event) are listed and their recorded examples are judged in every run.",
)

CHECKS["C05"] = dict(
    category="model_checking",
    technique="TLA+ model of the speech post-processing pipeline (Speech.tla) model-checked by TLC (NoMarkers); speech, overview and navigation speech recorded from the library for suite expressions, marker-bearing token strings and a sweep over every key of each language's Unicode tables under every language x style x verbosity, each returned string judged by TLC (Trace_Speech.tla)",
    text="Design: for all child-string triples up to a bound no optional-word, concatenation or auto-pause marker survives post-processing. Implementation: for every shipped language x style x verbosity (42 configurations, seeded capital-letter preferences): get_spoken_text and get_overview_text of suite expressions (60 seeded in quick, all ~2 200 in thorough), navigation speech of seeded walks, token strings with embedded U+2061..2064 and private-use characters, and one expression per key of the language's unicode.yaml / unicode-full.yaml (all keys in thorough) plus characters in no table; TLC rejects Err, blank speech for visible content, private-use code points not in the input, [[ ]], raw invisible operators and angle brackets not in the input.",
    design_ref="DESIGN.md section 5 C05",
    note="Sampled, not exhaustive, over expressions; exhaustive over languages, styles, verbosities and (thorough) table keys. Navigation commands that answer Err are C08/C11's business. Two known findings (silent non-move at a bracket edge; Vietnamese navigation into a table) are listed and their recorded examples are judged in every run.",
)

CHECKS["C06"] = dict(
    category="model_checking",
    technique="TLC-enumerated textbook-grammar contexts (ExprGen.tla) with a distinct numeric literal at every operand position brailled under every code x code-specific preference; contiguous cell runs of each literal judged by TLC (Trace_Operands.tla) on the final braille and on every clean-up result (braille_cleanup hook)",
    text="Every context P(..Q(..)..) of 31 productions (exhaustive to depth 2) plus simulated depth-4 nestings, distinct 3-digit literals at every operand position, under 8 braille codes x their preferences (UEB start mode and spacing, LaTeX short names, Vietnam drop numbers): TLC counts the contiguous run of each literal's cells (calibrated by brailling the bare literal; upper or lowered digits) in the output and in each raw->cleaned clean-up result and rejects fewer runs than occurrences. All configurations in thorough, 3 seeded per tree in quick.",
    design_ref="DESIGN.md section 5 C06",
    note="The digit cells come from the library's own braille of the bare literal, so the check is about operands lost or split in context, not about the digit table. Two known findings (CMU menclose box, Swedish sum upper limit) are listed.",
)

CHECKS["C07"] = dict(
    category="model_checking",
    technique="TLA+ model of the indicator replacement step (Braille.tla) checked by TLC on the regex class / replacement table harvested from braille.rs and the indicator characters harvested from each code's rule files; suite expressions and a sweep over every key of each code's Unicode tables under six codes and highlight styles judged by TLC (Trace_Braille.tla)",
    text="Design: every indicator character a cell code's files can emit is matched by the clean-up class and replaced by cells. Implementation: suite expressions and every character that is a key of the code's Unicode tables (plus characters in no table) in mi/mo/mn/mtext hosts with typeface variants, for Nemeth, UEB, CMU, Vietnam (cells) and LaTeX, ASCIIMath (text); TLC checks that every output character is a braille cell or an undefined character of the canonical MathML, that no cell carries dots 7-8 beyond the 8-dot cells of the code's own files, that highlight styles with id '' or an unknown id change nothing, that text codes are printable and marker-free, and that visible content never gives empty braille. The character sweep is complete in thorough and sampled in quick.",
    design_ref="DESIGN.md section 5 C07",
    note="Definedness is computed from harvested table keys (single characters and ranges). Three known findings (Nemeth menclose arrows, uncovered <none/> reaching the default rule, table row separator taken for a highlight) are listed.",
)

CHECKS["C15"] = dict(
    category="model_checking",
    technique="TLA+ model of the rule-file search (Locate.tla / LocateOps.tla: get_language_dir, unzip_files, find_file with its style-file and default-language fallbacks) model-checked by TLC over every directory tree of a small universe; the trees realised on disk and the library's resolved paths (prefs_dump hook) validated against the model by TLC (Trace_Locate.tla); on the shipped Rules every language tag x style x code resolution, loaded-equals-resolved after in-session switches (cache_state hook), and speech / overview / navigation / braille of an element-kind corpus under every language x style x verbosity x code judged by TLC (Trace_Speech.tla)",
    text="Design: for every tree with a complete default language and code, every selection resolves every file, a region without rule files resolves like its language, an unknown language like English, a file the language has is never taken from English, the style file stays in the language; the pinned commit's search (an empty directory is a language; '-' always splits) is refuted. Implementation: all 2 080 trees of the universe x selections replayed on disk (paths must be among the model's); the shipped tree: 17 language tags (shipped, region missing, unknown, directory without files) x 3 styles x codes; 15-step in-session switching sequences where the first file of every loaded table must be the resolved one; 42 language x style x verbosity configurations x rotating codes (all 8 codes for Medium in thorough) over 57 element-kind expressions plus 25 (quick) / 300 (thorough) suite expressions: every getter answers Ok and is not blank; fallback tags give the outputs of what they fall back to when the number separators agree.",
    design_ref="DESIGN.md section 5 C15",
    note="Generated trees hold stub files (only the search is replayed there). 'Any style file' depends on directory order, the model allows each. Evidence lists which rules of each file matched (rule_match hook). Three known findings (hyphenated braille code, English zoom into a labelled row, lone block separator) are listed and their examples judged in every run.",
)

CHECKS["C03"] = dict(
    category="model_checking",
    technique="TLA+ model of the shift/reduce operator-precedence parser of canonicalize.rs (OpPrecOps.tla: find_operator, compute_type_from_position, determine_vertical_bar_op, is_nary, shift_stack, reduce_stack) model-checked by TLC on every token sequence up to a bound (OpPrec.tla: one frame at the end, re-bracketing, row invariants on well-formed rows); the sequences and seeded random rows over every operator of operator-info.in given to set_mathml at top level and inside 2-D constructs; TLC re-parses the tokens with the real dictionary chains and compares with the row structure of the canonical MathML, and evaluates the row invariants on these outputs and on every row of the canonical form of the suite expressions (Trace_OpPrec.tla)",
    text="Design: for all 54 240 sequences of length <= 4 (quick) / 813 615 of length <= 5 (thorough) over {operand, = < + - x , ; not ! !! ( ) | unlisted}: the stack ends with one frame (refuted for the pinned commit: '| )' - the panic repaired in 0af20df), the leaves are the tokens in order, and for well-formed rows no adjacent operands, one priority per row, nested infix/postfix rows bind at least as tightly, fences enclose exactly their content (refuted when rows with an operator whose form depends on a following operator count as well formed - known finding). Implementation: the same sequences concretised with the real operators + 6 000 (quick) / 60 000 (thorough) seeded well-formed rows over the 1 209 dictionary operators canonicalization leaves as they are + 1 500 / 20 000 rows with vertical bars, in 6 contexts: the canonical row structure equals the model's parse (59 962 rows in quick); row invariants on those and on the 2 125 rows of the suite's canonical forms.",
    design_ref="DESIGN.md section 5 C03",
    note="The reference parse is the as-built algorithm with its tie rules made explicit. Rows with a function-name guess, a one-token parenthesis (chemistry state pre-pass) or merged double bars are outside the plain class (counted in the evidence). In suite rows only rows made by the parser (data-changed='added') are judged against priorities: the author's own mrows are kept as written. One known finding (form choice looks only at the next token) is listed and its examples judged in every run.",
)

CHECKS["C16"] = dict(
    category="model_checking",
    technique="TLA+ specification of what is owed to a written number (NumberFold.tla: locale grammar over digit / block separator / decimal mark, cuts into tokens, contexts; classes Required / Forbidden / Unspecified) model-checked by TLC over every written form up to a bound; the forms concretised under four locales and cut into mn/mo/mtext tokens, set_mathml / speech / braille of the cut and of the one-token spelling recorded from the library, each case classified and judged by TLC (Trace_NumberFold.tla); separator preferences also changed one at a time inside a session",
    text="Design: over all written forms of length <= 7 (quick) / 9 (thorough), all cuts, 12 contexts and both comma roles the classes are a partition, Required forms are numbers of the grammar, Forbidden ones are clear non-numbers or comma lists inside fences. Implementation: the enumerated forms plus grammar-built longer numbers and their near misses (1 576 forms in quick), seeded cuts (all cuts of forms with <= 3 free separators in thorough), seeded contexts and locales (US, decimal comma via Language, Swiss, forced point): Required => canonical MathML, speech and Nemeth braille equal the one-token spelling's; no mn that took in a separator token is a clear non-number; a comma list directly inside fences is not folded; two chains of six separator settings changed one preference at a time in one session, each judged the same way.",
    design_ref="DESIGN.md section 5 C16",
    note="The scan of merge_number_blocks and its five regular expressions are not modelled (deviation from the plan): the specification states what each class of input is owed and the library is judged against that. Five known findings (full stop after a decimal number, U+202F rewritten to U+00A0, Swiss apostrophe token, partly split numbers, the one-digit-per-token pattern) are listed and their examples judged in every run.",
)

CHECKS["C17"] = dict(
    category="model_checking",
    technique="TLA+ model of the string passes in front of the XML parser (XmlSurface.tla: entity substitution, MathJax class stripping, namespace declaration / prefix stripping, parser, trimming) on the surface choices of a document, model-checked by TLC over every sequence of <= 3 rewrites; each reachable spelling applied to suite expressions by a serializer that writes one infoset with those choices; every name of entities.in written against its numeric spelling; results recorded from the library and judged by TLC (Trace_Xml.tla), the as-built model predicting errors and edited text at refinement level",
    text="Design: over the 528 reachable combinations of {character spelling (raw, named, named with a digit, decimal, hex, unknown name), prefix (none, m, mml), extra white space, comment, processing instruction, quote kind, MathJax class (v2, v3), look-alike text}: known names resolve, an unknown name is reported by name, spellings with one infoset give one result; refuted for the entity regex of the pinned commit (names with a digit - repaired in 7c22c39) and for 'token text is kept' when text looks like a MathJax class or a namespace declaration (known finding). Implementation: each spelling on 3 (quick) / 25 (thorough) seeded suite expressions (white space at token ends, inside token text, between elements): canonical MathML with ids renamed, speech and Nemeth braille equal the base spelling's; all 2 125 entity names equal their numeric spelling; 60 unknown names give Err naming the entity.",
    design_ref="DESIGN.md section 5 C17",
    note="Variants are written by a serializer from the parsed base document (one infoset by construction). Documents with element children inside tokens are not used for white-space rewrites (white space is content there). Attribute values containing 'xmlns:' or 'class=' are not generated. One known finding (text that looks like markup is edited) is listed.",
)

CHECKS["C19"] = dict(
    category="model_checking",
    technique="TLA+ model of the intent lexer and grammar (Intent.tla: LexState's token order over character classes, the grammar of infer_intent.rs's comments under both readings of an empty argument list) model-checked by TLC on every class string up to a bound; exported strings concretised as intent values (ASCII and non-ASCII representatives, resolvable and dangling references, nestings up to depth 1 000) on five host elements; get_spoken_text under IntentErrorRecovery = IgnoreIntent and = Error and of the host without the attribute recorded from the library and judged by TLC against the five clauses (Trace_Intent.tla)",
    text="Design: over all 177 156 class strings of length <= 5 (quick) / 1.9 million of length <= 6 (thorough): clearly illegal values (unbalanced or stray parentheses, empty argument, text after ')', a character no token may hold, ':' or '$' without a name, no head) are illegal under both readings, clearly legal simple values name($r,..) are legal under both, the readings differ only where '()' occurs. Implementation: about 3 000 (quick) / 80 000 (thorough) (value, host) events: IgnoreIntent speech is always Ok; if Error mode says Err the IgnoreIntent speech equals the speech without the attribute, if it says Ok both modes agree; clearly illegal values and dangling references give Err in Error mode; clearly legal simple values with an unknown head are accepted and the speech has the head's words and each referenced argument; afterwards the expression still has the attribute, no data-intent-property, and the same braille.",
    design_ref="DESIGN.md section 5 C19",
    note="Neither legality nor illegality is asserted for values with an empty argument list (the comment grammar and the code differ there). A head that a rule file knows as a concept is spoken by its own phrase, so 'mentions' is not demanded for it.",
)

NOT_YET = {}


def main():
    props = [json.loads(l) for l in open(os.path.join(VERIF, "properties.jsonl"))]
    hook_commits = subprocess.run(["git", "-C", "/repo", "log", "--format=%H %s", "--grep=^verif hook"],
                                  stdout=subprocess.PIPE, text=True).stdout.strip().splitlines()
    checks = []
    na = []
    for p in props:
        pid = p["id"]
        if pid in CHECKS:
            c = CHECKS[pid]
            checks.append({
                "property_id": pid,
                "quick_cmd": f"bin/check {pid} --tier quick",
                "thorough_cmd": f"bin/check {pid} --tier thorough",
                "evidence_file": f"evidence/{pid}.json",
                "replay_cmd_template": f"bin/check {pid} --replay {{path}}",
                "engine": "tlc+mcv",
                "level_claimed": {"category": c["category"], "text": c["text"], "design_ref": c["design_ref"]},
                "level_note": c["note"],
                "technique": c["technique"],
            })
        else:
            na.append({"property_id": pid, "reason": NOT_YET.get(pid, "check not built yet in this round (planned; see DESIGN.md section 5)")})
    m = {
        "version": 1,
        "setup_cmd": "bin/setup",
        "hooks": {
            "guard": "mathcat_verif",
            "enable": "rustc --cfg mathcat_verif (set for the harness build in harness/.cargo/config.toml: rustflags = [\"--cfg\",\"mathcat_verif\"])",
            "baseline_off_cmd": "cd /repo && cargo nextest run --workspace --no-fail-fast --test-threads 8 --offline",
            "source_commits": [l.split()[0] for l in hook_commits],
            "add_only": True,
        },
        "engines": [
            {"name": "tlc", "path": "spec/", "serves_properties": sorted(CHECKS), "kind_free_text": "TLA+ specifications checked by TLC 1.8 (design models, behaviour export, trace validation)"},
            {"name": "mcv", "path": "harness/", "serves_properties": sorted(CHECKS), "kind_free_text": "Rust conformance harness: executes exported behaviours against the real library and records traces"},
        ],
        "checks": checks,
        "not_applicable": na,
        "notes": "Model-based verification with explicit TLA+ specifications; see DESIGN.md. Driver: bin/check <id> --tier quick|thorough.",
    }
    with open(os.path.join(VERIF, "MANIFEST.json"), "w") as f:
        json.dump(m, f, indent=1)
    print(f"{len(checks)} checks, {len(na)} not claimed")


if __name__ == "__main__":
    main()
