"""C02 - see canon.py (shared pipeline of C01/C02/C09) and spec/Canon.tla, spec/Trace_Canon.tla, spec/TreeGen.tla."""
import canon

PID = "C02"


def run(tier):
    return canon.run(PID, tier)


def replay(path):
    return canon.replay(PID, path)


def selftest(tier):
    return canon.selftest(PID)
