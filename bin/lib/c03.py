"""C03 - row structure follows the operator dictionary.

M1: OpPrec.tla / OpPrecOps.tla (TLC): the shift/reduce parser of canonicalize.rs on EVERY token sequence up to a bound over a class
    alphabet with real dictionary entries: one stack frame at the end, the parse is a re-bracketing, and for well-formed
    sequences the row invariants of the property hold. With stacked prefix operators counted as well formed the invariants are
    refuted (as built; known finding).
M2: the enumerated sequences, and seeded random sequences over ALL operators of src/operator-info.in, are given to set_mathml at
    top level and inside 2-D constructs.
M3: Trace_OpPrec.tla: TLC re-parses the tokens with the dictionary chains of the real file and compares with the row structure of
    the canonical MathML; the row invariants are evaluated on these outputs and on every row of the canonical form of the suite
    expressions."""
import json
import os
import random
import re
import time

import common as C
import mml
import session as S

PID = "C03"
FORMS = {"PREFIX": "prefix", "INFIX": "infix", "POSTFIX": "postfix", "LEFT_FENCE": "lfence", "RIGHT_FENCE": "rfence"}
CLASS_SYM = {"=": "=", "<": "<", "+": "+", "-": "-", "x": "×", ",": ",", "~": "¬", "!": "!", "!!": "!!", "(": "(", ")": ")", "?": "☺", "^": "∧", ";": ";", "|": "|", "||": "‖"}
OPERANDS = "abcwxyz"
# operands that look like chemical elements: the first parse runs with chemistry marks in place (a '-' '=' ':' between such letters is
# looked up as a bond), and when the expression is then NOT accepted as chemistry the rows have to be parsed again without them
ELEMENTS = "HCNOSP"
CONTEXTS = ["top", "sqrt", "num", "exp", "cell", "under", "detsub"]
EMBELLISHERS = ("msub", "msup", "msubsup", "munder", "mover", "munderover", "mmultiscripts")
INVISIBLE = {"\u2061", "\u2062", "\u2063", "\u2064"}


def dictionary():
    """src/operator-info.in -> {symbol: [{form, prio}, ...]} (the chain in file order)."""
    src = open(os.path.join(C.REPO, "src", "operator-info.in"), encoding="utf-8").read()
    out = {}
    for m in re.finditer(r'^\s*"((?:[^"\\]|\\.)*)"\s*=>\s*(OperatorInfo\{.*?)(?=^\s*"|\Z)', src, re.M | re.S):
        sym = json.loads('"' + m.group(1).replace("\\u{", "\\u{") + '"') if "\\u{" not in m.group(1) else \
            re.sub(r"\\u\{([0-9a-fA-F]+)\}", lambda x: chr(int(x.group(1), 16)), m.group(1)).replace('\\"', '"').replace("\\\\", "\\")
        chain = [{"form": FORMS[t], "prio": int(p)} for t, p in re.findall(r"op_type:\s*OperatorTypes::([A-Z_]+),\s*priority:\s*(\d+)", m.group(2))]
        out[sym] = chain
    if len(out) < 1000:
        raise C.ToolError(f"operator-info.in: only {len(out)} entries parsed")
    return out


def tok(sym, D):
    return {"k": "o", "s": C.cps(sym), "chain": D.get(sym, [])}


EMBELLISH = {"under": "<munder>{}<mi>k</mi></munder>", "over": "<mover>{}<mtext>def</mtext></mover>", "underover": "<munderover>{}<mi>k</mi><mi>n</mi></munderover>",
             "sub": "<msub>{}<mi>k</mi></msub>"}


def xml_of(seq, emb=None, operands=OPERANDS):
    """seq: list of 'a' (operand) or an operator string; emb: {index: kind of embellishment} - an embellished operator (an mo with
    limits or a subscript) IS that operator for the parser (get_possible_embellished_node), so the reference parse is the same."""
    out, k = [], 0
    for i, s in enumerate(seq):
        if s == "a":
            out.append(f"<mi>{operands[k % len(operands)]}</mi>")
            k += 1
        else:
            mo = "<mo>" + s.replace("&", "&amp;").replace("<", "&lt;").replace(">", "&gt;") + "</mo>"
            out.append(EMBELLISH[emb[i]].format(mo) if emb and i in emb else mo)
    return "".join(out)


def wrap(body, ctx):
    row = f"<mrow>{body}</mrow>"
    return {"top": f"<math>{body}</math>", "sqrt": f"<math><msqrt>{body}</msqrt></math>", "num": f"<math><mfrac>{row}<mn>7</mn></mfrac></math>",
            "exp": f"<math><msup><mi>q</mi>{row}</msup></math>", "cell": f"<math><mtable><mtr><mtd>{body}</mtd><mtd><mn>7</mn></mtd></mtr></mtable></math>",
            "under": f"<math><munder><mo>∑</mo>{row}</munder></math>",
            # a radicand / numerator / exponent inside an expression that is not chemistry whatever the row looks like
            "eqsqrt": f"<math><mi>x</mi><mo>=</mo><msqrt>{body}</msqrt></math>", "eqnum": f"<math><mi>x</mi><mo>=</mo><mfrac>{row}<mn>7</mn></mfrac></math>",
            "plusexp": f"<math><mi>x</mi><mo>+</mo><msup><mi>q</mi>{row}</msup></math>",
            # three levels down, in a place the chemistry scan walks into: the subscript of a cell of a determinant (9b2141d)
            "detsub": f"<math><mo>|</mo><mtable><mtr><mtd><msub><mi>X</mi>{row}</msub></mtd><mtd><mn>7</mn></mtd></mtr></mtable><mo>|</mo></math>"}[ctx]


def locate(tree, ctx):
    """the subtree of the canonical MathML that holds the row."""
    def only(t):
        return t["kids"][0] if len(t["kids"]) == 1 else {"tag": "mrow", "kids": t["kids"], "cp": [], "a": {}}
    root = only(tree)
    if ctx == "top":
        return root
    want = {"sqrt": "msqrt", "num": "mfrac", "exp": "msup", "cell": "mtd", "under": "munder", "detsub": "msub", "eqsqrt": "msqrt", "eqnum": "mfrac",
            "plusexp": "msup"}[ctx]

    def find(t):
        if t["tag"] == want:
            return t
        for k in t["kids"]:
            r = find(k)
            if r:
                return r
        return None
    n = find(tree)
    if n is None:
        return None
    if ctx in ("sqrt", "cell", "eqsqrt"):
        return only(n)
    return n["kids"][0] if ctx in ("num", "eqnum") else n["kids"][1] if len(n["kids"]) > 1 else None


def row_tree(t, D):
    """canonical subtree -> [t: r/o/x]; an element that is not an mrow or an mo is an operand."""
    if t["tag"] == "mrow":
        return {"t": "r", "kids": [row_tree(k, D) for k in t["kids"]], "ad": 1 if t.get("a", {}).get("data-changed") == "added" else 0}
    base = t
    while base["tag"] in EMBELLISHERS and base["kids"]:      # get_possible_embellished_node: a scripted/accented mo is an operator
        base = base["kids"][0]
    if base["tag"] == "mo" and base is not t:
        t = base
    if t["tag"] == "mo":
        s = "".join(chr(c) for c in t["cp"])
        chain = D.get(s, [])
        a = t.get("a", {})
        return {"t": "o", "s": t["cp"], "chain": chain}
    return {"t": "x"}


def has_heuristic_marks(t):
    """rows where canonicalize.rs parsed an inserted operator with a priority that is not the dictionary's (chemistry bonds 905,
    separators between capitals 901, invisible plus of mixed fractions 881, invisible times inside trig arguments 851)."""
    if t["tag"] == "mo":
        s = "".join(chr(c) for c in t["cp"])
        a = t.get("a", {})
        if any(k.startswith("data-chem") for k in a):
            return True
        if s in ("\u2063", "\u2064"):
            return True
        if s == "\u2062" and a.get("data-changed") == "added":
            return "trig"
    r = False
    for k in t.get("kids", []):
        if t["tag"] == "mrow" or True:
            h = has_heuristic_marks(k) if k["tag"] in ("mrow", "mo") else False
            if h is True:
                return True
            r = r or h
    return r


def suite_rows(D, wd, tier):
    """every maximal row of the canonical form of the suite expressions."""
    corpus = [c["mathml"] for c in mml.corpus() if len(c["mathml"]) < 4000]
    ops = [{"op": "set_rules_dir", "dir": "$RULES"}]
    for e in corpus:
        ops.append({"op": "set_mathml", "mathml": e})
    scripts = [{"id": f"suite{b}", "ops": [ops[0]] + ops[1 + b:1 + b + 300], "isolate_on_panic": True} for b in range(0, len(corpus), 300)]
    res = C.run_mcv(scripts, wd, name="suite", timeout_ms=60000)
    events, back = [], []
    for s, r in zip(scripts, res):
        for o, rr in zip(s["ops"][1:], r["results"][1:]):
            if rr["r"] != "ok":
                continue
            t = mml.parse(rr["v"], expand=False)
            if t is None:
                continue

            def walk(n, parent_is_row):
                if n["tag"] == "mrow" and not parent_is_row:
                    # rows that carry an intent are left as the author bracketed them; chemistry and the other heuristics get
                    # their own priorities: only adjacency and fences are judged there
                    text = json.dumps(n)
                    heur = 1 if ('"intent"' in text or has_heuristic_marks(n) or "data-chem" in text or "\u2061" in text) else 0
                    events.append({"toks": [], "got": row_tree(n, D), "wf": 1, "plain": 0, "heur": heur})
                    back.append(("suite", o["mathml"], None))
                for k in n["kids"]:
                    walk(k, n["tag"] == "mrow")
            walk(t, False)
    return events, back


def run(tier):
    t0 = time.time()
    wd = C.workdir("c03")
    rng = random.Random(C.seed())
    D = dictionary()
    m1 = C.tlc_model_check("OpPrec", "MC_OpPrec_quick.cfg" if tier == "quick" else "MC_OpPrec.cfg", wd, workers=12, timeout=2400, coverage=False)
    asb = C.run_tlc("OpPrec", "MC_OpPrec_stacked.cfg", wd, workers=4, timeout=600, coverage=False)
    if asb["violation"] != "RowsOk":
        raise C.ToolError(f"stacked prefix operators: the row invariants are not refuted by TLC ({asb['violation']}, {asb['error']})")
    asb2 = C.run_tlc("OpPrec", "MC_OpPrec_asbuilt519.cfg", wd, workers=4, timeout=600, coverage=False)
    if asb2["violation"] != "OneFrame":
        raise C.ToolError(f"the open-fence test of the pinned commit is not refuted by TLC ({asb2['violation']}, {asb2['error']})")
    ex = C.run_tlc("OpPrec", "MC_OpPrec_export.cfg" if tier == "quick" else "MC_OpPrec_export5.cfg", wd, workers=4, timeout=2400, coverage=False)
    seqs = C.replay_lines(ex)
    if len(seqs) < 20000:
        raise C.ToolError(f"OpPrec exported only {len(seqs)} sequences")
    # which operators does canonicalization leave as they are (no rewriting of the character, no merging)? only those are drawn
    syms = sorted(s for s in D if s not in INVISIBLE and s not in ("|", "‖", "∥", "||", "|||") and s.strip() != "")
    shapes = {"infix": lambda s: ["a", s, "a"], "prefix": lambda s: ["a", "=", s, "a"], "postfix": lambda s: ["a", s, "=", "a"]}
    want_ops = {"infix": lambda s: [s], "prefix": lambda s: ["=", s], "postfix": lambda s: [s, "="]}
    by_kind = {}
    for kind in ("infix", "prefix", "postfix"):
        # unambiguous readings only: a postfix operator is one that is nothing else
        cand = [s for s in syms if (all(e["form"] == "postfix" for e in D[s]) if kind == "postfix" else any(e["form"] == kind for e in D[s]))]
        probe = [{"id": f"probe-{kind}{b}", "ops": [{"op": "set_rules_dir", "dir": "$RULES"}] + [{"op": "set_mathml", "mathml": f"<math>{xml_of(shapes[kind](s))}</math>"} for s in cand[b:b + 200]],
                  "isolate_on_panic": True} for b in range(0, len(cand), 200)]
        pres = C.run_mcv(probe, wd, name="probe")
        keep = []
        for b, r in zip(range(0, len(cand), 200), pres):
            for s, rr in zip(cand[b:b + 200], r["results"][1:]):
                t = mml.parse(rr["v"], expand=False) if rr["r"] == "ok" else None
                if t is None or len(t["kids"]) != 1:
                    continue
                rt = row_tree(t["kids"][0], D)
                lv = []

                def leaves(n):
                    if n["t"] == "r":
                        for k in n["kids"]:
                            leaves(k)
                    else:
                        lv.append("".join(chr(c) for c in n["s"]) if n["t"] == "o" else "a")
                leaves(rt)
                if [x for x in lv if x not in INVISIBLE] == shapes[kind](s):
                    keep.append(s)
        by_kind[kind] = keep
    pool = sorted(set(by_kind["infix"]) | set(by_kind["prefix"]) | set(by_kind["postfix"]))
    cases = []          # (sequence of 'a' / operator, wf by the model or None, ctx)
    for i, st in enumerate(seqs):
        seq = ["a" if s == "a" else CLASS_SYM[s] for s in st["toks"]]
        cases.append((seq, bool(st["wf"]), "top" if tier == "quick" and i % 5 else CONTEXTS[i % len(CONTEXTS)]))
    # recorded examples of the open finding C03-form-choice-looks-only-at-next-token, judged in every run
    for seq in (["-", "[", "a", "+", "a", "]", "×", "a"], ["-", "+", "a", "×", "a"], ["¬", "-", "a", "∧", "a"]):
        cases.append((seq, None, "top"))
    # rows with vertical bars (| U+2016 U+2225): opening fence, closing fence or infix by the rules of determine_vertical_bar_op
    for i in range(1500 if tier == "quick" else 20000):
        r2 = random.Random(C.seed() * 7919 + i)
        seq = [r2.choice(["a", "a", "a", "|", "|", "‖", "∥", "+", "=", "-", ",", "(", ")", "¬", "!"]) for _ in range(r2.randint(2, 8))]
        cases.append((seq, None, CONTEXTS[i % len(CONTEXTS)]))
    # well-formed rows over the whole dictionary: operand (infix operand)*, prefix and postfix operators and parentheses sprinkled in
    n_rand = 6000 if tier == "quick" else 60000
    for i in range(n_rand):
        r2 = random.Random(C.seed() * 1000003 + i)
        n = r2.randint(2, 6)
        seq = []
        depth = 0
        fence = r2.choice([("(", ")"), ("[", "]"), ("{", "}"), ("(", ")")])
        opened_at = []
        for j in range(n):
            if r2.random() < 0.2 and j < n - 1:
                seq.append(fence[0])
                opened_at.append(j)
            if r2.random() < 0.25:
                seq.append(r2.choice(by_kind["prefix"]))
            seq.append("a")
            if r2.random() < 0.15:
                seq.append(r2.choice(by_kind["postfix"]))
            if opened_at and opened_at[-1] < j and r2.random() < 0.5:
                seq.append(fence[1])
                opened_at.pop()
            if j < n - 1:
                seq.append(r2.choice(by_kind["infix"]))
        seq += [fence[1]] * len(opened_at)
        cases.append((seq, True, CONTEXTS[i % len(CONTEXTS)]))
    cases = [c + ({},) for c in cases]
    # embellished operators: one operator of a row (never a fence: a script on a closing fence is an idiom of its own) carries limits
    # or a subscript - the row has to be bracketed exactly as without them. Over the TLC-enumerated sequences and the random rows.
    fences = set("()[]{}|‖∥")
    base = list(cases)
    for i, (seq, wf, ctx, _) in enumerate(base):
        if wf is not True:
            continue        # only rows that ARE rows: what a second parse makes of operators in a heap is not the property's business
        if tier == "quick" and i % 3:
            continue
        r2 = random.Random(C.seed() * 15485863 + i)
        at = [j for j, x in enumerate(seq) if x != "a" and x not in fences]
        if not at:
            continue
        cases.append((seq, wf, ctx, {r2.choice(at): r2.choice(sorted(EMBELLISH))}))
    cases = [c + (OPERANDS,) for c in cases]
    # element-like operands: the same well-formed rows, as radicand / numerator / exponent of an expression that is not chemistry
    # (and, for the protocol of Chem.tla, at the places of the other contexts); judged like the others unless the expression was
    # accepted as chemistry (chemistry is outside the plain class)
    chem_ctx = ["eqsqrt", "eqnum", "plusexp", "sqrt", "num", "exp", "cell"]
    n_el = 0
    for i, (seq, wf, ctx, emb) in enumerate(base):
        if wf is not True or sum(1 for x in seq if x == "a") < 2 or (tier == "quick" and i % 5 != 2):
            continue
        cases.append((seq, wf, chem_ctx[n_el % len(chem_ctx)], {}, ELEMENTS))
        n_el += 1
    # ... and, exhaustively, every row of two or three of the operators that may be bonds (- = : U+2261, in the dictionary: 280, 260,
    # 260/..., 260) between element-like operands and nothing else - the first parse adds no row for them, so nothing is "removed"
    # when the marks are taken off
    import itertools
    bonds = [b_ for b_ in ("-", "=", ":", "\u2261") if b_ in D]
    for n_ops in (2, 3):
        for ops_ in itertools.product(bonds, repeat=n_ops):
            seq = ["a"]
            for o_ in ops_:
                seq += [o_, "a"]
            for cx in chem_ctx:
                cases.append((seq, True, cx, {}, ELEMENTS))
    scripts = []
    for b in range(0, len(cases), 400):
        ops = [{"op": "set_rules_dir", "dir": "$RULES", "setup": True}, {"op": "events_on", "setup": True}]
        for seq, wf, ctx, emb, alpha in cases[b:b + 400]:
            ops.append({"op": "set_mathml", "mathml": wrap(xml_of(seq, emb, alpha), ctx)})
            ops.append({"op": "drain"})          # the chem_scan event of this expression (Chem.tla / Trace_Chem.tla)
        scripts.append({"id": f"rows{b}", "ops": ops, "isolate_on_panic": True})
    results = C.run_mcv(scripts, wd, name="rows", timeout_ms=60000)
    chem_events, chem_back = [], []
    for s, r in zip(scripts, results):
        for o, rr in zip(s["ops"], r["results"]):
            if o["op"] == "set_mathml":
                last_xml = o["mathml"]
            elif o["op"] == "drain" and rr["r"] == "ok":
                for e in rr["v"] or []:
                    if e.get("ev") == "chem_scan":
                        chem_events.append({"before": e["rows_before"], "after": e["rows_after"], "reparse": 1 if e["reparse"] else 0})
                        chem_back.append(last_xml)
        # (the judgement below reads set_mathml results only)
        keep = [i for i, o in enumerate(s["ops"]) if o["op"] != "drain"]
        s["ops"] = [s["ops"][i] for i in keep]
        r["results"] = [r["results"][i] for i in keep]
    for s in scripts:
        s["ops"] = [o for o in s["ops"] if o["op"] != "events_on"]
    for r in results:
        r["results"] = r["results"][:1] + r["results"][2:]
    events, back = [], []
    skipped = {"function-guess": 0, "degenerate-fence": 0, "not-ok": 0, "rewritten": 0}
    ci = 0
    for s, r in zip(scripts, results):
        for o, rr in zip(s["ops"][1:], r["results"][1:]):
            seq, wf, ctx, emb, alpha = cases[ci]
            ci += 1
            if rr["r"] != "ok":
                skipped["not-ok"] += 1      # a crash or an error on a row is C08's business
                continue
            t = mml.parse(rr["v"], expand=False)
            sub = locate(t, ctx) if t is not None else None
            if sub is None:
                skipped["not-ok"] += 1
                continue
            got = row_tree(sub, D)
            toks = [{"k": "x"} if x == "a" else tok(x, D) for x in seq]
            plain = 1
            # heuristics outside the parser (the property does not define them): an identifier directly in front of '(' may be taken
            # for a function name; the chemistry pre-pass groups a degenerate '( op )'
            text = rr["v"]
            if alpha is ELEMENTS and "data-chem" in text:
                plain = 0           # accepted as chemistry: bonds are operators of their own
                skipped["accepted-as-chemistry"] = skipped.get("accepted-as-chemistry", 0) + 1
            if "\u2061" in text or "&#x2061;" in text or "data-function-guess" in text:
                plain = 0
                skipped["function-guess"] += 1
            for i in range(len(seq) - 1):
                if seq[i] == seq[i + 1] and seq[i] in ("|", "‖", "∥"):
                    plain = 0           # '|' '|' is merged into one double bar before the parse
                    skipped["merged-bars"] = skipped.get("merged-bars", 0) + 1
                    break
            for i in emb:
                if i > 0 and seq[i - 1] in ("|", "‖", "∥"):
                    # determine_vertical_bar_op looks for the operand of the NEXT operator among the siblings of the embellished
                    # operator's base (its script) instead of the row: which reading of the bar that gives is outside the plain class
                    plain = 0
                    skipped["embellished-operator-after-bar"] = skipped.get("embellished-operator-after-bar", 0) + 1
            for i in range(len(seq) - 2):
                if seq[i] == "(" and seq[i + 2] == ")":
                    # '( x )' around one token is grouped by the chemistry pre-pass (it may be a state such as (s), (g)) before the parse
                    plain = 0
                    skipped["degenerate-fence"] += 1
                    break
            events.append({"toks": toks, "got": got, "wf": 0, "plain": plain, "heur": 0})     # well-formedness of generated rows is decided by the spec
            back.append(("embellished-row" if emb else "element-operand-row" if alpha is ELEMENTS else "row", o["mathml"], seq))
    n_generated = len(events)
    sev, sback = suite_rows(D, wd, tier)
    events += sev
    back += sback
    rejects, _, _ = C.validate_trace("Trace_OpPrec", "Trace_OpPrec.cfg", events, wd, timeout=3000, heap="12g")
    verdict = C.Verdict(PID)
    # the protocol between the parses and the chemistry scan: rows removed => a second parse (Chem.tla)
    chem_m1 = C.tlc_model_check("Chem", "MC_Chem_intended.cfg", wd, workers=2, timeout=300, coverage=False)
    chem_asb = C.run_tlc("Chem", "MC_Chem_asbuilt519.cfg", wd, workers=2, timeout=300, coverage=False)
    if chem_asb["violation"] != "ParsedAtEnd":
        raise C.ToolError(f"the table branch of the pinned commit's chemistry scan is not refuted by TLC ({chem_asb['violation']}, {chem_asb['error']})")
    if len(chem_events) < n_generated // 2:
        raise C.ToolError(f"only {len(chem_events)} chem_scan events for {n_generated} expressions (hook missing?)")
    crej, _, _ = C.validate_trace("Trace_Chem", "Trace_Chem.cfg", chem_events, wd, name="chem", timeout=1800, heap="4g")
    for idx, reason in crej:
        xml = chem_back[idx - 1]
        e = chem_events[idx - 1]
        verdict.reject(f"{reason}|{S.fp(xml)}", f"{reason}: {e['before']} added rows before the scan, {e['after']} after, no second parse: {xml[:300]}",
                       {"script": [{"op": "set_rules_dir", "dir": "$RULES"}, {"op": "set_mathml", "mathml": xml}]},
                       text=json.dumps({"reason": reason, "mathml": xml[:600], "before": e["before"], "after": e["after"]}, ensure_ascii=False))
    for idx, reason in rejects:
        kind, xml, seq = back[idx - 1]
        e = events[idx - 1]
        shown = " ".join(seq) if seq else ""
        text = f"{reason}: {('row ' + shown + ' in ') if seq else 'suite expression '}{xml[:300]} -> {json.dumps(strip(e['got']), ensure_ascii=False)[:300]}"
        verdict.reject(f"{reason}|{S.fp(xml)}", text, {"script": [{"op": "set_rules_dir", "dir": "$RULES"}, {"op": "set_mathml", "mathml": xml}]},
                       text=json.dumps({"reason": reason, "kind": kind, "row": shown, "mathml": xml[:600], "got": strip(e["got"])}, ensure_ascii=False))
    rc = verdict.finish(wd)
    C.write_evidence(PID, tier, "model_checking", {
        "states": m1["distinct"], "transitions": m1["states"],
        "traces_validated_against_impl": len(events),
        "samples": [{"row": " ".join(back[0][2]), "got": strip(events[0]["got"])}],
        "evaluations": len(events), "distinct_nontrivial": len({b[1] for b in back}),
        "rule": "rows = every token sequence up to the bound over the class alphabet of OpPrec.tla (TLC-enumerated, concretised with the real "
                "operators) + seeded random well-formed rows over every operator of operator-info.in that canonicalization leaves as it is, "
                "placed at top level, in a radicand, numerator, exponent, table cell and under-script; plus every maximal row of the canonical "
                "form of the suite expressions (row invariants only); distinct_nontrivial = distinct expressions",
        "exhaustive": False, "enumerated_sequences": len(seqs), "random_rows": n_rand, "generated_rows_judged": n_generated, "suite_rows_judged": len(sev),
        "dictionary_entries": len(D), "operators_drawn_from": len(pool), "rows_outside_the_plain_class": skipped,
        "rows_with_parse_demanded": sum(1 for e in events if e["plain"] == 1 and e["toks"]), "enumerated_sequences_well_formed": sum(1 for st in seqs if st["wf"]),
        "chem_scan_events_judged": len(chem_events), "chem_scan_second_parses": sum(e["reparse"] for e in chem_events),
        "chem_scan_rows_removed": sum(1 for e in chem_events if e["after"] < e["before"]), "chem_model_states": chem_m1["distinct"],
        "chem_asbuilt_pinned_commit_refuted_by": chem_asb["violation"],
        "asbuilt_stacked_prefix_refuted_by": asb["violation"], "asbuilt_pinned_commit_refuted_by": asb2["violation"], "trace_events_rejected": len(rejects),
    }, time.time() - t0, len(verdict.violations),
        ["the reference parse is the operator-precedence parse with the as-built tie rules (different operators of equal priority nest to the right; "
         "n-ary families stay flat); its row invariants are model-checked",
         "vertical bars, function-name guesses, chemistry and mixed fractions are outside the plain class: only adjacency and fences are judged there"])
    return rc


def strip(n):
    if n["t"] == "r":
        return [strip(k) for k in n["kids"]]
    return "".join(chr(c) for c in n["s"]) if n["t"] == "o" else "·"


def selftest(tier):
    wd = C.workdir("c03_self")
    D = dictionary()
    a = {"t": "x"}

    def o(s):
        return {"t": "o", "s": C.cps(s), "chain": D.get(s, [])}
    toks = [{"k": "x"}, tok("+", D), {"k": "x"}, tok("×", D), {"k": "x"}]
    good = {"t": "r", "ad": 1, "kids": [a, o("+"), {"t": "r", "ad": 1, "kids": [a, o("×"), a]}]}
    bad = {"t": "r", "ad": 1, "kids": [{"t": "r", "ad": 1, "kids": [a, o("+"), a]}, o("×"), a]}
    ev = [{"toks": toks, "got": good, "wf": 0, "plain": 1, "heur": 0}, {"toks": toks, "got": bad, "wf": 0, "plain": 1, "heur": 0},
          {"toks": [], "got": bad, "wf": 1, "plain": 0, "heur": 0}, {"toks": [], "got": {"t": "r", "ad": 1, "kids": [a, a]}, "wf": 1, "plain": 0, "heur": 0}]
    rej, _, _ = C.validate_trace("Trace_OpPrec", "Trace_OpPrec.cfg", ev, wd)
    if [(i, r[:12]) for i, r in rej] != [(2, "parse-differ"), (3, "nested-row-b"), (4, "adjacent-ope")]:
        raise C.ToolError(f"selftest: {rej}")
    C.log("[C03] selftest ok")
    return 0


def replay(path):
    rp = json.load(open(path))["replay"]
    wd = C.workdir("c03_replay")
    res = C.run_mcv([{"id": "replay", "ops": rp["script"]}], wd, threads=1)
    C.log(str(res[0]["results"][-1])[:1500])
    return 0
