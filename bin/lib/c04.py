"""C04 - speech voices every operand of the expression.

M2: ExprGen.tla (TLC) enumerates every context P(..Q(..)..) of the textbook grammar (and simulated deeper nestings); the driver
    plants a distinct decimal literal (written with the locale's decimal mark) at every operand position and asks for speech
    under every language x style x verbosity.
M3: Trace_Operands.tla: every literal occurs in the speech at least as often as in the expression (digit boundaries respected)."""
import json
import random
import re
import time

import common as C
import exprgen
import session as S

PID = "C04"
L = {"p": "lit", "kids": []}
# (configuration, tree): the recorded examples of the open findings
def T(p, *k):
    return {"p": p, "kids": list(k)}


PINNED = [(("en", "ClearSpeak", "Medium"), T("sup", L, T("product", L, T("frac", L, T("sup", L, L))))),     # C04-is-repetitive-drops-prefix
          (("en", "ClearSpeak", "Verbose"), T("sup", L, T("sum", L, T("frac", L, T("sqrt", L))))),
          (("es", "SimpleSpeak", "Medium"), T("mixed", L, L, L)),                                          # C04-decimal-comma-mixed-number
          (("vi", "ClearSpeak", "Medium"), T("underbrace", L, L))]                                         # C04-vi-under-over-script-not-spoken


def run(tier):
    t0 = time.time()
    wd = C.workdir("c04")
    rng = random.Random(C.seed())
    # M1: the post-processing pipeline never deletes an operand (Speech.tla); the is_repetitive of the pinned commit is refuted
    m1 = C.tlc_model_check("Speech", "MC_Speech_intended.cfg", wd, workers=12, timeout=900, coverage=False)
    asb = C.run_tlc("Speech", "MC_Speech_asbuilt519.cfg", wd, workers=8, timeout=600, coverage=False)
    if asb["violation"] != "OperandsKept":
        raise C.ToolError(f"the is_repetitive deviation of Speech.tla is not refuted by TLC ({asb['violation']}, {asb['error']})")
    d2, deep, gen = exprgen.trees(wd, tier)
    gen = {"states": gen["states"] + m1["distinct"], "transitions": gen["transitions"] + m1["states"]}
    langs = [l for l in S.languages() if not l.startswith("zz")]
    configs = [(l, st, v) for l in langs for st in ("ClearSpeak", "SimpleSpeak") for v in ("Terse", "Medium", "Verbose")]
    trees = d2 + deep
    if tier == "quick":
        # every tree under 3 seeded configurations; every configuration sees a seeded third of the trees
        per_tree = 3
    else:
        per_tree = len(configs)
    # the decimal mark of each language, as the library derives it
    probe = [{"id": l, "ops": [{"op": "set_rules_dir", "dir": "$RULES"}, {"op": "set_pref", "name": "Language", "value": l},
                               {"op": "get_pref", "name": "DecimalSeparators"}]} for l in langs]
    marks = {}
    for l, r in zip(langs, C.run_mcv(probe, wd, name="marks")):
        v = r["results"][2]["v"] if r["results"][2]["r"] == "ok" else "."
        marks[l] = v[0] if v else "."
    by_cfg = {c: [] for c in configs}
    for ti, t in enumerate(trees):
        # (quick: the depth-3 chains under one seeded configuration each, the rest under three)
        n_cfg = 1 if tier == "quick" and ti >= len(trees) - exprgen.N_CHAIN3[tier] else per_tree
        cs = configs if n_cfg >= len(configs) else random.Random(C.seed() * 101 + ti).sample(configs, n_cfg)
        for c in cs:
            by_cfg[c].append(ti)
    # the recorded example of every open finding is judged in every run (so a finding that stops reproducing is noticed)
    for c, t in PINNED:
        if c in by_cfg:
            trees.append(t)
            by_cfg[c].append(len(trees) - 1)
    scripts = []
    for c, tis in by_cfg.items():
        lang, style, verb = c
        for b in range(0, len(tis), 200):
            chunk = tis[b:b + 200]
            # "unaffected by the optional-word and pause post-processing": each engine has a pause post-processing of its own
            # (merge_pauses_none / _ssml / _sapi5); sessions rotate through them and the engine's tags are taken out before judging
            engine = ["none", "SSML", "SAPI5"][len(scripts) % 3]
            # the four preferences are set in an order that rotates with the session (the preference that moves the decimal mark is the
            # last one set in a quarter of the sessions), and every 40 expressions the session visits a language with the other decimal
            # mark and comes back: the speech of an expression is owed its operands whatever was set when
            header = [{"op": "set_pref", "name": "Language", "value": lang, "setup": True}, {"op": "set_pref", "name": "SpeechStyle", "value": style, "setup": True},
                      {"op": "set_pref", "name": "Verbosity", "value": verb, "setup": True}, {"op": "set_pref", "name": "TTS", "value": engine, "setup": True}]
            rot = len(scripts) % 4
            header = header[4 - rot:] + header[:4 - rot] if rot else header
            ops = [{"op": "set_rules_dir", "dir": "$RULES", "setup": True}] + header + [{"op": "events_on", "setup": True}]
            meta = [None] * 6
            other = next((l_ for l_ in ("en", "sv", "de", "fi") if l_ in marks and marks[l_] != marks[lang]), None)
            for k_, ti in enumerate(chunk):
                if other and k_ % 40 == 20:
                    ops += [{"op": "set_pref", "name": "Language", "value": other}, {"op": "set_pref", "name": "Language", "value": lang}]
                    meta += [None, None]
                xml, lits = exprgen.concretise(trees[ti], marks[lang])
                ops.append({"op": "set_mathml", "mathml": xml})
                meta.append(None)
                ops.append({"op": "speech"})
                meta.append((ti, lits, xml))
                ops.append({"op": "drain"})
                meta.append(None)
            scripts.append({"id": f"{lang}/{style}/{verb}/{b}", "ops": ops, "meta": meta, "cfg": c, "engine": engine, "isolate_on_panic": True})
    results = C.run_mcv([{"id": s["id"], "ops": s["ops"], "isolate_on_panic": True} for s in scripts], wd, timeout_ms=60000)
    events, back = [], []
    for si, (s, r) in enumerate(zip(scripts, results)):
        for oi, (m, rr) in enumerate(zip(s["meta"], r["results"])):
            if m is None:
                continue
            ti, lits, xml = m
            counts = {}
            for v in lits:
                counts[v] = counts.get(v, 0) + 1
            out = rr["v"] if rr["r"] == "ok" else ""
            if s["engine"] != "none":
                out = re.sub(r"<[^>]*>", " ", out)
            events.append({"kind": "speech", "res": rr["r"] if r["results"][oi - 1]["r"] == "ok" else "set_mathml-" + r["results"][oi - 1]["r"],
                           "out": C.cps(out), "lits": [{"runs": [C.cps(v)], "n": n} for v, n in counts.items()], "boundary": 1})
            back.append((si, oi))
    rejects, drifts, _ = C.validate_trace("Trace_Operands", "Trace_Operands.cfg", events, wd, timeout=2400, heap="10g")
    verdict = C.Verdict(PID)
    for idx, reason in rejects:
        si, oi = back[idx - 1]
        s = scripts[si]
        ti, lits, xml = s["meta"][oi]
        rr = results[si]["results"][oi]
        out = rr["v"] if rr["r"] == "ok" else str(rr["v"])
        missing = [v for v in lits if isinstance(out, str) and out.count(v) < lits.count(v)]
        # hook event of speech.rs::is_repetitive: the text in front of a removed optional word is deleted with it (known finding);
        # the finding explains this case only when every missing literal is in such a deleted text
        nxt = results[si]["results"][oi + 1] if oi + 1 < len(results[si]["results"]) else {"r": "skipped"}
        dropped = [e.get("in_front", "") for e in (nxt["v"] if nxt["r"] == "ok" else []) if isinstance(e, dict) and e.get("ev") == "repetitive_drop"]
        by_rep = bool(missing) and rr["r"] == "ok" and all(any(v in d for d in dropped) for v in missing)
        shape = json.dumps(trees[ti], sort_keys=True)
        text = f"{reason}: {s['cfg'][0]}/{s['cfg'][1]}/{s['cfg'][2]}: literals {missing} of {xml[:300]} not in speech {out[:300]!r}"
        verdict.reject(f"{reason}|{s['cfg'][0]}|{s['cfg'][1]}|{s['cfg'][2]}|{S.fp(shape)}", text,
                       {"script": s["ops"][:6] + ([o_ for o_ in s["ops"][6:oi] if o_["op"] == "set_pref"][-2:]) + [{"op": "set_mathml", "mathml": xml}, {"op": "speech"}]},
                       text=json.dumps({"reason": reason, "lang": s["cfg"][0], "style": s["cfg"][1], "verbosity": s["cfg"][2], "lost_by_is_repetitive": by_rep, "tree": trees[ti], "speech": out[:300], "tail": out[-400:] if rr["r"] != "ok" else ""}, ensure_ascii=False))
    # (a literal spoken MORE often than it occurs - ClearSpeak's 'the interval from a to b, not including a or b' - is counted in
    #  the evidence, not reported: the statement's concern is operands that are not voiced)
    rc = verdict.finish(wd)
    C.write_evidence(PID, tier, "model_checking", {
        "states": gen["states"], "transitions": gen["transitions"],
        "traces_validated_against_impl": len(events),
        "samples": [{"cfg": scripts[0]["cfg"], "mathml": scripts[0]["meta"][7][2], "speech": results[0]["results"][7]["v"]}],
        "evaluations": len(events), "distinct_nontrivial": len({(scripts[si]["cfg"], scripts[si]["meta"][oi][0]) for si, oi in back}),
        "rule": "trees = every context P(..Q(..)..) of 31 productions of the textbook grammar (ExprGen.tla, exhaustive to depth 2) plus simulated "
                "depth-4 nestings, a distinct decimal literal at every operand position written with the language's decimal mark; configurations = "
                "language x {ClearSpeak, SimpleSpeak} x {Terse, Medium, Verbose} (all in thorough, 3 seeded per tree in quick); "
                "distinct_nontrivial = distinct (configuration, tree) pairs judged",
        "exhaustive": tier == "thorough", "languages": langs, "configurations": len(configs), "trees": len(trees),
        "operand_repeated_events": len(drifts), "trace_events_rejected": len(rejects),
    }, time.time() - t0, len(verdict.violations),
        ["decimals are planted because integer exponents/indices/denominators are legitimately turned into words",
         "the failing condition is FEWER occurrences than planted; more is MODEL-DRIFT only"])
    return rc


def selftest(tier):
    wd = C.workdir("c04_self")
    ev = [{"kind": "speech", "res": "ok", "out": C.cps("23.2 plus 25.3"), "lits": [{"runs": [C.cps("23.2")], "n": 1}, {"runs": [C.cps("25.3")], "n": 1}], "boundary": 1},
          {"kind": "speech", "res": "ok", "out": C.cps("23.2 plus 125.3"), "lits": [{"runs": [C.cps("23.2")], "n": 1}, {"runs": [C.cps("25.3")], "n": 1}], "boundary": 1}]
    rej, _, _ = C.validate_trace("Trace_Operands", "Trace_Operands.cfg", ev, wd)
    if [i for i, _ in rej] != [2]:
        raise C.ToolError(f"selftest: {rej}")
    C.log("[C04] selftest ok")
    return 0


def replay(path):
    rp = json.load(open(path))["replay"]
    wd = C.workdir("c04_replay")
    res = C.run_mcv([{"id": "replay", "ops": rp["script"]}], wd, threads=1)
    C.log(str(res[0]["results"][-1])[:600])
    return 0
