"""C05 - speech is clean, non-empty text in every language.

M1: Speech.tla (TLC): after the post-processing pipeline no marker token (optional-word marker, concatenation marker, auto-pause
    placeholder) survives, for all child-string triples up to a bound (invariant NoMarkers).
M3: suite expressions x every shipped language x style x verbosity x capital-letter preferences, a sweep over every key of each
    language's Unicode tables (and characters in no table) in mi/mo/mtext hosts, overview text and navigation speech of a short
    walk; every string judged by Trace_Speech.tla."""
import json
import random
import re
import time

import common as C
import mml
import session as S
import tables as T

PID = "C05"
WALK = ["ZoomIn", "MoveNext", "ReadCurrent", "DescribeCurrent", "MoveNext", "ZoomOut", "WhereAmI", "MoveEnd", "MoveLastLocation", "ToggleSpeakMode",
        "MovePrevious", "ReadNext", "MoveStart", "ZoomInAll"]
# the recorded examples of the open findings, judged in every run: (expression, walk)
PINNED = [("<math><mo>(</mo><mn>101011</mn><mo>)</mo></math>", ["ZoomIn", "MoveNext", "MoveNext"]),
          ("<math><mo>[</mo><mtable><mtr><mtd><mn>3</mn></mtd><mtd><mn>1</mn></mtd></mtr><mtr><mtd><mn>0</mn></mtd><mtd><mn>2</mn></mtd></mtr></mtable><mo>]</mo></math>",
           ["ZoomInAll", "MoveNext", "MoveNext"]),
          ("<math><msubsup><mi>V</mi><mi>n</mi><mi>k</mi></msubsup><mo>=</mo><mn>1</mn></math>", ["ZoomIn", "ZoomIn", "ZoomOut", "MoveNext"])]
# walks whose moves land on a node that says nothing (an invisible times, function application) so that the library moves on by
# itself, also straight out of a 2-D structure - in every configuration
NAV_WALKS = [("<math><mfrac><mn>1</mn><mn>2</mn></mfrac><mi>x</mi></math>", ["ZoomIn", "ZoomIn", "MoveNext", "MoveNext", "MoveNext", "MovePrevious", "MovePrevious"]),
             ("<math><mn>2</mn><mi>x</mi><mi>y</mi></math>", ["ZoomIn", "MoveNext", "MoveNext", "MoveNext", "MovePrevious"]),
             ("<math><msqrt><mn>3</mn></msqrt><mi>x</mi><mo>+</mo><mi>sin</mi><mi>y</mi></math>", ["ZoomIn", "ZoomIn", "MoveNext", "MoveNext", "MoveNext", "MoveNext", "MoveNext"]),
             ("<math><msup><mi>x</mi><mn>2</mn></msup><mi>y</mi><mo>=</mo><mi>f</mi><mo>(</mo><mi>t</mi><mo>)</mo></math>",
              ["ZoomIn", "ZoomIn", "MoveNext", "MoveNext", "MoveNext", "MoveNext", "ZoomIn", "MoveNext", "MoveNext"])]
UNITS = ["<math><mn>3</mn><mi intent=':unit'>km</mi><mo>+</mo><mn>2</mn><mi intent=':unit'>ms</mi></math>",
         "<math><mfrac><mrow><mn>62</mn><mi intent=':unit'>mi</mi></mrow><mi intent=':unit'>hr</mi></mfrac><mo>=</mo><mn>5</mn><mi intent=':unit'>kg</mi></math>",
         "<math><mi>f</mi><mo>(</mo><mi>x</mi><mo>)</mo><mo>=</mo><mrow><mo>{</mo><mtable><mtr><mtd><mn>1</mn></mtd><mtd><mtext>if </mtext><mi>x</mi><mo>&gt;</mo><mn>0</mn></mtd></mtr>"
         "<mtr><mtd><mn>0</mn></mtd><mtd><mtext>otherwise</mtext></mtd></mtr></mtable></mrow></math>",
         "<math><mn>1</mn><mi mathvariant='normal' intent=':unit'>μF</mi><mo>=</mo><mn>1000</mn><mi intent=':unit'>nF</mi></math>"]
TOKENS = UNITS + ["<math><mtext>if&#x2064;so</mtext><mo>+</mo><mi>x</mi></math>", "<math><mi>up&#x2062;to</mi><mo>=</mo><mn>3</mn></math>",
          "<math><mtext>a&#x2061;b&#x2063;c</mtext></math>", "<math><mi>&#xE123;</mi><mo>+</mo><mn>1</mn></math>",
          "<math><mn>1&#x2064;2</mn><mo>+</mo><mi>NaCl</mi></math>"]


def configs(rng, tier):
    langs = [l for l in S.languages() if not l.startswith("zz")]
    out = []
    for l in langs:
        for st in S.speech_styles(l):
            for v in ("Terse", "Medium", "Verbose"):
                out.append({"Language": l, "SpeechStyle": st, "Verbosity": v,
                            "SpeechOverrides_CapitalLetters": rng.choice(["", "cap"]), "CapitalLetters_UseWord": rng.choice(["true", "false"])})
    # "no speech engine is selected" has several spellings (get_tts lower-cases the value and takes anything it does not know for
    # none), and the preferences that drive an engine's markup may be set all the same: none of it may show in the text.
    # Walked through, not drawn, so that every spelling meets Bookmark=true in every run.
    # ... and the two engines: the markers and brackets are owed to nobody, whatever the engine (only "no markup" is not asked then)
    spellings = [None, "none", "None", "SSML", "NONE", "Eloquence", "SAPI5"]
    for i, c in enumerate(out):
        if spellings[i % 7] is not None:
            c["TTS"] = spellings[i % 7]
        c["Bookmark"] = "true" if (i // 7) % 2 == 0 else "false"
        c["CapitalLetters_Beep"] = "true" if i % 3 == 0 else "false"
        c["CapitalLetters_Pitch"] = ["0", "20", "-15"][i % 3]
        c["MathRate"] = ["100", "150"][i % 2]
        c["NavVerbosity"] = ["Medium", "Verbose", "Terse"][i % 3]
        c["NavMode"] = ["Enhanced", "Enhanced", "Simple", "Character"][(i // 3) % 4]
        c["PauseFactor"] = ["100", "300", "0"][(i // 2) % 3]
    return out


def edge_in_brackets(tree, node_id):
    """Where the navigation node sits, for telling the recorded findings from anything else: 'bracket-edge' when its parent is a
    ( ) / [ ] mrow and it has exactly one sibling after or before it (the condition of navigate.yaml's auto-zoom-up rules in
    Enhanced mode), plus the tags of its neighbours."""
    def find(t, path):
        if t.get("a", {}).get("id") == node_id:
            return path + [t]
        for k in t.get("kids", []):
            r = find(k, path + [t])
            if r:
                return r
        return None
    path = find(tree, []) if node_id else None
    if not path or len(path) < 2:
        return "elsewhere;next=;prev="
    par = path[-2]
    kids = par.get("kids", [])
    i = [j for j, k in enumerate(kids) if k is path[-1]][0]
    nxt = kids[i + 1]["tag"] if i + 1 < len(kids) else ""
    prv = kids[i - 1]["tag"] if i > 0 else ""
    bracketed = (par["tag"] == "mrow" and len(kids) >= 2 and kids[0]["tag"] == "mo" and kids[-1]["tag"] == "mo"
                 and (kids[0].get("cp"), kids[-1].get("cp")) in (([40], [41]), ([91], [93])))
    edge = bracketed and (i == len(kids) - 2 or i == 1)
    return f"{'bracket-edge' if edge else 'bracket-open' if bracketed and i == 0 else 'elsewhere'};next={nxt};prev={prv}"


def node_visible(tree, node_id):
    def find(t):
        if t.get("a", {}).get("id") == node_id:
            return t
        for k in t.get("kids", []):
            r = find(k)
            if r:
                return r
        return None
    n = find(tree) if node_id else None
    if n is None:
        return 0
    def intents(t):
        return [t.get("a", {}).get("intent", "")] + [x for k in t.get("kids", []) for x in intents(k)]
    if any("silent" in i for i in intents(n)):
        return 0
    return 1 if re.sub(r"[\s\u00a0\u2061-\u2064]", "", mml.visible_text(n)) else 0


def neighbour(tree, node_id, direction):
    def find(t, par):
        if t.get("a", {}).get("id") == node_id:
            return par, t
        for k in t.get("kids", []):
            r = find(k, t)
            if r:
                return r
        return None
    r = find(tree, None) if node_id else None
    if not r or r[0] is None:
        return None
    kids = r[0]["kids"]
    i = [j for j, k in enumerate(kids) if k is r[1]][0] + (1 if direction == "Next" else -1)
    return kids[i].get("a", {}).get("id") if 0 <= i < len(kids) else None


def since_set(ops, oi):
    """the operations from the set_mathml that precedes ops[oi] up to ops[oi] (getters other than the judged one are left out)."""
    a = max(i for i in range(oi + 1) if ops[i]["op"] == "set_mathml")
    return [o for i, o in enumerate(ops[a:oi + 1], a) if o["op"] in ("set_mathml", "nav_cmd", "nav_id") or i == oi]


def run(tier):
    t0 = time.time()
    wd = C.workdir("c05")
    rng = random.Random(C.seed())
    m1 = C.tlc_model_check("Speech", "MC_Speech_intended.cfg", wd, workers=12, timeout=900, coverage=False)
    corpus = [c["mathml"] for c in mml.corpus() if len(c["mathml"]) < 3000]
    cfgs = configs(rng, tier)
    n_expr, n_chars = (60, 120) if tier == "quick" else (min(len(corpus), 2200), 100000)
    scripts = []
    for ci, cfg in enumerate(cfgs):
        exprs = rng.sample(corpus, n_expr) + TOKENS + [pe for pe, _ in PINNED + NAV_WALKS]
        cases = [(e, "suite") for e in exprs]
        if tier == "thorough" and cfg["Verbosity"] != "Medium":
            pass
        else:
            keys = sorted(T.speech_defined(cfg["Language"]))
            random.Random(C.seed() + ci).shuffle(keys)
            undefined = [c for c in [0x0E01, 0x1F600, 0x0301, 0x10300, 0x2E80, 0x0600, 0x1D7CB, 0x2FE0] if c not in T.speech_defined(cfg["Language"])]
            if tier == "thorough" and cfg["SpeechStyle"] != "ClearSpeak":
                keys = keys[:300]
            for cp in keys[:n_chars] + undefined:
                if cp in (0x3C, 0x26) or cp < 0x20:
                    continue
                h = rng.choice(["mi", "mo", "mtext"])
                cases.append((f"<math><{h}>&#x{cp:X};</{h}><mo>=</mo><mi>x</mi></math>", "sweep"))
        for b in range(0, len(cases), 250):
            ops = [{"op": "set_rules_dir", "dir": "$RULES", "setup": True}] + [{"op": "set_pref", "name": k, "value": v, "setup": True} for k, v in cfg.items()]
            meta = [None] * len(ops)
            for e, origin in cases[b:b + 250]:
                ops.append({"op": "set_mathml", "mathml": e})
                meta.append(("set", e, origin))
                ops.append({"op": "speech"})
                meta.append(("get", "speech"))
                if origin == "suite":
                    ops.append({"op": "overview"})
                    meta.append(("get", "overview"))
                    walk = [w for pe, w in PINNED + NAV_WALKS if pe == e]
                    if walk or rng.random() < (0.15 if tier == "quick" else 0.5):
                        ops.append({"op": "nav_id"})
                        meta.append(("pos",))
                        for cmd in (walk[0] if walk else rng.sample(WALK, 4)):
                            ops.append({"op": "nav_cmd", "cmd": cmd})
                            meta.append(("get", "nav:" + cmd))
                            ops.append({"op": "nav_id"})
                            meta.append(("pos",))
            scripts.append({"id": f"{cfg['Language']}/{cfg['SpeechStyle']}/{cfg['Verbosity']}/{b}", "ops": ops, "meta": meta, "cfg": cfg, "isolate_on_panic": True})
    results = C.run_mcv([{"id": s["id"], "ops": s["ops"], "isolate_on_panic": True} for s in scripts], wd, timeout_ms=60000)
    events, back = [], []
    for si, (s, r) in enumerate(zip(scripts, results)):
        cur = None
        for oi, (m, rr) in enumerate(zip(s["meta"], r["results"])):
            if m is None:
                continue
            if m[0] == "set":
                cur = None
                if rr["r"] == "ok":
                    t = mml.parse(rr["v"], expand=False)
                    if t is not None:
                        text = mml.visible_text(t)
                        cur = {"inp": sorted({ord(c) for c in text}), "visible": 1 if re.sub(r"[\s ⁡-⁤]", "", text) else 0, "expr": m[1], "origin": m[2],
                               "tree": t, "pos": None}
                continue
            if m[0] == "pos":
                if cur is not None:
                    cur["pos"] = rr["v"][0] if rr["r"] == "ok" else None
                continue
            if cur is None:
                continue
            getter = m[1]
            # a navigation command that is meaningless here may answer Err: that is C08/C11's business; its speech, when given, is judged
            if getter.startswith("nav:") and rr["r"] != "ok":
                continue
            where = ""
            visible = cur["visible"]
            if getter.startswith("nav:"):
                nxt = r["results"][oi + 1]
                after = nxt["v"][0] if nxt["r"] == "ok" else None
                # navigation speech is about the node the command lands on: an empty script (<none/>) or a leaf the author marked
                # ':silent' has nothing to say
                visible = node_visible(cur["tree"], after)
                m_rd = re.match(r"nav:(Read|Describe)(Next|Previous)$", getter)
                if m_rd:        # these speak the neighbour without moving to it
                    visible = node_visible(cur["tree"], neighbour(cur["tree"], cur["pos"], m_rd.group(2)))
                where = f"{'stayed' if after == cur['pos'] else 'moved'};{edge_in_brackets(cur['tree'], cur['pos'])}"
                if after == cur["pos"] and s["cfg"].get("NavVerbosity") == "Terse" and rr["v"] == "":
                    continue        # a command that cannot move says so only from NavVerbosity Medium on
            events.append({"getter": getter, "res": rr["r"], "visible": visible, "out": C.cps(rr["v"]) if rr["r"] == "ok" else [], "inp": cur["inp"],
                           "engine": 1 if s["cfg"].get("TTS") in ("SSML", "SAPI5") else 0})
            back.append((si, oi, cur["expr"], cur["origin"], where))
    rejects, _, _ = C.validate_trace("Trace_Speech", "Trace_Speech.cfg", events, wd, timeout=3000, heap="12g")
    verdict = C.Verdict(PID)
    for idx, reason in rejects:
        si, oi, expr, origin, where = back[idx - 1]
        s = scripts[si]
        rr = results[si]["results"][oi]
        e = events[idx - 1]
        out = rr["v"] if rr["r"] == "ok" else str(rr["v"])
        cfg = s["cfg"]
        text = f"{reason}: {e['getter']} {cfg['Language']}/{cfg['SpeechStyle']}/{cfg['Verbosity']} cap={cfg['SpeechOverrides_CapitalLetters']!r}: {expr[:240]} -> {out[:200]!r}"
        verdict.reject(f"{reason}|{e['getter'].split(':')[0]}|{cfg['Language']}|{cfg['SpeechStyle']}|{S.fp(expr)}", text,
                       {"script": s["ops"][:len(cfg) + 1] + since_set(s["ops"], oi)},
                       text=json.dumps({"reason": reason, "getter": e["getter"], "lang": cfg["Language"], "style": cfg["SpeechStyle"], "verbosity": cfg["Verbosity"], "origin": origin, "nav": where,
                                        "expr": expr[:500], "speech": out[:300], "tail": out[-500:] if rr["r"] != "ok" else ""}, ensure_ascii=False))
    rc = verdict.finish(wd)
    C.write_evidence(PID, tier, "model_checking", {
        "states": m1["distinct"], "transitions": m1["states"],
        "traces_validated_against_impl": len(events),
        "samples": [{"cfg": scripts[0]["cfg"], "expr": back[0][2][:200], "speech": results[back[0][0]]["results"][back[0][1]]["v"]}],
        "evaluations": len(events), "distinct_nontrivial": len({(scripts[si]["cfg"]["Language"], scripts[si]["cfg"]["SpeechStyle"], scripts[si]["cfg"]["Verbosity"], S.fp(expr)) for si, _, expr, _, _ in back}),
        "rule": "per (language, style, verbosity) with seeded capital-letter preferences: suite expressions (speech, overview, navigation speech of "
                "a short walk), token strings with embedded invisible operators and private-use characters, and a sweep over the keys of the "
                "language's Unicode tables plus characters in no table in mi/mo/mtext hosts; distinct_nontrivial = distinct (configuration, expression)",
        "exhaustive": False, "configurations": len(cfgs), "events_by_getter": {g: sum(1 for e in events if e["getter"].split(":")[0] == g) for g in ("speech", "overview", "nav")},
        "trace_events_rejected": len(rejects),
    }, time.time() - t0, len(verdict.violations),
        ["a private-use character or an angle bracket that occurs in the expression's own text may be passed through",
         "navigation commands that answer Err are not judged here (C08/C11)"])
    return rc


def selftest(tier):
    wd = C.workdir("c05_self")
    base = {"getter": "speech", "res": "ok", "visible": 1, "out": C.cps("x plus 1"), "inp": C.cps("x+1")}
    ev = [base, dict(base, out=C.cps("x  plus 1")), dict(base, out=C.cps(" , ")), dict(base, out=C.cps("[[x]] plus 1")), dict(base, out=C.cps("x⁤y"))]
    rej, _, _ = C.validate_trace("Trace_Speech", "Trace_Speech.cfg", ev, wd)
    if [i for i, _ in rej] != [2, 3, 4, 5]:
        raise C.ToolError(f"selftest: {rej}")
    C.log("[C05] selftest ok")
    return 0


def replay(path):
    rp = json.load(open(path))["replay"]
    wd = C.workdir("c05_replay")
    res = C.run_mcv([{"id": "replay", "ops": rp["script"]}], wd, threads=1)
    C.log(str(res[0]["results"][-1])[:800])
    return 0
