"""C06 - braille renders every operand of the expression.

M2: the same TLC-enumerated textbook-grammar contexts as C04 (ExprGen.tla), a distinct decimal literal at every operand
    position, brailled under every code x code-specific preferences.
M3: Trace_Operands.tla: the contiguous run of cells of each literal (calibrated per configuration by brailling the bare literal;
    the numeric indicator is not part of the run) occurs at least as often as the literal occurs in the expression; for the
    text codes the literal occurs verbatim.  The raw -> cleaned strings of every clean-up (braille_cleanup hook) are judged too:
    clean-up may not lose a digit of a number run."""
import json
import random
import time

import common as C
import exprgen
import session as S

PID = "C06"
LANG = {"CMU": "es", "Vietnam": "vi", "Swedish": "sv", "ASCIIMath-fi": "fi"}
PREFS = {"UEB": [{"UEB_START_MODE": "Grade2"}, {"UEB_START_MODE": "Grade1"}, {"UEB_UseSpacesAroundAllOperators": "true"}],
         "LaTeX": [{"LaTeX_UseShortName": "false"}, {"LaTeX_UseShortName": "true"}],
         "Vietnam": [{"Vietnam_UseDropNumbers": "false"}, {"Vietnam_UseDropNumbers": "true"}],
         "Nemeth": [{}], "CMU": [{}], "Swedish": [{}], "ASCIIMath": [{}], "ASCIIMath-fi": [{}]}
NUMSIGN = "⠼"
UPPER, LOWER = "⠁⠃⠉⠙⠑⠋⠛⠓⠊⠚", "⠂⠆⠒⠲⠢⠖⠶⠦⠔⠴"


def variants(run):
    """The renderings of a literal's cells: as calibrated, and with upper digits lowered (simple fractions, drop numbers)."""
    low = run.translate(str.maketrans(UPPER, LOWER))
    return [C.cps(run)] + ([C.cps(low)] if low != run else [])



WARM_UP = ("<math><mn>1234567890.5</mn><mo>+</mo><mn>3,4</mn><mo>−</mo><mi>x</mi><mo>=</mo><mi>y</mi><mo>×</mo><mo>(</mo><mi>a</mi><mo>/</mo><mi>B</mi><mo>)</mo>"
           "<mo>&lt;</mo><msup><mi>z</mi><mn>2</mn></msup><mo>,</mo><mtext>if q</mtext><mo>|</mo><mi>α</mi><mo>|</mo><mo>!</mo><mo>:</mo><mo>;</mo><mo>%</mo><mo>[</mo><mo>]</mo></math>")


def run(tier):
    t0 = time.time()
    wd = C.workdir("c06")
    d2, deep, gen = exprgen.trees(wd, tier)
    trees = d2 + deep
    codes = [c for c in S.braille_codes() if c in PREFS]
    configs = [(c, json.dumps(p, sort_keys=True)) for c in codes for p in PREFS[c]]
    # decimal mark per language
    langs = sorted({LANG.get(c, "en") for c in codes})
    probe = [{"id": l, "ops": [{"op": "set_rules_dir", "dir": "$RULES"}, {"op": "set_pref", "name": "Language", "value": l},
                               {"op": "get_pref", "name": "DecimalSeparators"}]} for l in langs]
    marks = {}
    for l, r in zip(langs, C.run_mcv(probe, wd, name="marks")):
        v = r["results"][2]["v"] if r["results"][2]["r"] == "ok" else "."
        marks[l] = v[0] if v else "."
    per_tree = len(configs) if tier == "thorough" else 3
    by_cfg = {c: [] for c in configs}
    for ti, t in enumerate(trees):
        # (quick: the depth-3 chains under one seeded configuration each, the rest under three)
        n_cfg = 1 if tier == "quick" and ti >= len(trees) - exprgen.N_CHAIN3[tier] else per_tree
        cs = configs if n_cfg >= len(configs) else random.Random(C.seed() * 77 + ti).sample(configs, n_cfg)
        for c in cs:
            by_cfg[c].append(ti)
    scripts = []
    max_lits = 12
    for c, tis in by_cfg.items():
        code, pj = c
        lang = LANG.get(code, "en")
        for b in range(0, len(tis), 200):
            chunk = tis[b:b + 200]
            ops = [{"op": "set_rules_dir", "dir": "$RULES", "setup": True}, {"op": "set_pref", "name": "Language", "value": lang, "setup": True}]
            # every other session brailles digits, letters, marks and operators under ANOTHER code first (rotating through the
            # codes): what the session remembers about a character under that code must not show under this one
            n_sessions_so_far = len(scripts)
            others = [c2 for c2 in S.braille_codes() if c2 != code]
            if n_sessions_so_far % 2 == 1 and others:
                ops += [{"op": "set_pref", "name": "BrailleCode", "value": others[(n_sessions_so_far // 2) % len(others)], "setup": True},
                        {"op": "set_mathml", "mathml": WARM_UP, "setup": True}, {"op": "braille", "id": "", "setup": True}]
            ops += [{"op": "set_pref", "name": "BrailleCode", "value": code, "setup": True}, {"op": "set_pref", "name": "BrailleNavHighlight", "value": "Off", "setup": True}]
            for k, v in json.loads(pj).items():
                ops.append({"op": "set_pref", "name": k, "value": v, "setup": True})
            meta = [None] * len(ops)
            # calibration: the cells of each bare literal under this configuration
            for v in exprgen.int_literals(max_lits):
                ops.append({"op": "set_mathml", "mathml": f"<math><mn>{v}</mn></math>", "setup": True})
                meta.append(None)
                ops.append({"op": "braille", "id": "", "setup": True})
                meta.append(("cal", v))
            ops.append({"op": "events_on", "setup": True})
            meta.append(None)
            for ti in chunk:
                xml, lits = exprgen.concretise(trees[ti], marks[lang], integers=True)
                if len(lits) > max_lits:
                    continue
                ops.append({"op": "set_mathml", "mathml": xml})
                meta.append(None)
                ops.append({"op": "braille", "id": ""})
                meta.append(("expr", ti, lits, xml))
                ops.append({"op": "drain"})
                meta.append(("drain",))
            scripts.append({"id": f"{code}/{pj}/{b}", "ops": ops, "meta": meta, "cfg": c, "isolate_on_panic": True})
    results = C.run_mcv([{"id": s["id"], "ops": s["ops"], "isolate_on_panic": True} for s in scripts], wd, timeout_ms=60000)
    events, back = [], []
    cal_fail = 0
    for si, (s, r) in enumerate(zip(scripts, results)):
        runs = {}
        for oi, (m, rr) in enumerate(zip(s["meta"], r["results"])):
            if m is None or m[0] == "drain":
                continue
            if m[0] == "cal":
                if rr["r"] == "ok" and rr["v"]:
                    run_ = rr["v"]
                    # strip what surrounds the number when it stands alone: leading numeric indicator, start/end wrappers of text codes
                    run_ = run_.lstrip(NUMSIGN)
                    if s["cfg"][0] in ("LaTeX", "ASCIIMath", "ASCIIMath-fi"):
                        run_ = m[1] if m[1] in rr["v"] else run_.strip("$ ")
                    runs[m[1]] = run_
                else:
                    cal_fail += 1
                continue
            _, ti, lits, xml = m
            counts = {}
            for v in lits:
                counts[v] = counts.get(v, 0) + 1
            if any(v not in runs for v in counts):
                continue
            out = rr["v"] if rr["r"] == "ok" else ""
            res = rr["r"] if r["results"][oi - 1]["r"] == "ok" else "set_mathml-" + r["results"][oi - 1]["r"]
            events.append({"kind": "braille", "res": res, "out": C.cps(out), "lits": [{"runs": variants(runs[v]), "n": n} for v, n in counts.items()], "boundary": 0})
            back.append((si, oi, "final"))
            # the clean-up step in isolation: every digit-cell run of the raw string that belongs to a literal must survive cleaning
            dr = r["results"][oi + 1]
            if dr["r"] == "ok":
                for ev in dr["v"]:
                    if ev.get("ev") == "braille_cleanup":
                        events.append({"kind": "cleanup", "res": res if rr["r"] == "ok" else "ok", "out": C.cps(ev["cleaned"]),
                                       "lits": [{"runs": variants(runs[v]), "n": n} for v, n in counts.items()] if rr["r"] == "ok" else [], "boundary": 0})
                        back.append((si, oi, "cleanup"))
    rejects, drifts, _ = C.validate_trace("Trace_Operands", "Trace_Operands.cfg", events, wd, timeout=2400, heap="10g")
    verdict = C.Verdict(PID)
    for idx, reason in rejects:
        si, oi, stage = back[idx - 1]
        s = scripts[si]
        _, ti, lits, xml = s["meta"][oi]
        rr = results[si]["results"][oi]
        out = rr["v"] if rr["r"] == "ok" else str(rr["v"])
        text = f"{reason} ({stage}): {s['cfg'][0]} {s['cfg'][1]}: {xml[:300]} -> {out[:200]!r}"
        verdict.reject(f"{reason}|{s['cfg'][0]}|{s['cfg'][1]}|{S.fp(json.dumps(trees[ti], sort_keys=True))}", text,
                       {"script": [o for o in s["ops"] if o.get("setup") and o["op"] == "set_pref" or o["op"] == "set_rules_dir"] + [{"op": "set_mathml", "mathml": xml}, {"op": "braille", "id": ""}]},
                       text=json.dumps({"reason": reason, "code": s["cfg"][0], "prefs": s["cfg"][1], "tree": trees[ti], "braille": out[:300], "tail": out[-300:] if rr["r"] != "ok" else ""}, ensure_ascii=False))
    rc = verdict.finish(wd)
    C.write_evidence(PID, tier, "model_checking", {
        "states": gen["states"], "transitions": gen["transitions"],
        "traces_validated_against_impl": len(events),
        "samples": [{"cfg": scripts[0]["cfg"], "mathml": [m for m in scripts[0]["meta"] if m and m[0] == "expr"][0][3]}],
        "evaluations": len(events), "distinct_nontrivial": len({(scripts[si]["cfg"], scripts[si]["meta"][oi][1]) for si, oi, st in back if st == "final"}),
        "rule": "trees as in C04 (ExprGen.tla contexts to depth 2, exhaustive, plus simulated depth-4); configurations = braille code x "
                "code-specific preferences (UEB start mode/spacing, LaTeX short names, Vietnam drop numbers); the run of a literal is calibrated by "
                "brailling the bare literal under the same configuration (numeric indicator stripped); events = final braille and every "
                "clean-up result from the braille_cleanup hook; distinct_nontrivial = distinct (configuration, tree) pairs",
        "exhaustive": tier == "thorough", "configurations": [list(c) for c in configs], "trees": len(trees), "calibration_failures": cal_fail,
        "trace_events_rejected": len(rejects), "operand_repeated_events": len(drifts),
    }, time.time() - t0, len(verdict.violations),
        ["the cells of a literal are taken from the library's own braille of the bare literal (so the check is about losing or splitting "
         "operands in context, not about the digit table)", "the failing condition is FEWER runs than occurrences"])
    return rc


def selftest(tier):
    import c04
    return c04.selftest(tier)


def replay(path):
    rp = json.load(open(path))["replay"]
    wd = C.workdir("c06_replay")
    res = C.run_mcv([{"id": "replay", "ops": rp["script"]}], wd, threads=1)
    C.log(str(res[0]["results"][-1])[:600])
    return 0
