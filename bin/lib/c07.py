"""C07 - braille output uses only the target alphabet.

M1: Braille.tla (TLC): the indicator replacement step: the character class of REPLACE_INDICATORS vs the replacement table of each
    code (both harvested from braille.rs): every character the class matches has a replacement that is a cell (or nothing), i.e.
    no indicator letter can survive and nothing outside the class is an indicator.
M3: suite expressions, a character sweep over the keys of each code's Unicode tables (and characters in no table) in mi/mo/mn/mtext
    hosts with typeface variants, under every code and highlight style with id "", each node id is C20's; judged by
    Trace_Braille.tla."""
import json
import os
import random
import re
import time

import common as C
import mml
import session as S
import tables as T

PID = "C07"
CELL_CODES = ["Nemeth", "UEB", "CMU", "Vietnam"]
TEXT_CODES = ["LaTeX", "ASCIIMath"]
LANG = {"CMU": "es", "Vietnam": "vi"}
STYLES = ["FirstChar", "EndPoints", "All"]
QUOTED = ['<math><mtext>"max"</mtext><mo>=</mo><mi>x</mi><mo>+</mo><mn>12</mn></math>', "<math><mi>f</mi><mo>'</mo><mo>(</mo><mi>b</mi><mo>)</mo><mo>=</mo><msup><mi>b</mi><mn>2</mn></msup></math>",
          "<math><mtext>'a' and \"b\"</mtext></math>", "<math><msup><mi>b</mi><mn>2</mn></msup><mo>-</mo><mn>4</mn><mi>a</mi><mi>c</mi></math>"]
# numbers written with letters (hexadecimal, bases up to 36, Roman-like): the codes have rules that look at the letters of an mn /
# mtext one by one and re-code them (CMU's hex-number rule maps a-f into the private-use area before brailling)
HEXLIKE = [f"<math><{h}>{t.replace('L', l)}</{h}><mo>+</mo><mn>1</mn></math>" for h in ("mn", "mtext") for l in "abcdefABCDEFgZ"
           for t in ("2L", "2LL", "12L", "2L3", "L2", "0xL", "2L.5")]
# digits under an accent (a repeating decimal) with a typeface: the digit's number indicator meets the typeface indicator
ACCENTED = [f"<math><mn>0</mn><mo>.</mo><mover><mn{v}>{d}</mn><mo>{a}</mo></mover><mo>+</mo><mover><mi{v}>x</mi><mo>{a}</mo></mover></math>"
            for v in ("", " mathvariant='bold'", " mathvariant='italic'", " mathvariant='sans-serif'") for d in ("3", "12") for a in ("^", "¯", "˙")]
ACCENTED += [f"<math><mn>0</mn><mo>&#x2062;</mo><mover><mn{v}>{d}</mn><mo>{a}</mo></mover></math>"
             for v in ("", " mathvariant='bold'", " mathvariant='italic'") for d in ("3", "12") for a in ("^", "¯", "˙", "&#x2322;")]
VARIANTS = ["", "bold", "italic", "script", "fraktur", "double-struck", "sans-serif", "bold-italic", "monospace"]


def harvest_indicator_tables():
    """(code, regex class as set of code points, replacement-table keys) from braille.rs; [] when the source layout changed."""
    src = open(os.path.join(C.REPO, "src", "braille.rs"), encoding="utf-8").read()
    out = []
    for m in re.finditer(r"static ref REPLACE_INDICATORS: Regex\s*=\s*Regex::new\(r\"\(\[(.*?)\]\)\"\)", src):
        cls = m.group(1)
        # which function is it in?
        fn = re.findall(r"fn (\w+)\(", src[:m.start()])[-1]
        cps, i = set(), 0
        chars = list(cls)
        while i < len(chars):
            if i + 2 < len(chars) and chars[i + 1] == "-" :
                cps.update(range(ord(chars[i]), ord(chars[i + 2]) + 1))
                i += 3
            else:
                cps.add(ord(chars[i]))
                i += 1
        out.append((fn, sorted(cps), cls))
    return out


def sweep_chars(code, rng, n):
    keys = sorted(T.braille_defined(code))
    rng.shuffle(keys)
    undefined = [c for c in [0x2127, 0x2132, 0x2144, 0x212A, 0x0E01, 0x4E2D, 0x1F600, 0x0301, 0x1EA0, 0xE123, 0x10300, 0x2E80, 0x0600] if c not in T.braille_defined(code)]
    return keys[:n] + undefined


def run(tier):
    t0 = time.time()
    wd = C.workdir("c07")
    rng = random.Random(C.seed())
    import braille_model
    m1 = braille_model.check(wd)
    corpus = [c["mathml"] for c in mml.corpus() if len(c["mathml"]) < 3000]
    n_expr, n_chars = (220, 160) if tier == "quick" else (len(corpus), 100000)
    exprs = rng.sample(corpus, min(n_expr, len(corpus)))
    scripts = []
    for code in CELL_CODES + TEXT_CODES:
        cases = [(e, "suite") for e in exprs + QUOTED] + [(e, "letters-in-numbers") for e in HEXLIKE] + [(e, "accented-digits") for e in ACCENTED]
        for cp in sweep_chars(code, random.Random(C.seed() + len(code)), n_chars):
            ch = f"&#x{cp:X};"
            host = rng.choice(["mi", "mo", "mtext", "mn"]) if tier == "quick" else None
            for h in ([host] if host else ["mi", "mo", "mtext"]):
                v = rng.choice(VARIANTS)
                attr = f" mathvariant='{v}'" if v and h != "mo" else ""
                cases.append((f"<math><{h}{attr}>{ch}</{h}><mo>=</mo><mi>x</mi></math>", "sweep"))
        for b in range(0, len(cases), 150):
            ops = [{"op": "set_rules_dir", "dir": "$RULES", "setup": True}, {"op": "set_pref", "name": "Language", "value": LANG.get(code, "en"), "setup": True},
                   {"op": "set_pref", "name": "BrailleCode", "value": code, "setup": True}]
            meta = [None] * 3
            for e, origin in cases[b:b + 150]:
                ops.append({"op": "set_pref", "name": "BrailleNavHighlight", "value": "Off"})
                meta.append(None)
                ops.append({"op": "set_mathml", "mathml": e})
                meta.append(("set", e, origin))
                ops.append({"op": "braille", "id": ""})
                meta.append(("off",))
                st = rng.choice(STYLES)
                ops.append({"op": "set_pref", "name": "BrailleNavHighlight", "value": st})
                meta.append(None)
                ops.append({"op": "braille", "id": ""})
                meta.append(("hl",))
                ops.append({"op": "braille", "id": "no-such-id"})
                meta.append(("hl",))
                for k in rng.sample(range(12), 3 if origin == "suite" else 1):
                    ops.append({"op": "braille", "id": "${ID:%d}" % k})
                    meta.append(("hlid",))
            scripts.append({"id": f"{code}:{b}", "ops": ops, "meta": meta, "code": code, "isolate_on_panic": True})
    # the code is switched inside a session: a character that code A defines nowhere (it passes through by design) is brailled under
    # A, then under B, which defines it - whatever the session remembers about the character under A must not show under B
    n_sw = 12 if tier == "quick" else 150
    for code in CELL_CODES + TEXT_CODES:
        ops = [{"op": "set_rules_dir", "dir": "$RULES", "setup": True}, {"op": "set_pref", "name": "Language", "value": LANG.get(code, "en"), "setup": True}]
        meta = [None] * 2
        for other in CELL_CODES + TEXT_CODES:
            if other == code:
                continue
            only_here = sorted(T.braille_defined(code) - T.braille_defined(other) - set(range(0x80)))
            r2 = random.Random(f"{C.seed()}|{other}|{code}")
            for cp in r2.sample(only_here, min(n_sw, len(only_here))):
                e = f"<math><mi>x</mi><mo>=</mo><mtext>&#x{cp:X};</mtext></math>"
                ops += [{"op": "set_pref", "name": "BrailleCode", "value": other}, {"op": "set_mathml", "mathml": e}, {"op": "braille", "id": ""},
                        {"op": "set_pref", "name": "BrailleCode", "value": code}, {"op": "set_pref", "name": "BrailleNavHighlight", "value": "Off"},
                        {"op": "set_mathml", "mathml": e}, {"op": "braille", "id": ""}, {"op": "braille", "id": ""}, {"op": "braille", "id": "no-such-id"}]
                meta += [None, None, None, None, None, ("set", e, f"after-{other}"), ("off",), ("hl",), ("hl",)]
        scripts.append({"id": f"{code}:switch", "ops": ops, "meta": meta, "code": code, "isolate_on_panic": True})
    results = C.run_mcv([{"id": s["id"], "ops": s["ops"], "isolate_on_panic": True} for s in scripts], wd, timeout_ms=60000)
    events, back = [], []
    for si, (s, r) in enumerate(zip(scripts, results)):
        code = s["code"]
        defined = T.braille_defined(code)
        allowed8 = sorted(T.eight_dot_cells(code))
        cur = None
        for oi, (m, rr) in enumerate(zip(s["meta"], r["results"])):
            if m is None:
                continue
            if m[0] == "set":
                cur = None
                if rr["r"] == "ok":
                    t = mml.parse(rr["v"], expand=False)
                    if t is not None:
                        text = mml.visible_text(t)
                        vis = 1 if re.sub(r"[\s ⁡-⁤]", "", text) else 0
                        cur = {"undef": sorted({ord(c) for c in text if ord(c) not in defined}), "visible": vis, "expr": m[1], "origin": m[2], "hl": []}
                continue
            if cur is None:
                continue
            if m[0] == "off":
                cur["off"] = (oi, rr)
                cur["hl"] = []
            elif m[0] == "hlid":
                if "off" in cur and cur["off"][1]["r"] == "ok":
                    events.append({"kind": "cellhl" if code in CELL_CODES else "texthl", "res": rr["r"], "visible": cur["visible"],
                                   "out": C.cps(rr["v"]) if rr["r"] == "ok" else [], "undef": cur["undef"], "hlSame": 1, "allowed8": allowed8,
                                   "off": C.cps(cur["off"][1]["v"])})
                    back.append((si, oi, cur["expr"], cur["origin"]))
            else:
                cur["hl"].append(rr)
                if len(cur["hl"]) == 2 and "off" in cur:
                    ooi, orr = cur["off"]
                    same = 1 if all(h["r"] == orr["r"] and (h["r"] != "ok" or h["v"] == orr["v"]) for h in cur["hl"]) else 0
                    events.append({"kind": "cell" if code in CELL_CODES else "text", "res": orr["r"], "visible": cur["visible"],
                                   "out": C.cps(orr["v"]) if orr["r"] == "ok" else [], "undef": cur["undef"], "hlSame": same, "allowed8": allowed8, "off": []})
                    back.append((si, ooi, cur["expr"], cur["origin"]))
    rejects, _, _ = C.validate_trace("Trace_Braille", "Trace_Braille.cfg", events, wd, timeout=2400, heap="10g")
    verdict = C.Verdict(PID)
    for idx, reason in rejects:
        si, oi, expr, origin = back[idx - 1]
        s = scripts[si]
        rr = results[si]["results"][oi]
        e = events[idx - 1]
        out = rr["v"] if rr["r"] == "ok" else str(rr["v"])
        bad = sorted({c for c in out if not (0x2800 <= ord(c) <= 0x28FF)}) if rr["r"] == "ok" and s["code"] in CELL_CODES else []
        text = f"{reason}: {s['code']}: {expr[:260]} -> {out[:160]!r}" + (f" (non-cells {bad[:12]})" if bad else "")
        verdict.reject(f"{reason}|{s['code']}|{S.fp(expr)}", text,
                       {"script": s["ops"][:3] + [{"op": "set_pref", "name": "BrailleNavHighlight", "value": "Off"}, {"op": "set_mathml", "mathml": expr}, {"op": "braille", "id": ""}]},
                       text=json.dumps({"reason": reason, "code": s["code"], "origin": origin, "expr": expr[:600], "braille": out[:300], "nonCells": "".join(bad), "tail": out[-300:] if rr["r"] != "ok" else ""}, ensure_ascii=False))
    rc = verdict.finish(wd)
    C.write_evidence(PID, tier, "model_checking", {
        "states": m1["states"], "transitions": m1["transitions"],
        "traces_validated_against_impl": len(events),
        "samples": [{"code": scripts[0]["code"], "expr": back[0][2][:200], "braille": results[back[0][0]]["results"][back[0][1]]["v"]}],
        "evaluations": len(events), "distinct_nontrivial": len({(scripts[si]["code"], S.fp(expr)) for si, _, expr, _ in back}),
        "rule": "per code (Nemeth, UEB, CMU, Vietnam; LaTeX, ASCIIMath): suite expressions and a sweep over the keys of the code's Unicode "
                "tables (plus characters in no table) in mi/mo/mn/mtext hosts with typeface variants; each brailled with highlighting Off, and "
                "under a seeded highlight style with id '' and an unknown id; distinct_nontrivial = distinct (code, expression)",
        "exhaustive": False, "indicator_tables": m1["tables"], "events_by_code": {c: sum(1 for si, _, _, _ in back if scripts[si]["code"] == c) for c in CELL_CODES + TEXT_CODES},
        "trace_events_rejected": len(rejects),
    }, time.time() - t0, len(verdict.violations),
        ["characters of the canonical MathML for which the code's Unicode files define nothing are outside the guarantee (harvested key sets)",
         "8-dot cells that literally occur in the code's rule files are not highlights (Nemeth table row separator)"])
    return rc


def selftest(tier):
    wd = C.workdir("c07_self")
    base = {"kind": "cell", "res": "ok", "visible": 1, "out": C.cps("⠭⠬⠂"), "undef": [], "hlSame": 1, "allowed8": [], "off": []}
    ev = [base, dict(base, out=C.cps("⠭L⠂")), dict(base, out=C.cps("⠭⣀")), dict(base, hlSame=0), dict(base, out=C.cps("⠭℧"), undef=[0x2127])]
    rej, _, _ = C.validate_trace("Trace_Braille", "Trace_Braille.cfg", ev, wd)
    if [i for i, _ in rej] != [2, 3, 4]:
        raise C.ToolError(f"selftest: {rej}")
    C.log("[C07] selftest ok")
    return 0


def replay(path):
    rp = json.load(open(path))["replay"]
    wd = C.workdir("c07_replay")
    res = C.run_mcv([{"id": "replay", "ops": rp["script"]}], wd, threads=1)
    C.log(str(res[0]["results"][-1])[:600])
    return 0
