"""C08 - no API call crashes the host; errors are reported and recoverable.

M1/M2: Api.tla (TLC): every entry point x argument class is enabled in every state; every call sequence up to a bound is
       exported and executed from four start states (nothing set, rules directory set, expression set, navigating); longer
       sequences by simulation; seeded random argument strings in the thorough tier.
M3: Trace_Api.tla: every call answers Ok or Err within the time bound (a panic, abort, stack overflow or hang is the violation);
    Trace_Memo.tla: after the behaviour, a valid expression yields exactly what a fresh session yields under the same preferences."""
import json
import os
import random
import re
import time

import common as C
import mml
import session as S

PID = "C08"
PROBE = "<math><mfrac><mrow><mi>x</mi><mo>+</mo><mn>2</mn></mrow><mi>n</mi></mfrac><mo>=</mo><msqrt><mi>B</mi></msqrt></math>"
VALID = ["<math><msup><mi>x</mi><mn>2</mn></msup><mo>+</mo><mn>3</mn><mi>y</mi></math>",
         "<math><mtable><mtr><mtd><mn>1</mn></mtd><mtd><mi>a</mi></mtd></mtr><mtr><mtd><mi>b</mi></mtd><mtd><mn>2</mn></mtd></mtr></mtable></math>"]


def mathml_arg(cls, rng):
    if cls == "valid":
        return VALID[0]
    if cls == "valid2":
        return VALID[1]
    if cls == "arity":
        return rng.choice(["<math><mfrac><mi>x</mi></mfrac></math>", "<math><msubsup><mi>x</mi><mn>2</mn></msubsup></math>",
                           "<math><mroot><mi>x</mi><mn>2</mn><mn>3</mn></mroot></math>", "<math><munderover><mi>x</mi></munderover></math>"])
    if cls == "notmathml":
        return rng.choice(["<html><body>hi</body></html>", "<math><foo><mi>x</mi></foo></math>", "<svg xmlns='http://www.w3.org/2000/svg'/>",
                           "<mi>x</mi>", "<math><mi><mi>x</mi></mi></math>", "<math><annotation>x</annotation></math>"])
    if cls == "notxml":
        return rng.choice(["x+1", "<math><mi>x</math>", "<math", "\u0000", "<<>>", "<math><mi>x</mi></math><math/>", "<?xml version='1.0'?>"])
    if cls == "empty":
        return rng.choice(["", " ", "<math/>", "<math></math>", "<math> </math>"])
    if cls == "entity":
        return rng.choice(["<math><mi>&nosuchentity;</mi></math>", "<math><mo>&;</mo></math>", "<math><mi>&#xZZ;</mi></math>", "<math><mi>&#0;</mi></math>"])
    if cls == "oddmulti":
        return rng.choice(["<math><mmultiscripts><mi/><mn/></mmultiscripts></math>", "<math><mmultiscripts><mi>x</mi><mn>2</mn></mmultiscripts></math>",
                           "<math><mmultiscripts><mi>x</mi><mprescripts/><mn>2</mn></mmultiscripts></math>", "<math><mmultiscripts/></math>",
                           "<math><mmultiscripts><mprescripts/></mmultiscripts></math>",
                           "<math><mmultiscripts><mi>x</mi><mn>1</mn><mn>2</mn><mprescripts/><mprescripts/><mn>3</mn><mn>4</mn></mmultiscripts></math>"])
    if cls == "badintent":
        return rng.choice(["<math><mrow intent='f($x'><mi arg='x'>x</mi><mo>+</mo><mi>y</mi></mrow></math>",
                           "<math><mi intent=')))'>x</mi></math>", "<math><mrow intent='$a($a)'><mi arg='a'>x</mi><mi>y</mi></mrow></math>",
                           "<math><mrow intent='α β γ '><mi>x</mi><mi>y</mi></mrow></math>", "<math><mi intent=''>x</mi></math>",
                           "<math><mrow intent='f(" + "g(" * 60 + "$x" + ")" * 61 + "'><mi arg='x'>x</mi><mi>y</mi></mrow></math>"])
    if cls == "mixed":
        return rng.choice(["<math>text<mi>x</mi></math>", "<math><mrow>a<mi>x</mi>b</mrow></math>", "<math><mi>x<!-- c --></mi><?pi?></math>",
                           "<math><mtext>a<b>bold</b>c</mtext></math>", "<math><mi>x</mi>tail</math>"])
    if cls == "huge":
        return "<math><mi>" + "x" * 5000 + "</mi><mo>+</mo><mn>" + "9" * 3000 + "</mn><mtext>" + "é " * 1000 + "</mtext></math>"
    if cls == "deep":
        d = 60
        return "<math>" + "<msqrt><mrow><mi>a</mi><mo>+</mo>" * d + "<mi>x</mi>" + "</mrow></msqrt>" * d + "</math>"
    if cls == "emptybase":
        return rng.choice(["<math><msup><mrow/><mn>2</mn></msup></math>", "<math><msub><mi/><mi/></msub><mi>x</mi></math>",
                           "<math><mi>y</mi><msubsup><mrow/><mn>1</mn><mn>2</mn></msubsup></math>", "<math><mover><mrow/><mo>¯</mo></mover></math>"])
    if cls == "nomath":
        return "<mrow><mi>x</mi><mo>+</mo><mn>1</mn></mrow>"
    raise ValueError(cls)


def concretise(call, rng):
    name, cls = call
    if name == "set_rules_dir":
        return {"op": "set_rules_dir", "dir": {"good": "$RULES", "missing": "/nonexistent/dir", "empty": "/verif/work/home", "file": "$RULES/prefs.yaml"}[cls]}
    if name == "set_mathml":
        return {"op": "set_mathml", "mathml": mathml_arg(cls, rng)}
    if name == "set_preference":
        n, v = cls.split(":")
        nm = {"knownStr": ["SpeechStyle", "Verbosity", "BrailleCode", "TTS", "NavMode", "BrailleNavHighlight", "DecimalSeparator", "CheckRuleFiles"],
              "knownBool": ["Bookmark", "Overview", "AutoZoomOut", "CapitalLetters_Beep", "LaTeX_UseShortName"],
              "knownNum": ["Pitch", "Rate", "Volume", "MathRate", "PauseFactor", "CapitalLetters_Pitch"],
              "unknown": ["NoSuchPref", "", "speechstyle", "Language "], "lang": ["Language", "LanguageAuto"]}[n]
        vv = {"valid": ["SimpleSpeak", "Verbose", "UEB", "SSML", "Character", "All", ",", "None", "xyz"], "bool": ["true", "FALSE"],
              "other": ["abc", "", "maybe", "1e999", "NaN", "-inf"], "num": ["100", "12.50", "0", "-40", "1e3", "400"], "any": ["true", "x", "3"],
              "good": ["en", "es", "en-gb", "Auto", "sv", "zh-tw", "xx", "en-us-nyc"], "bad": ["e", "english", "", "-", "1", "日本"], "empty": [""]}[v]
        return {"op": "set_pref", "name": rng.choice(nm), "value": rng.choice(vv)}
    if name == "get_preference":
        return {"op": "get_pref", "name": rng.choice(["Language", "TTS", "Bookmark", "Rate"]) if cls == "known" else rng.choice(["Nope", "", "rate"])}
    simple = {"get_spoken_text": "speech", "get_overview_text": "overview", "get_navigation_braille": "nav_braille", "get_navigation_mathml": "nav_mathml",
              "get_navigation_mathml_id": "nav_id", "get_braille_position": "braille_pos", "get_version": "get_version"}
    if name in simple:
        return {"op": simple[name]}
    ids = {"root": "${ID:0}", "leaf": "${ID:3}", "inner": "${ID:1}", "unknown": "no-such-id", "stale": "${OLDID:2}", "empty": ""}
    if name == "get_braille":
        return {"op": "braille", "id": ids[cls]}
    if name == "do_navigate_command":
        c = {"move": ["MoveNext", "MovePrevious", "MoveStart", "MoveEnd", "MoveCellDown", "MoveColumnEnd", "MoveLineStart"], "zoom": ["ZoomIn", "ZoomOut", "ZoomInAll", "ZoomOutAll"],
             "read": ["ReadCurrent", "ReadNext", "ReadPrevious", "Read3", "ReadCellCurrent", "ReadLineEnd"], "describe": ["DescribeCurrent", "DescribeNext", "Describe7"],
             "where": ["WhereAmI", "WhereAmIAll"], "toggle": ["ToggleZoomLockUp", "ToggleZoomLockDown", "ToggleSpeakMode"], "setmark": ["SetPlacemarker0", "SetPlacemarker9"],
             "moveto": ["MoveTo0", "MoveTo9", "MoveTo4"], "undo": ["MoveLastLocation"], "exit": ["Exit"], "unknown": ["Bogus", "", "movenext", "MoveTo10", "ZoomIn "]}[cls]
        return {"op": "nav_cmd", "cmd": rng.choice(c)}
    if name == "do_navigate_keypress":
        k = {"arrow": (rng.choice([37, 38, 39, 40]), 0), "arrow+mod": (rng.choice([37, 38, 39, 40]), rng.randrange(1, 16)), "digit": (48 + rng.randrange(10), 0),
             "digit+mod": (48 + rng.randrange(10), rng.randrange(1, 16)), "enter": (rng.choice([13, 32, 8, 36, 35, 27]), rng.randrange(16)),
             "other": (rng.choice([65, 90, 112, 190, 0, 255]), rng.randrange(16)), "huge": (rng.choice([100000, 2 ** 31, 2 ** 40]), rng.randrange(16))}[cls]
        return {"op": "nav_key", "key": k[0], "shift": bool(k[1] & 1), "ctrl": bool(k[1] & 2), "alt": bool(k[1] & 4), "meta": bool(k[1] & 8)}
    if name == "set_navigation_node":
        idc, off = cls
        return {"op": "set_nav_node", "id": ids[idc], "offset": {"off0": 0, "off1": 1, "offhuge": 10 ** 9}[off]}
    if name == "get_navigation_node_from_braille_position":
        return {"op": "node_from_braille", "pos": {"zero": 0, "inside": 3, "end": 11, "beyond": 500, "huge": 2 ** 40}[cls]}
    raise ValueError(name)


STRESS = ("<math><mfrac><mn>1</mn><mn>1234567890123456789012345</mn></mfrac><mo>+</mo><mn>1</mn><mo>,</mo><mn>234</mn><mo>.</mo><mn>5</mn><mo>+</mo>"
          "<mfrac><mrow><mi>X</mi><mo>+</mo><mfrac><mrow><mi>a</mi><mo>+</mo><mn>1</mn></mrow><mrow><mi>b</mi><mo>-</mo><mn>1</mn></mrow></mfrac></mrow><msqrt><mi>Y</mi><mo>-</mo><mn>2</mn></msqrt></mfrac>"
          "<mo>=</mo><msup><mi>e</mi><mrow><mo>-</mo><mn>3.1415926535897932384626433</mn></mrow></msup><mo>+</mo><mrow/><mo>+</mo><mn>12 345 678</mn><mi>km</mi></math>")
HOSTILE = ["", " ", "-1", "1e-30", "1e30", "NaN", "[", "x" * 300]
NUMERIC_PREFS = ("Rate", "Pitch", "Volume", "MathRate", "PauseFactor", "CapitalLetters_Pitch")


def stress_values():
    """preference name -> values: what prefs.yaml documents in the comment behind each entry (nested groups are flattened the way
    the library does: ClearSpeak: Fractions -> ClearSpeak_Fractions), its current value, the API preferences of prefs.rs, and
    hostile values."""
    out = {}
    group = None
    for line in open(os.path.join(C.REPO, "Rules", "prefs.yaml"), encoding="utf-8"):
        m = re.match(r"^( *)([A-Za-z_0-9]+):\s*([^#\n]*?)\s*(?:#\s*(.*))?$", line.rstrip("\n"))
        if not m:
            continue
        indent, key, cur, comment = len(m.group(1)), m.group(2), m.group(3).strip().strip("'\""), m.group(4) or ""
        if indent <= 2:
            group = None
            continue                        # Speech / Navigation / Braille / Other
        if indent == 4:
            group = None
            if cur == "" and not line.split("#")[0].rstrip().endswith('""'):
                group = key                 # a group such as ClearSpeak: or SpeechOverrides:
                continue
        name = f"{group}_{key}" if group and indent > 4 else key
        vals = [cur] if cur else []
        for tok in re.split(r"[,/|]| or |--", comment):
            tok = tok.strip().strip("'\"").split(" ")[0]
            if tok and len(tok) < 30 and re.match(r"^[A-Za-z0-9_.+-]+$", tok):
                vals.append(tok)
        out[name] = list(dict.fromkeys(vals + HOSTILE))
    src = open(os.path.join(C.REPO, "src", "prefs.rs"), encoding="utf-8").read()
    for name, kind, default in re.findall(r'prefs\.insert\("([A-Za-z_0-9]+)"\.to_string\(\), Yaml::(\w+)\((?:"([^"]*)"\.to_string\(\)|(?:true|false))', src):
        samples = {"Real": ["100", "12.5", "0", "400"], "Integer": ["100", "0"], "Boolean": ["true", "false"], "String": ["SSML", "SAPI5", "none"]}.get(kind, [])
        out.setdefault(name, list(dict.fromkeys(([default] if default else []) + samples + HOSTILE)))
    for derived in ("BlockSeparators", "DecimalSeparators"):          # computed from Language / DecimalSeparator, but settable
        out.setdefault(derived, [",", ". ", ".,"] + HOSTILE)
    if len(out) < 60 or "ClearSpeak_Fractions" not in out or "Rate" not in out:
        raise C.ToolError(f"prefs.yaml / prefs.rs: only {len(out)} preferences harvested")
    return out


PREF_GRID = [("knownStr:valid", ["SpeechStyle", "Verbosity", "BrailleCode", "TTS", "NavMode", "BrailleNavHighlight", "DecimalSeparator", "CheckRuleFiles"],
              ["SimpleSpeak", "Verbose", "UEB", "SSML", "Character", "All", ",", "None"]),
             ("knownBool:bool", ["Bookmark", "Overview", "AutoZoomOut", "CapitalLetters_Beep"], ["true", "FALSE"]),
             ("knownNum:num", ["Pitch", "Rate", "Volume", "MathRate", "PauseFactor", "CapitalLetters_Pitch"], ["100", "0"]),
             ("lang:good", ["Language"], ["en", "es", "Auto", "xx"])]
PREFIXES = [
    ("none", []),
    # a getter before any set_rules_dir fails - and leaves a session whose preferences are only half there (32cc0a3)
    ("failed-start", [{"op": "overview"}]),
    ("rules", [{"op": "set_rules_dir", "dir": "$RULES"}]),
    ("expr", [{"op": "set_rules_dir", "dir": "$RULES"}, {"op": "set_mathml", "mathml": VALID[0]}]),
    ("nav", [{"op": "set_rules_dir", "dir": "$RULES"}, {"op": "set_mathml", "mathml": VALID[1]}, {"op": "nav_cmd", "cmd": "ZoomIn"},
             {"op": "nav_cmd", "cmd": "MoveNext"}]),
]
PREFIX_CALLS = {"set_rules_dir": ("set_rules_dir", "good"), "set_mathml": ("set_mathml", "valid"), "nav_cmd": ("do_navigate_command", "move"),
                "overview": ("get_overview_text", "-")}
RECOVERY = [{"op": "set_rules_dir", "dir": "$RULES"}, {"op": "def_names", "names": None}, {"op": "set_mathml", "mathml": PROBE}, {"op": "prefs_hash"},
            {"op": "speech"}, {"op": "braille", "id": ""}, {"op": "overview"}, {"op": "nav_cmd", "cmd": "ZoomIn"}]


def build_script(beh, prefix, rng, sid):
    pname, pops = prefix
    ops = [dict(o) for o in pops]
    meta = [("prefix", PREFIX_CALLS[o["op"]]) for o in pops]
    said = {}
    for call in beh:
        call = (call[0], tuple(call[1]) if isinstance(call[1], list) else call[1])
        # a call of a class that occurred before in this behaviour is, half of the time, the very same call again (the same
        # preference set to the same value, the same expression, the same node): 'nothing changes' is a path of its own (32cc0a3)
        o = dict(said[call]) if call in said and rng.random() < 0.5 else concretise(call, rng)
        said[call] = o
        ops.append(o)
        meta.append(("call", call))
    for o in RECOVERY:
        o = dict(o)
        if o["op"] == "def_names":
            o["names"] = S.pref_names()
        ops.append(o)
        meta.append(("probe", None))
    # the preferences are read back before the first call and after every call of the behaviour (fingerprint over all names but
    # NavMode, which navigation keeps up to date itself)
    n_calls = len(pops) + len(beh)
    ops2, meta2 = [{"op": "def_names", "names": [n for n in S.pref_names() if n != "NavMode"]}, {"op": "prefs_hash"}], [("aux", None), ("aux", None)]
    for i, (o, m) in enumerate(zip(ops, meta)):
        ops2.append(o)
        meta2.append(m)
        if i < n_calls:
            ops2.append({"op": "prefs_hash"})
            meta2.append(("aux", None))
    return {"id": sid, "ops": ops2, "meta": meta2}


API_NAME = {"set_rules_dir": "set_rules_dir", "set_mathml": "set_mathml", "set_pref": "set_preference", "get_pref": "get_preference", "speech": "get_spoken_text",
            "overview": "get_overview_text", "braille": "get_braille", "nav_braille": "get_navigation_braille", "nav_cmd": "do_navigate_command",
            "nav_key": "do_navigate_keypress", "set_nav_node": "set_navigation_node", "nav_mathml": "get_navigation_mathml", "nav_id": "get_navigation_mathml_id",
            "braille_pos": "get_braille_position", "node_from_braille": "get_navigation_node_from_braille_position", "get_version": "get_version"}


def run(tier):
    t0 = time.time()
    wd = C.workdir("c08")
    rng = random.Random(C.seed())
    m1 = C.run_tlc("Api", "MC_Api.cfg", wd, workers=8, timeout=600, coverage=False)
    if m1["error"] or m1["violation"]:
        raise C.ToolError(f"Api.tla: {m1['error'] or m1['violation']}")
    pairs = C.replay_lines(m1)
    if len(pairs) < 5000:
        raise C.ToolError(f"Api.tla exported only {len(pairs)} behaviours")
    sim = C.run_tlc("Api", "MC_Api_sim.cfg", wd, workers=1, timeout=600, coverage=False, simulate=30 if tier == "quick" else 400, depth=8, seed_=C.seed())
    longs = C.replay_lines(sim)
    rng.shuffle(longs)
    singles = sorted({json.dumps(p[0]) for p in pairs})
    behaviours = [[json.loads(s)] for s in singles]
    behaviours += [[json.loads(s)] * 2 for s in singles] + [[json.loads(s)] * 3 for s in singles if "set_preference" in s]          # every call repeated
    if tier == "quick":
        behaviours += rng.sample(pairs, 900) + longs[:250]
    else:
        behaviours += pairs + longs[:6000]
    scripts = []
    for bi, beh in enumerate(behaviours):
        prefixes = PREFIXES if (tier == "thorough" or len(beh) == 1 or bi < 3 * len(singles)) else [PREFIXES[bi % len(PREFIXES)]]
        for pf in prefixes:
            scripts.append(build_script(beh, pf, random.Random(C.seed() * 17 + bi), f"b{bi}:{pf[0]}"))
    # every (preference, value) of the classes of Api.tla set twice in a row, in every session state: the second call changes nothing
    for cls, names, values in PREF_GRID:
        for n in names:
            for v in values:
                for pf in PREFIXES:
                    # ... followed by the queries that fail or succeed depending on the state: none of them may leave a preference
                    # changed behind (an override that is not undone on an error path shows only under a non-default value)
                    tail = [("get_navigation_node_from_braille_position", "zero"), ("get_braille", "root"), ("do_navigate_command", "zoom"),
                            ("get_braille_position", "-"), ("get_navigation_node_from_braille_position", "beyond"), ("get_spoken_text", "-")]
                    sc = build_script([("set_preference", cls)] * 2 + tail, pf, rng, f"pref2:{n}={v}:{pf[0]}")
                    for o in sc["ops"]:
                        if o["op"] == "set_pref":
                            o["name"], o["value"] = n, v
                    scripts.append(sc)
    # every preference of prefs.yaml at each of its documented values (harvested from the file's comments) and at hostile ones,
    # under every engine, followed by a stress expression (numbers with many digits and separators, a huge denominator, nested
    # fractions with pauses, capitals, an empty row) and every getter: no value of any preference makes a getter crash
    stress_vals = stress_values()
    grid2 = [(n, v) for n, vs in sorted(stress_vals.items()) for v in vs]
    # (the engine rotates; the numeric preferences feed the engines' unit conversions and meet all three)
    grid2 = [(n, v, e) for gi, (n, v) in enumerate(grid2) for e in (("None", "SSML", "SAPI5") if n in NUMERIC_PREFS else (["None", "SSML", "SAPI5"][gi % 3],))]
    for gi, (n, v, eng) in enumerate(grid2):
        sc = build_script([("set_preference", "knownStr:valid")] * 2 + [("set_mathml", "valid"), ("get_spoken_text", "-"), ("get_overview_text", "-"), ("get_braille", "empty"),
                          ("do_navigate_command", "zoom"), ("do_navigate_command", "read")], [p_ for p_ in PREFIXES if p_[0] == "rules"][0], rng, f"stress:{n}={v}:{eng}")
        sets = [o for o in sc["ops"] if o["op"] == "set_pref"]
        sets[0]["name"], sets[0]["value"] = "TTS", eng
        sets[1]["name"], sets[1]["value"] = n, v
        [o for o in sc["ops"] if o["op"] == "set_mathml"][0]["mathml"] = STRESS
        scripts.append(sc)
    # integers of every length 1..41 and around the sizes of the languages' large-number word tables (3 x 11, 3 x 45 digits), as
    # exponent, root index and denominator - the positions the rules speak through ToOrdinal() / the number-to-words tables, whose
    # guards are arithmetic on the number of digits
    lengths = list(range(1, 42)) + [45, 60, 100, 134, 135, 136, 137, 138, 139, 200]
    shapes = ["<math><msup><mi>x</mi><mn>{}</mn></msup></math>", "<math><mroot><mi>x</mi><mn>{}</mn></mroot></math>", "<math><mfrac><mn>3</mn><mn>{}</mn></mfrac><mo>+</mo><msub><mi>a</mi><mn>{}</mn></msub></math>"]
    sweep_langs = ["en", "sv"] + (random.Random(C.seed() * 3).sample([l for l in S.languages() if l not in ("en", "sv") and not l.startswith("zz")], 2) if tier == "quick"
                                  else [l for l in S.languages() if l not in ("en", "sv")])
    for lang in sweep_langs:
        for style in ("ClearSpeak", "SimpleSpeak"):
            for shape in shapes:
                beh = [("set_preference", "knownStr:valid")] * 2
                for _ in lengths:
                    beh += [("set_mathml", "valid"), ("get_spoken_text", "-"), ("get_overview_text", "-"), ("do_navigate_command", "zoom")]
                sc = build_script(beh, [p_ for p_ in PREFIXES if p_[0] == "rules"][0], random.Random(1), f"digits:{lang}:{style}:{shapes.index(shape)}")
                sets = [o for o in sc["ops"] if o["op"] == "set_pref"]
                sets[0]["name"], sets[0]["value"] = "Language", lang
                sets[1]["name"], sets[1]["value"] = "SpeechStyle", style
                body = [o for o in sc["ops"] if o["op"] == "set_mathml"][:len(lengths)]
                for o, n_ in zip(body, lengths):
                    o["mathml"] = shape.replace("{}", ("1234567890" * 20)[:n_])
                for o in sc["ops"]:
                    if o["op"] == "nav_cmd" and o is not sc["ops"][-1]:
                        o["cmd"] = "ZoomIn"
                scripts.append(sc)
    # fresh reference sessions for the recovery probe under the default preferences
    scripts.append(build_script([], PREFIXES[0], rng, "fresh"))
    results = C.run_mcv([{"id": s["id"], "ops": s["ops"]} for s in scripts], wd, timeout_ms=20000, stack_mb=8)
    events, back, memo = [], [], []
    for si, (s, r) in enumerate(zip(scripts, results)):
        events.append({"call": "session", "cls": "-", "res": "ok", "ms": 0, "probe": 0})
        back.append((si, -1))
        hash_now = None
        for oi, (op, m, rr) in enumerate(zip(s["ops"], s["meta"], r["results"])):
            if op["op"] in ("def_names",):
                continue
            if op["op"] == "prefs_hash":
                hash_now = rr["v"] if rr["r"] == "ok" else None
                if m[0] == "aux" and events and events[-1].get("_open"):
                    events[-1]["ha"] = hash_now or ""
                    events[-1].pop("_open")
                continue
            kind, call = m
            cls = call[1] if call else "-"
            if isinstance(cls, tuple):
                cls = list(cls)
            if kind == "probe":
                cls = {"set_rules_dir": "good", "set_mathml": "valid", "braille": "empty", "nav_cmd": "zoom"}.get(op["op"], "-")
            events.append({"call": API_NAME[op["op"]], "cls": cls, "res": rr["r"], "ms": rr.get("ms", 0), "probe": 1 if kind == "probe" else 0,
                           "hb": (hash_now or "") if kind != "probe" else "", "ha": "", "_open": kind != "probe"})
            back.append((si, oi))
            if kind == "probe" and op["op"] in ("speech", "braille", "overview") and hash_now:
                memo.append((S.fp(hash_now, op["op"]), S.fp(rr["r"], S.norm_out(rr["v"]) if rr["r"] == "ok" else ""), si, oi))
    for e in events:
        e.pop("_open", None)
        e.setdefault("hb", "")
        e.setdefault("ha", "")
    rejects, drifts, _ = C.validate_trace("Trace_Api", "Trace_Api.cfg", events, wd, name="api", timeout=1800)
    memo.sort(key=lambda x: (x[0], 0 if scripts[x[2]]["id"] == "fresh" else 1, x[2], x[3]))
    mrej, _, _ = C.validate_trace("Trace_Memo", "Trace_Memo.cfg", [{"key": k, "out": o} for k, o, _, _ in memo], wd, name="memo", timeout=1200)
    verdict = C.Verdict(PID)
    for idx, reason in rejects:
        si, oi = back[idx - 1]
        s = scripts[si]
        e = events[idx - 1]
        rr = results[si]["results"][oi]
        hist = [f"{API_NAME[o['op']]}" for o in s["ops"][:oi] if o["op"] in API_NAME][-3:]
        arg = {k: (v if len(str(v)) < 120 else str(v)[:120] + "…") for k, v in s["ops"][oi].items() if k != "op"}
        where = str(rr["v"])[:160]
        text = f"{reason}: {e['call']}({arg}) [{e['cls']}] after {hist}: {where}"
        verdict.reject(f"{reason}|{e['call']}|{json.dumps(e['cls'])}|{where[:60]}", text, {"script": s["ops"][:oi + 1]},
                       text=json.dumps({"reason": reason, "call": e["call"], "cls": e["cls"], "arg": arg, "msg": where, "state": s["id"].split(":")[-1]}, ensure_ascii=False))
    for idx, reason in mrej:
        key, o, si, oi = memo[idx - 1]
        s = scripts[si]
        rr = results[si]["results"][oi]
        api_ops = [o_ for o_ in s["ops"] if o_["op"] in API_NAME]
        calls = api_ops[: len(api_ops) - sum(1 for o_ in RECOVERY if o_["op"] in API_NAME)]
        text = f"not-recovered: after {[API_NAME[c['op']] for c in calls][-4:]} a valid expression gives {str(S.norm_out(rr['v']))[:120]!r} for {s['ops'][oi]['op']} - a fresh session with the same preferences gives something else"
        verdict.reject(f"recovery|{s['ops'][oi]['op']}|{S.fp([c for c in calls])}", text, {"script": s["ops"][:oi + 1]}, text=text)
    for idx, reason in drifts[:200]:
        si, oi = back[idx - 1]
        e = events[idx - 1]
        verdict.add_drift(f"{reason} but {e['res']}: {e['call']} [{e['cls']}] in {scripts[si]['id']}")
    # the inputs of the canonicalization checks (TLC-generated trees, sibling-merge rows, split tokens, adjacent wrappers, escaping
    # matrix, suite expressions and their mutants): C01/C02/C09 skip what does not return Ok - a panic or a hang there is this
    # property's business
    import canon
    ccases, _ = canon.build_cases(tier, wd)
    cres = canon.run_cases(ccases, wd)
    canon_not_alive = 0
    for cc, rr in zip(ccases, cres):
        if rr is not None and rr["r"] not in ("ok", "err"):
            canon_not_alive += 1
            pre = [{"op": "set_mathml", "mathml": cc["after"]}] if "after" in cc else []
            verdict.reject(f"canon-input|{rr['r']}|{S.fp(cc['mathml'], cc.get('after', ''))}", f"set_mathml {rr['r']} ({str(rr['v'])[:160]!r}) on {cc['origin']} input {cc['mathml'][:300]}"
                           + (f" after {cc['after'][:200]}" if "after" in cc else ""),
                           {"script": [{"op": "set_rules_dir", "dir": "$RULES"}] + pre + [{"op": "set_mathml", "mathml": cc["mathml"]}]},
                           text=json.dumps({"reason": "set_mathml-" + rr["r"], "origin": cc["origin"], "mathml": cc["mathml"][:500], "msg": str(rr["v"])[:300]}, ensure_ascii=False))
    # cross-subsystem walks judged against the umbrella specification (Session.tla); this property's clauses only
    import sessionwalk
    sw_model = sessionwalk.model_check(wd, tier)
    sw = sessionwalk.stage(PID, wd, tier, verdict)
    # every key code x modifier combination of Keys.tla pressed from several start states (no combination reaches a panic! arm)
    import keys
    sw.update(keys.stage(PID, wd, tier, verdict))
    rc = verdict.finish(wd)
    calls_ev = [e for e in events if e["call"] != "session"]
    C.write_evidence(PID, tier, "model_checking", {
        **sw, "canonicalization_inputs_run": len(ccases), "canonicalization_inputs_panic_or_hang": canon_not_alive,
        "session_model_distinct_states": sw_model["distinct"],
        "states": m1["distinct"], "transitions": m1["states"],
        "traces_validated_against_impl": len(scripts),
        "samples": [[(o["op"], {k: str(v)[:60] for k, v in o.items() if k not in ("op", "names")}) for o in scripts[len(singles) * 4 + 3]["ops"][:6]]],
        "evaluations": len(calls_ev), "distinct_nontrivial": len({(e["call"], json.dumps(e["cls"]), e["res"]) for e in calls_ev}),
        "rule": "behaviours = every (entry point, argument class) alone from four start states, every ordered pair (sampled in quick) and "
                "simulated sequences of 7 calls of Api.tla, concretised with seeded arguments; each followed by a recovery probe (valid "
                "expression + getters) compared with a fresh session; distinct_nontrivial = distinct (entry point, argument class, result)",
        "exhaustive": False, "results": {r_: sum(1 for e in calls_ev if e["res"] == r_) for r_ in ("ok", "err", "panic", "hang", "crash")},
        "recovery_comparisons": len(memo), "model_drift": len(drifts), "trace_events_rejected": len(rejects) + len(mrej),
        "time_bound_ms": 15000, "max_ms": max(e["ms"] for e in calls_ev),
    }, time.time() - t0, len(verdict.violations),
        ["non-termination is judged by a wall-clock bound; expressions are <= 400 nodes / depth <= 60 on an 8 MiB stack",
         "a panic caught by catch_unwind counts as a crash of the host (the library is used through FFI)"])
    return rc


def selftest(tier):
    wd = C.workdir("c08_self")
    ev = [{"call": "session", "cls": "-", "res": "ok", "ms": 0, "probe": 0}, {"call": "get_version", "cls": "-", "res": "ok", "ms": 1, "probe": 0},
          {"call": "set_rules_dir", "cls": "good", "res": "ok", "ms": 1, "probe": 0},
          {"call": "get_braille", "cls": "root", "res": "err", "ms": 1, "probe": 0, "hb": "h1", "ha": "h2"},
          {"call": "get_spoken_text", "cls": "-", "res": "panic", "ms": 1, "probe": 0}, {"call": "get_spoken_text", "cls": "-", "res": "err", "ms": 99999, "probe": 0}]
    for e in ev:
        e.setdefault("hb", "")
        e.setdefault("ha", "")
    rej, _, _ = C.validate_trace("Trace_Api", "Trace_Api.cfg", ev, wd)
    if [i for i, _ in rej] != [4, 5, 6]:
        raise C.ToolError(f"selftest: {rej}")
    C.log("[C08] selftest ok")
    import sessionwalk
    sessionwalk.selftest(C.workdir("c08_self_sw"))
    return 0


def replay(path):
    rp = json.load(open(path))["replay"]
    wd = C.workdir("c08_replay")
    res = C.run_mcv([{"id": "replay", "ops": rp["script"]}], wd, threads=1)
    for op, rr in list(zip(rp["script"], res[0]["results"]))[-4:]:
        C.log(f"{op['op']}: {rr['r']} {str(rr['v'])[:300]}")
    return 1 if res[0]["results"][-1]["r"] not in ("ok", "err") else 0
