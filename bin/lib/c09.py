"""C09 - every node gets a unique id and author ids are kept; ids handed out later are ids of the returned MathML.

Stage 1 (returned tree): canon.py pipeline, id predicates of Canon.tla judged by TLC (Trace_Canon.tla).
Stage 2 (ids handed out later): for expressions with and without author ids: bookmark marks in speech (SSML/SAPI5),
  the node under each braille cell, and the navigation node after every command of seeded walks (incl.
  set_navigation_node with character offsets and MoveTo of unset markers) - judged by TLC (Trace_Ids.tla)."""
import json
import random
import re
import time

import canon
import common as C
import c11
import mml

PID = "C09"


def handout_scripts(tier):
    rng = random.Random(C.seed() + 9)
    exprs = [c["mathml"] for c in mml.corpus() if 60 < len(c["mathml"]) < 1500]
    n = 120 if tier == "quick" else 1500
    commands = c11.nav_commands()
    moves = [c for c in commands if c11.cmd_class(c) in ("Move", "Zoom")]
    scripts = []
    for i in range(n):
        e = rng.choice(exprs)
        if "id=" not in e:
            e = canon.add_ids(e, ["none", "all", "alternate"][i % 3], rng)
        tts = ["SSML", "SAPI5"][i % 2]
        ops = [{"op": "set_rules_dir", "dir": "$RULES"},
               {"op": "set_pref", "name": "TTS", "value": tts}, {"op": "set_pref", "name": "Bookmark", "value": "true"},
               {"op": "set_pref", "name": "BrailleCode", "value": ["Nemeth", "UEB", "CMU"][i % 3]},
               {"op": "set_pref", "name": "NavMode", "value": ["Enhanced", "Simple", "Character"][i % 3]}]
        # the expression is set TWICE in the session (the same string again, or the same elements under other author ids): what is
        # handed out after the second set_mathml has to be an id of ITS result - the text, the braille and the positions are the same,
        # the ids are not
        rounds = [e, e if i % 2 == 0 else canon.add_ids(re.sub(r"\sid=(['\"]).*?\1", "", e), ["all", "alternate", "none"][i % 3], rng)]
        for e2 in rounds:
          ops += [{"op": "set_mathml", "mathml": e2}, {"op": "speech"}, {"op": "overview"}]
          for p in range(0, 14, 2):
            ops.append({"op": "node_from_braille", "pos": p})
          for k in range(14 if e2 is rounds[0] else 6):
              x = rng.random()
              if x < 0.25:
                  ops.append({"op": "set_nav_node", "id": "${ID:%d}" % rng.randrange(40), "offset": rng.choice([0, 1, 1, 2])})
              elif x < 0.45:
                  ops.append({"op": "nav_cmd", "cmd": f"MoveTo{rng.randrange(10)}"})
              elif x < 0.55:
                  ops.append({"op": "nav_key", "key": 48 + rng.randrange(10), "shift": False, "ctrl": False, "alt": False, "meta": False})
              elif x < 0.65:
                  ops.append({"op": "nav_cmd", "cmd": f"SetPlacemarker{rng.randrange(10)}"})
              else:
                  ops.append({"op": "nav_cmd", "cmd": rng.choice(moves + ["MoveLastLocation"])})
              ops.append({"op": "nav_id"})
        scripts.append({"id": f"handout{i}", "ops": ops})
    return scripts


def handout_events(scripts, results):
    events, back = [], []
    for si, (s, r) in enumerate(zip(scripts, results)):
        ids = None
        for oi, (op, rr) in enumerate(zip(s["ops"], r["results"])):
            if op["op"] == "set_mathml":
                t = mml.parse(rr["v"], expand=False) if rr["r"] == "ok" else None
                ids = mml.ids(t) if t else None
                continue
            if ids is None or rr["r"] != "ok":
                continue
            handed, kind = None, op["op"]
            if op["op"] in ("speech", "overview"):
                handed = re.findall(r"<mark name=['\"]([^'\"]*)['\"]", rr["v"]) + re.findall(r"<bookmark mark=['\"]([^'\"]*)['\"]", rr["v"])
                kind = "bookmark-in-" + op["op"]
            elif op["op"] == "node_from_braille":
                handed = [rr["v"][0]]
            elif op["op"] == "nav_id":
                handed = [rr["v"][0]]
                prev = s["ops"][oi - 1]
                kind = "navigation-node-after-" + re.sub(r"\d", "N", prev.get("cmd", prev["op"]))
            if handed is None:
                continue
            events.append({"ids": ids, "handed": handed, "kind": kind})
            back.append((si, oi))
    return events, back


def run(tier):
    t0 = time.time()
    rc1 = canon.run(PID, tier)
    ev1 = json.load(open(f"{C.EVIDENCE}/{PID}.json"))
    wd = C.workdir("c09_handout")
    scripts = handout_scripts(tier)
    results = C.run_mcv(scripts, wd, name="handout", timeout_ms=30000)
    events, back = handout_events(scripts, results)
    rejects, _, _ = C.validate_trace("Trace_Ids", "Trace_Ids.cfg", events, wd, name="ids")
    verdict = C.Verdict(PID)
    for idx, reason in rejects:
        si, oi = back[idx - 1]
        e = events[idx - 1]
        foreign = sorted(set(e["handed"]) - set(e["ids"]))
        hist = [o.get("cmd", o["op"]) for o in scripts[si]["ops"][5:oi + 1] if o["op"] not in ("nav_id",)]
        verdict.reject(f"{reason}|{'>'.join(re.sub(chr(92) + 'd', 'N', h) for h in hist[-2:])}",
                       f"{reason}: id(s) {foreign} handed out after {hist[-4:]} are not ids of the returned MathML",
                       {"script": scripts[si]["ops"][:oi + 1]}, text=f"{reason} {hist[-3:]}")
    rc2 = verdict.finish(wd)
    cov = ev1["coverage"]
    cov["handed_out_id_events"] = len(events)
    cov["handed_out_id_events_rejected"] = len(rejects)
    cov["handed_out_kinds"] = sorted({e["kind"] for e in events})[:40]
    cov["traces_validated_against_impl"] += len(scripts)
    cov["evaluations"] += len(events)
    C.write_evidence(PID, tier, "model_checking", cov, time.time() - t0, ev1.get("violations", 0) + len(verdict.violations),
                     ev1.get("assumptions"))
    return 1 if (rc1 or rc2) else 0


def replay(path):
    rp = json.load(open(path))["replay"]
    if any(o["op"] != "set_mathml" and o["op"] != "set_rules_dir" and o["op"] != "set_pref" for o in rp["script"]):
        wd = C.workdir("c09_replay")
        s = {"id": "replay", "ops": rp["script"]}
        res = C.run_mcv([s], wd, threads=1)
        events, _ = handout_events([s], res)
        rejects, _, _ = C.validate_trace("Trace_Ids", "Trace_Ids.cfg", events, wd)
        C.log(f"rejected: {rejects}")
        return 1 if rejects else 0
    return canon.replay(PID, path)


def selftest(tier):
    canon.selftest(PID)
    wd = C.workdir("c09_self")
    ev = [{"ids": ["a", "b"], "handed": ["a"], "kind": "x"}, {"ids": ["a", "b"], "handed": ["!not set"], "kind": "y"}]
    rej, _, _ = C.validate_trace("Trace_Ids", "Trace_Ids.cfg", ev, wd)
    if [i for i, _ in rej] != [2]:
        raise C.ToolError(f"selftest Trace_Ids: {rej}")
    return 0
