"""C10 - results depend only on the current expression and the preferences.

M1: RuleCache.tla (TLC): the lazily loaded, partly shared rule tables with the literal reload logic; invariant Fresh
    ("whenever a getter answers, every table it consulted holds the file the preferences name, in its current version").
M2: histories exported from the model (language/style/code switches away and back, getters called in every order, idle rule
    sets) are concretised and executed; so are seeded random histories in 16 concurrent sessions (one per thread).
M3: Trace_Memo.tla: memo : (expression, preferences at set time, preferences now, getter) -> output must stay a function
    over ALL observations of the run, across histories and threads."""
import json
import random
import time

import common as C
import mml
import session as S

PID = "C10"

GETTERS = ["speech", "overview", "braille", "canon"]


def configs(rng, tier):
    langs = [l for l in S.languages() if not l.startswith("zz")]
    codes = S.braille_codes()
    cfgs = []
    n = 16 if tier == "quick" else 48
    # region tags whose number separators differ from their language's in the BLOCK separators only (ch, li add the apostrophe),
    # languages with no rules of their own (they speak English with their own separators), and BlockSeparators set directly:
    # what canonicalization compiled for one set of separators must not be used under another
    extras = ["de-ch", "de", "en", "es-mx", "fr-ch", "it-li", "fr", "sv"]
    for i in range(n):
        lang = langs[i % len(langs)] if i < len(langs) else extras[(i - len(langs)) % len(extras)] if i < len(langs) + len(extras) else rng.choice(langs + extras)
        cfgs.append({"Language": lang, "SpeechStyle": rng.choice(["ClearSpeak", "SimpleSpeak"]),
                     "Verbosity": rng.choice(["Terse", "Medium", "Verbose"]), "BrailleCode": codes[i % len(codes)],
                     "TTS": rng.choice(["None", "None", "SSML", "SAPI5"]), "DecimalSeparator": rng.choice(["Auto", "Auto", ".", ","]),
                     "BrailleNavHighlight": rng.choice(["Off", "EndPoints", "All"]),
                     "CheckRuleFiles": rng.choice(["Prefs", "Prefs", "None", "All"])})
        # the language named indirectly: Language=Auto and the language in LanguageAuto (what a screen reader sets from the voice);
        # every preference that selects files by language must look through "Auto"
        if i % 6 == 4:
            cfgs[-1]["Language"], cfgs[-1]["LanguageAuto"] = "Auto", lang
        if i % 4 == 3:
            cfgs[-1]["BlockSeparators"] = rng.choice([" ", ",", ".'", ", '"])
        # the preferences that feed the engines' markup: a value that a rule table or a compiled command keeps from the time it was
        # loaded shows when the value changes afterwards
        cfgs[-1].update({"MathRate": rng.choice(["100", "80", "150"]), "PauseFactor": rng.choice(["100", "50", "300"]), "Rate": rng.choice(["180", "100"]),
                         "Pitch": rng.choice(["0", "20"]), "CapitalLetters_Pitch": rng.choice(["0", "15"]), "CapitalLetters_Beep": rng.choice(["true", "false"]),
                         "Bookmark": rng.choice(["false", "false", "true"])})
    return cfgs


def apply_cfg(ops, cur, cfg, rng):
    """set_preference calls that take the session from assignment cur to cfg (in random order; unchanged values sometimes re-set)."""
    keys = [k for k in cfg if k != "LanguageAuto"]
    rng.shuffle(keys)
    for k in keys:
        if cur.get(k) != cfg[k] or rng.random() < 0.15:
            ops.append({"op": "set_pref", "name": k, "value": cfg[k]})
            cur[k] = cfg[k]
            if k == "Language":
                # LanguageAuto is only meaningful (and, by the documented contract, only set) while Language is Auto; setting
                # Language to Auto overwrites it with the language that was in use
                cur.pop("LanguageAuto", None)
                if cfg[k] == "Auto":
                    ops.append({"op": "set_pref", "name": "LanguageAuto", "value": cfg["LanguageAuto"]})
                    cur["LanguageAuto"] = cfg["LanguageAuto"]
    if "LanguageAuto" in cfg and cur.get("LanguageAuto") != cfg["LanguageAuto"]:
        ops.append({"op": "set_pref", "name": "LanguageAuto", "value": cfg["LanguageAuto"]})
        cur["LanguageAuto"] = cfg["LanguageAuto"]


def observe(ops, tags, expr_i, getter):
    ops.append({"op": "prefs_hash"})
    tags.append(None)
    if getter == "speech":
        ops.append({"op": "speech"})
    elif getter == "overview":
        ops.append({"op": "overview"})
    elif getter == "braille":
        ops.append({"op": "braille", "id": ""})
    tags.append(("obs", expr_i, getter))


def history(rng, cfgs, exprs, n_phases):
    """One session: phases (configuration, expression, random subset/order of getters, some navigation noise)."""
    ops = [{"op": "set_rules_dir", "dir": "$RULES"}, {"op": "def_names", "names": S.pref_names()}]
    tags = [None, None]
    cur = {}
    for ph in range(n_phases):
        cfg = rng.choice(cfgs)
        apply_cfg(ops, cur, cfg, rng)
        tags += [None] * (len(ops) - len(tags))
        for _ in range(rng.choice([1, 1, 2])):
            ei = rng.randrange(len(exprs))
            ops.append({"op": "prefs_hash"})
            tags.append(None)
            ops.append({"op": "set_mathml", "mathml": exprs[ei]})
            tags.append(("set", ei, "canon"))
            getters = [g for g in ("speech", "overview", "braille") if rng.random() < 0.6]
            rng.shuffle(getters)
            for g in getters:
                observe(ops, tags, ei, g)
                if rng.random() < 0.2:
                    observe(ops, tags, ei, g)          # "how many times ... the getters are called"
            if rng.random() < 0.3:
                for c in rng.sample(["ZoomIn", "MoveNext", "MovePrevious", "ZoomOut", "ReadCurrent", "MoveStart", "WhereAmI"], 3):
                    ops.append({"op": "nav_cmd", "cmd": c})
                    tags.append(None)
                if rng.random() < 0.5:
                    g = rng.choice(["speech", "braille", "overview"])
                    observe(ops, tags, ei, g)
            if rng.random() < 0.15:
                ops.append({"op": "yield"})
                tags.append(None)
    return {"ops": ops, "tags": tags}


def observations(script, res):
    """(key, out, info) for every observation of a session."""
    out = []
    ops, tags, rs = script["ops"], script["tags"], res["results"]
    set_hash = None
    for i, t in enumerate(tags):
        if t is None:
            continue
        kind, ei, getter = t
        now_hash = rs[i - 1]["v"] if rs[i - 1]["r"] == "ok" else "?"
        r = rs[i]
        if kind == "set":
            set_hash = now_hash if r["r"] == "ok" else None
            key = S.fp("canon", script["exprs"][ei], now_hash)
            o = S.fp(r["r"], S.norm_out(r["v"]) if r["r"] == "ok" else "")
            out.append((key, o, i))
        elif set_hash is not None:
            key = S.fp(getter, script["exprs"][ei], set_hash, now_hash)
            o = S.fp(r["r"], S.norm_out(r["v"]) if r["r"] in ("ok",) else "")
            out.append((key, o, i))
    return out


def run(tier):
    t0 = time.time()
    wd = C.workdir("c10")
    rng = random.Random(C.seed())
    import rulecache
    m1 = rulecache.model_check(wd, tier, PID)
    corpus = [c["mathml"] for c in mml.corpus() if len(c["mathml"]) < 1500]
    n_expr = 30 if tier == "quick" else 120
    exprs = rng.sample(corpus, n_expr)
    # a few expressions whose tokens are the ones getters are tempted to rewrite in place (numbers with separators, Roman
    # numerals, capitals, chemistry, stacked fractions, intent) - state parked on the live tree shows up on these
    exprs += ["<math><msqrt><mn>0.02</mn></msqrt><mo>+</mo><mn>1,234.5</mn></math>",
              "<math><mi>x</mi><mo>=</mo><mn>III</mn><mo>+</mo><mn>iv</mn></math>",
              "<math><mfrac><mfrac><mn>1</mn><mn>2</mn></mfrac><mfrac><mi>a</mi><mn>3.5</mn></mfrac></mfrac></math>",
              "<math><mrow intent='binomial($n,$k)'><mo>(</mo><mfrac linethickness='0'><mi arg='n'>n</mi><mi arg='k'>k</mi></mfrac><mo>)</mo></mrow></math>",
              "<math><msub><mi mathvariant='normal'>H</mi><mn>2</mn></msub><mi mathvariant='normal'>O</mi><mo>+</mo><mi>CO</mi><mn>2</mn></math>",
              "<math><mi>A</mi><mo>=</mo><mn>3,14</mn><msup><mi>R</mi><mn>2</mn></msup></math>",
              # numbers split at every separator a locale may use: how they fold depends on BlockSeparators / DecimalSeparators
              "<math><mn>1</mn><mo>,</mo><mn>234</mn><mo>+</mo><mn>5</mn></math>", "<math><mn>1</mn><mtext>'</mtext><mn>234</mn><mo>+</mo><mn>5</mn><mo>.</mo><mn>678</mn></math>",
              "<math><mi>x</mi><mo>=</mo><mn>12</mn><mo>.</mo><mn>345</mn><mo>.</mo><mn>678</mn><mo>,</mo><mn>9</mn></math>",
              "<math><mn>1</mn><mtext>&#xA0;</mtext><mn>234</mn><mo>&#x2212;</mo><mn>2</mn><mo>&#x202F;</mo><mn>345</mn><mo>,</mo><mn>6</mn></math>",
              "<math><mn>7'654'321</mn><mo>+</mo><mn>1 234</mn><mo>+</mo><mn>1.234,5</mn></math>"]
    # words that one definitions.yaml lists and another does not (function names, known words, units): a definition table that
    # outlives a language or code switch shows on these, as a function name, with a numeric subscript, spelled letter by letter,
    # and as a unit
    words = S.definition_sensitive_words()
    wsample = rng.sample(words, min(len(words), 24 if tier == "quick" else 160))
    for w in sorted(set(wsample) | {w for w in words if not w.isascii()}):
        shape = rng.randrange(4)
        if shape == 0:
            exprs.append(f"<math><mi>{w}</mi><mi>x</mi><mo>+</mo><mi>{w}</mi><mo>(</mo><mi>y</mi><mo>)</mo></math>")
        elif shape == 1:
            exprs.append(f"<math><msub><mi>{w}</mi><mn>2</mn></msub><mi>x</mi></math>")
        elif shape == 2:
            exprs.append("<math><mi>x</mi><mo>+</mo>" + "".join(f"<mi>{c}</mi>" for c in w) + "<mo>+</mo><mi>y</mi></math>")
        else:
            exprs.append(f"<math><mn>3</mn><mi>{w}</mi><mo>+</mo><mn>2</mn><mi intent=':unit'>{w}</mi></math>")
    cfgs = configs(rng, tier)
    scripts = []
    # M2: histories exported from the cache model
    for hi, h in enumerate(rulecache.model_histories(wd, tier)):
        s = rulecache.concretise_history(h, exprs, random.Random(C.seed() * 31 + hi))
        s["id"] = f"model:{hi}"
        s["exprs"] = s.pop("exprs_ext")
        scripts.append(s)
    n_model = len(scripts)
    n_sessions, n_phases = (64, 14) if tier == "quick" else (640, 30)
    for si in range(n_sessions):
        s = history(random.Random(C.seed() * 1000 + si), cfgs, exprs, n_phases)
        s["id"] = f"random:{si}"
        s["exprs"] = exprs
        scripts.append(s)
    # reference sessions: one fresh session per (configuration, expression) pair sample -> "fresh session" observations
    for ci, cfg in enumerate(cfgs):
        ops = [{"op": "set_rules_dir", "dir": "$RULES"}, {"op": "def_names", "names": S.pref_names()}]
        tags = [None, None]
        apply_cfg(ops, {}, cfg, random.Random(ci))
        tags += [None] * (len(ops) - len(tags))
        for ei in range(len(exprs)):
            ops.append({"op": "prefs_hash"})
            tags.append(None)
            ops.append({"op": "set_mathml", "mathml": exprs[ei]})
            tags.append(("set", ei, "canon"))
            for g in ("speech", "overview", "braille"):
                observe(ops, tags, ei, g)
        scripts.append({"id": f"fresh:{ci}", "ops": ops, "tags": tags, "exprs": exprs})
    results = C.run_mcv([{"id": s["id"], "ops": s["ops"]} for s in scripts], wd, threads=16, timeout_ms=60000)
    obs = []
    for si, (s, r) in enumerate(zip(scripts, results)):
        for key, o, oi in observations(s, r):
            obs.append((key, o, si, oi))
    obs.sort(key=lambda x: (x[0], x[2], x[3]))
    events = [{"key": k, "out": o} for k, o, _, _ in obs]
    rejects, _, tr = C.validate_trace("Trace_Memo", "Trace_Memo.cfg", events, wd, timeout=1800)
    verdict = C.Verdict(PID)
    for idx, reason in rejects:
        key, o, si, oi = obs[idx - 1]
        # the first observation with this key (defines memo)
        j = idx - 1
        while j > 0 and obs[j - 1][0] == key:
            j -= 1
        _, o0, si0, oi0 = obs[j]
        s, s0 = scripts[si], scripts[si0]
        getter = s["tags"][oi][2]
        got = results[si]["results"][oi]
        ref = results[si0]["results"][oi0]
        prefs_now = [o_ for o_ in s["ops"][:oi] if o_["op"] == "set_pref"][-8:]
        text = (f"same key, different output for {getter}: {str(S.norm_out(got['v']))[:160]!r} (session {s['id']}) vs "
                f"{str(S.norm_out(ref['v']))[:160]!r} (session {s0['id']}); last preference settings {[(p['name'], p['value']) for p in prefs_now]}")
        cfgd = {p["name"]: p["value"] for p in [o_ for o_ in s["ops"][:oi] if o_["op"] == "set_pref"]}
        verdict.reject(f"{getter}|{cfgd.get('Language')}|{cfgd.get('BrailleCode')}|{S.fp(s['exprs'][s['tags'][oi][1]])}", text,
                       {"script": s["ops"][:oi + 1], "reference_script": s0["ops"][:oi0 + 1]},
                       text=json.dumps({"getter": getter, "cfg": cfgd, "got": str(got["v"])[:300], "ref": str(ref["v"])[:300]}, ensure_ascii=False))
    inv = S.static_inventory()
    for h in inv:
        verdict.add_drift(f"process-wide mutable static found (sessions may no longer be independent): {h}")
    # cross-subsystem walks judged against the umbrella specification (Session.tla); this property's clauses only
    import sessionwalk
    sw = sessionwalk.stage(PID, wd, tier, verdict)
    # which language's files are in use, as a function of the current Language / LanguageAuto / SpeechStyle (LangSelect.tla)
    import langselect
    sw.update(langselect.stage(wd, tier, verdict))
    rc = verdict.finish(wd)
    keys = {k for k, _, _, _ in obs}
    repeated = len([1 for i in range(1, len(obs)) if obs[i][0] == obs[i - 1][0]])
    C.write_evidence(PID, tier, "model_checking", {
        **sw,
        "states": m1["distinct"], "transitions": m1["states"],
        "traces_validated_against_impl": len(scripts),
        "samples": [{"session": scripts[n_model]["id"], "calls": [o.get("name", o.get("cmd", o["op"])) + ("=" + o["value"] if "value" in o else "")
                                                                   for o in scripts[n_model]["ops"][2:40]]}],
        "evaluations": len(obs), "distinct_nontrivial": len(keys),
        "rule": "observation = one getter result (canonical MathML, speech, overview, braille) with key = (expression, complete "
                "preference read-back when it was set, complete read-back now, getter); sessions = histories exported from RuleCache.tla, "
                "seeded random histories over shipped languages/styles/codes/engines in 16 concurrent threads, and fresh reference "
                "sessions; distinct_nontrivial = distinct keys; a key observed twice with different outputs rejects",
        "exhaustive": False, "keys_observed_more_than_once": repeated, "model_histories_replayed": n_model,
        "model_actions_coverage": {k: v[1] for k, v in m1["coverage"].items()},
        "random_sessions": n_sessions, "threads": 16, "process_wide_mutable_statics": inv,
        "trace_events_rejected": len(rejects),
    }, time.time() - t0, len(verdict.violations),
        ["thread schedules are sampled, not enumerated; independence of sessions rests on the re-derived inventory of statics",
         "get_preference read-back of every known name is the complete preference assignment"])
    return rc


def selftest(tier):
    wd = C.workdir("c10_self")
    ev = [{"key": "a", "out": "1"}, {"key": "a", "out": "1"}, {"key": "b", "out": "2"}, {"key": "b", "out": "3"}]
    rej, _, _ = C.validate_trace("Trace_Memo", "Trace_Memo.cfg", ev, wd)
    if [i for i, _ in rej] != [4]:
        raise C.ToolError(f"selftest: {rej}")
    import langselect
    langselect.selftest(wd)
    C.log("[C10] selftest ok")
    return 0


def replay(path):
    rp = json.load(open(path))["replay"]
    wd = C.workdir("c10_replay")
    res = C.run_mcv([{"id": "a", "ops": rp["script"]}, {"id": "ref", "ops": rp["reference_script"]}], wd, threads=1)
    a, b = res[0]["results"][-1], res[1]["results"][-1]
    C.log(json.dumps(S.norm_out(a["v"]), ensure_ascii=False)[:500])
    C.log(json.dumps(S.norm_out(b["v"]), ensure_ascii=False)[:500])
    return 1 if S.norm_out(a["v"]) != S.norm_out(b["v"]) else 0
