"""C11 - navigation always rests on a node of the current expression.

M1: Nav.tla (TLC, exhaustive for small constants): intended configuration must satisfy all C11 invariants/action
    properties; the deviation configurations (reset keeps markers; pop_stack over-pops) must be refuted by TLC and their
    counterexamples become suspect histories.
M2: behaviours of the model (TLC -simulate with a history variable) and the suspect histories are concretised on real
    corpus expressions and executed through the public API.
M3: Trace_Nav.tla judges every recorded command (also of seeded random walks over the suite's own expressions)."""
import json
import os
import random
import re
import time

import common as C
import mml

PID = "C11"

FALLBACK_COMMANDS = ["MovePrevious", "MoveNext", "MoveStart", "MoveEnd", "MoveLineStart", "MoveLineEnd",
                     "MoveCellPrevious", "MoveCellNext", "MoveCellUp", "MoveCellDown", "MoveColumnStart", "MoveColumnEnd",
                     "ZoomIn", "ZoomOut", "ZoomOutAll", "ZoomInAll", "MoveLastLocation", "ReadPrevious", "ReadNext",
                     "ReadCurrent", "ReadCellCurrent", "ReadStart", "ReadEnd", "ReadLineStart", "ReadLineEnd",
                     "DescribePrevious", "DescribeNext", "DescribeCurrent", "WhereAmI", "WhereAmIAll",
                     "ToggleZoomLockUp", "ToggleZoomLockDown", "ToggleSpeakMode", "Exit"]


def nav_commands():
    """The command vocabulary, harvested from navigate.rs (NAV_COMMANDS phf_set)."""
    try:
        src = open(os.path.join(C.REPO, "src", "navigate.rs"), encoding="utf-8").read()
        m = re.search(r"NAV_COMMANDS[^=]*=\s*phf_set!\s*\{(.*?)\};", src, re.S)
        cmds = re.findall(r'"(\w+)"', m.group(1))
        if len(cmds) > 30:
            return cmds
    except Exception:
        pass
    return FALLBACK_COMMANDS + [f"{p}{i}" for p in ("MoveTo", "Read", "Describe", "SetPlacemarker") for i in range(10)]


def cmd_class(cmd):
    if cmd == "MoveLastLocation":
        return "MoveLastLocation"
    if re.fullmatch(r"MoveTo\d", cmd):
        return "MoveTo"
    if cmd.startswith("Move"):
        return "Move"
    if cmd.startswith("Zoom"):
        return "Zoom"
    if cmd.startswith("SetPlacemarker"):
        return "SetPlacemarker"
    if cmd.startswith("Read"):
        return "Read"
    if cmd.startswith("Describe"):
        return "Describe"
    if cmd.startswith("WhereAmI"):
        return "WhereAmI"
    if cmd == "ToggleSpeakMode":
        return "ToggleSpeak"
    if cmd.startswith("ToggleZoomLock"):
        return "Toggle"
    if cmd == "Exit":
        return "Exit"
    return "Unknown"


def cmd_idx(cmd):
    return int(cmd[-1]) if cmd[-1].isdigit() else 0


OBS = [{"op": "nav_id"}, {"op": "nav_mathml"}, {"op": "nav_state"}]


def session_header(rng, mode=None):
    mode = mode or rng.choice(["Enhanced", "Simple", "Character"])
    prefs = {"NavMode": mode, "Overview": rng.choice(["true", "false"]), "AutoZoomOut": rng.choice(["true", "false"]),
             "NavVerbosity": rng.choice(["Terse", "Medium", "Verbose"]), "Language": "en", "SpeechStyle": rng.choice(["ClearSpeak", "SimpleSpeak"])}
    ops = [{"op": "set_rules_dir", "dir": "$RULES", "setup": True}]
    ops += [{"op": "set_pref", "name": k, "value": v, "setup": True} for k, v in prefs.items()]
    return ops, prefs


def good_corpus():
    return [c["mathml"] for c in mml.corpus() if "<mmultiscripts" not in c["mathml"] or True]


def random_walk(rng, exprs, n_cmds, commands):
    ops, prefs = session_header(rng)
    ops.append({"op": "set_mathml", "mathml": rng.choice(exprs)})
    ops += OBS
    moves = [c for c in commands if cmd_class(c) in ("Move", "Zoom")]
    for i in range(n_cmds):
        x = rng.random()
        if x < 0.50:
            cmd = rng.choice(moves)
        elif x < 0.60:
            cmd = "MoveLastLocation"
        elif x < 0.70:
            cmd = f"SetPlacemarker{rng.randrange(3)}"
        elif x < 0.78:
            cmd = f"MoveTo{rng.randrange(3)}"
        elif x < 0.80:
            ops.append({"op": "set_mathml", "mathml": rng.choice(exprs)})
            ops += OBS
            continue
        elif x < 0.815:
            ops.append({"op": "set_mathml", "mathml": rng.choice(["<math><mi>x</mi>", "not xml at all", "<math><mfrac><mi>x</mi></mfrac></math>"])})
            ops += OBS
            continue
        elif x < 0.84:
            ops.append({"op": "set_nav_node", "id": "${ID:%d}" % rng.randrange(50), "offset": rng.choice([0, 0, 0, 1, 2])})
            ops += OBS
            continue
        elif x < 0.85:
            ops.append({"op": "set_nav_node", "id": rng.choice(["${OLDID:%d}" % rng.randrange(50), "nope"]), "offset": 0})
            ops += OBS
            continue
        elif x < 0.88:
            ops.append({"op": "nav_key", "key": rng.choice([37, 38, 39, 40, 13, 32, 36, 35, 8, 27, 48, 49, 50]), "shift": rng.random() < 0.3,
                        "ctrl": rng.random() < 0.3, "alt": rng.random() < 0.1, "meta": False})
            ops += OBS
            continue
        else:
            cmd = rng.choice(commands + ["Bogus"])
        ops.append({"op": "nav_cmd", "cmd": cmd})
        ops += OBS
    return {"ops": ops, "prefs": prefs}


def undo_sweep(rng, expr, mode, forward=True, steps=14):
    """Systematic Move -> MoveLastLocation -> Move pairs along a traversal of the expression: every step of the traversal
    is undone once (the model's Move;Undo transition exercised at every position the traversal reaches)."""
    ops, prefs = session_header(rng, mode=mode)
    ops.append({"op": "set_mathml", "mathml": expr})
    ops += OBS
    first = ["ZoomInAll"] if forward else ["ZoomInAll", "MoveEnd"]
    for c in first:
        ops.append({"op": "nav_cmd", "cmd": c})
        ops += OBS
    step = "MoveNext" if forward else "MovePrevious"
    for i in range(steps):
        for c in (step, "MoveLastLocation", step):
            ops.append({"op": "nav_cmd", "cmd": c})
            ops += OBS
        if i % 5 == 4:
            for c in ("ZoomOut", "MoveLastLocation", rng.choice(["ZoomIn", "MoveCellNext", "MoveLineStart"]), "MoveLastLocation"):
                ops.append({"op": "nav_cmd", "cmd": c})
                ops += OBS
    return {"ops": ops, "prefs": prefs}


def concretise(hist, rng, exprs, commands):
    """Abstract behaviour of Nav.tla -> script on two real expressions."""
    ops, prefs = session_header(rng)
    emap = {"e1": rng.choice(exprs), "e2": rng.choice(exprs)}
    moves = [c for c in commands if cmd_class(c) == "Move"]
    zooms = [c for c in commands if cmd_class(c) == "Zoom"]
    cur = None
    for a in hist:
        n, arg = a["name"], a["arg"]
        if n == "SetMathML":
            cur = arg
            ops.append({"op": "set_mathml", "mathml": emap[arg]})
        elif cur is None:
            continue
        elif n == "Move":
            ops.append({"op": "nav_cmd", "cmd": rng.choice(moves)})
        elif n == "Zoom":
            ops.append({"op": "nav_cmd", "cmd": rng.choice(zooms)})
        elif n == "MoveTo":
            ops.append({"op": "nav_cmd", "cmd": f"MoveTo{arg}"})
        elif n == "SetPlacemarker":
            ops.append({"op": "nav_cmd", "cmd": f"SetPlacemarker{arg}"})
        elif n == "MoveLastLocation":
            ops.append({"op": "nav_cmd", "cmd": "MoveLastLocation"})
        elif n in ("Read", "Describe", "WhereAmI"):
            ops.append({"op": "nav_cmd", "cmd": rng.choice([c for c in commands if cmd_class(c) == n])})
        elif n == "Toggle":
            ops.append({"op": "nav_cmd", "cmd": "ToggleSpeakMode"})
        elif n == "SetNavNode":
            # abstract node a<i>/b<i>: i-th id of e1/e2; a node of the *other* expression is a stale id
            owner = "e1" if arg.startswith("a") else "e2"
            i = int(arg[1:])
            # spread the abstract node over the real tree
            k = i * 3
            ops.append({"op": "set_nav_node", "id": ("${ID:%d}" if owner == cur else "${OLDID:%d}") % k, "offset": 0})
        else:
            continue
        ops += OBS
    return {"ops": ops, "prefs": prefs}


def suspect_histories(wd):
    """Counterexamples of the deviation configurations of Nav.tla, as action sequences."""
    out = []
    for cfg in ("MC_Nav_asbuilt519.cfg", "MC_Nav_popstack.cfg"):
        r = C.run_tlc("MC_Nav", cfg, wd, workers=4, timeout=300, coverage=False)
        if r["error"]:
            raise C.ToolError(f"TLC error on {cfg}: {r['error']}")
        if not r["violation"]:
            raise C.ToolError(f"deviation configuration {cfg} is not refuted by TLC (model lost its teeth)")
        hist = []
        for m in re.finditer(r'act = \[name \|-> "(\w+)", from \|-> "[^"]*", arg \|-> ("?)([^"\]\s]*)\2\]', r["out"]):
            name, arg = m.group(1), m.group(3)
            if name == "init":
                continue
            hist.append({"name": name if name != "panic" else "Move", "arg": int(arg) if arg.isdigit() else arg})
        # end with a few probes of the resulting state
        hist += [{"name": "Read", "arg": ""}, {"name": "Move", "arg": ""}, {"name": "MoveLastLocation", "arg": ""}]
        out.append((cfg, r["violation"], hist))
    return out


def first_id(xml):
    m = re.search(r"\sid='([^']*)'", xml)
    return m.group(1) if m else ""


KEYTABLE = {}        # filled from Keys.tla by run() / replay()


def project(script, res):
    """Results of one session -> trace events (one per set_mathml / command / set_navigation_node)."""
    ops, rs = script["ops"], res["results"]
    i = 0
    cur_root, before = "", ["", 0]
    events = [{"k": "session", "cls": "", "name": "", "idx": 0, "res": "ok", "nodes": [], "root": "", "before": before,
               "after": before, "want": before, "navOk": 1, "depthP": 0, "depthC": 0, "markers": [], "viaKey": 0}]
    info = [0]
    while i < len(ops):
        op = ops[i]
        if op["op"] in ("set_mathml", "nav_cmd", "set_nav_node", "nav_key") and i + 3 < len(ops) + 0 and ops[i + 1]["op"] == "nav_id":
            r, rid, rml, rst = rs[i], rs[i + 1], rs[i + 2], rs[i + 3]
            e = {"k": "cmd", "cls": "", "name": "", "idx": 0, "res": r["r"], "nodes": [], "root": cur_root, "before": before,
                 "after": ["", 0], "want": ["", 0], "navOk": 0, "depthP": -1, "depthC": -1, "markers": [], "viaKey": 0}
            if rid["r"] == "ok":
                e["after"] = [rid["v"][0], rid["v"][1]]
            if rml["r"] == "ok" and first_id(rml["v"][0]) == e["after"][0] and rml["v"][1] == e["after"][1]:
                e["navOk"] = 1
            if rst["r"] == "ok" and rst["v"]:
                st = rst["v"]
                e["depthP"], e["depthC"] = len(st["pos"]), len(st["cmds"])
                e["markers"] = [m[0] for m in st["markers"]]
            if op["op"] == "set_mathml":
                e["k"] = "set"
                if r["r"] == "ok":
                    t = mml.parse(r["v"], expand=False)
                    e["nodes"] = mml.ids(t) if t else []
                    cur_root = t["a"].get("id", "") if t else ""
                    e["root"] = cur_root
            elif op["op"] == "set_nav_node":
                e["k"] = "setnode"
                # the id actually used is not known to the driver when it is a ${ID:n} pattern: take it from the result
                e["want"] = e["after"] if r["r"] == "ok" else ["", 0]
            elif op["op"] == "nav_key":
                e["cls"], e["name"] = "Key", f"key{op['key']}"
                # the command Keys.tla's table names for this key and these modifiers (refused / "Error" combinations stay "Key")
                ent = KEYTABLE.get((op["key"], op["shift"], op["ctrl"], op["alt"], op["meta"]))
                if ent and ent[0] not in ("bail", "Error"):
                    e["cls"], e["name"], e["idx"], e["viaKey"] = cmd_class(ent[0]), ent[0], cmd_idx(ent[0]), 1
            else:
                e["cls"], e["name"], e["idx"] = cmd_class(op["cmd"]), op["cmd"], cmd_idx(op["cmd"])
            events.append(e)
            info.append(i)
            before = e["after"]
            i += 4
        else:
            i += 1
    return events, info


def run(tier):
    t0 = time.time()
    wd = C.workdir("c11")
    rng = random.Random(C.seed())
    commands = nav_commands()
    # ---- M1
    m1 = C.tlc_model_check("MC_Nav", "MC_Nav_intended.cfg" if tier == "quick" else "MC_Nav_thorough.cfg", wd, workers=8,
                           timeout=900, required_actions=("SetMathML", "Move", "MoveTo", "Undo", "ReadOnly", "SetPlacemarker", "SetNavNode"))
    suspects = suspect_histories(wd)
    import keys
    KEYTABLE.update(keys.model(wd)[1])
    # ---- M2: behaviours of the model
    nsim = 60 if tier == "quick" else 1500
    sim = C.run_tlc("MC_NavSim", "MC_Nav_sim.cfg", wd, workers=1, simulate=nsim, depth=25, seed_=C.seed(), coverage=False, timeout=600)
    if sim["error"] or sim["violation"]:
        raise C.ToolError(f"simulation of Nav failed: {sim['error'] or sim['violation']}")
    behaviours = []
    seen = set()
    for b in C.replay_lines(sim):
        key = json.dumps(b, sort_keys=True)
        if key not in seen:
            seen.add(key)
            behaviours.append(b)
    behaviours = behaviours[:nsim * 4]
    if len(behaviours) < 10:
        raise C.ToolError("model exported too few behaviours")
    exprs = good_corpus()
    small = [e for e in exprs if 80 < len(e) < 1200]
    scripts = []
    for cfg, viol, hist in suspects:
        for k in range(6):
            s = concretise(hist, random.Random(C.seed() * 1000 + k), small, commands)
            s["id"] = f"suspect:{cfg}:{k}"
            s["origin"] = {"kind": "suspect", "cfg": cfg, "violates": viol, "hist": hist}
            scripts.append(s)
    # small scope, exhaustively: EVERY sequence of at most three actions of Nav.tla's alphabet on one expression, then a new
    # expression, then one probe - "a new expression forgets everything tied to the old one" whatever state the old one was left in
    # (a marker set and the stack popped empty, a stale node, an undone move ...)
    import itertools
    alphabet = [{"name": "Move", "arg": ""}, {"name": "Zoom", "arg": ""}, {"name": "MoveLastLocation", "arg": ""}, {"name": "SetPlacemarker", "arg": 0},
                {"name": "MoveTo", "arg": 0}, {"name": "Read", "arg": ""}, {"name": "SetNavNode", "arg": "a1"}]
    probes = [{"name": "MoveTo", "arg": 0}, {"name": "MoveLastLocation", "arg": ""}, {"name": "Move", "arg": ""}, {"name": "Read", "arg": ""}]
    prefixes = [list(p_) for n in range(0, 4) for p_ in itertools.product(alphabet, repeat=n)]
    if tier == "quick":
        short = [p_ for p_ in prefixes if len(p_) <= 2]
        prefixes = short + random.Random(C.seed() * 53).sample([p_ for p_ in prefixes if len(p_) == 3], 120)
    n_scope = 0
    for pi, pre in enumerate(prefixes):
        for qi, probe in enumerate(probes):
            if tier == "quick" and len(pre) == 3 and qi != pi % len(probes):
                continue
            hist = [{"name": "SetMathML", "arg": "e1"}] + pre + [{"name": "SetMathML", "arg": "e2"}, probe, {"name": "Read", "arg": ""}]
            s = concretise(hist, random.Random(C.seed() * 7001 + pi * 4 + qi), small, commands)
            s["id"] = f"scope:{pi}:{qi}"
            s["origin"] = {"kind": "small-scope", "hist": hist}
            scripts.append(s)
            n_scope += 1
    for bi, b in enumerate(behaviours):
        s = concretise(b, rng, small, commands)
        s["id"] = f"model:{bi}"
        s["origin"] = {"kind": "model", "hist": b}
        scripts.append(s)
    nwalks, ncmds = (150, 40) if tier == "quick" else (3000, 80)
    for w in range(nwalks):
        s = random_walk(rng, exprs, ncmds, commands)
        s["id"] = f"walk:{w}"
        s["origin"] = {"kind": "walk"}
        scripts.append(s)
    nsweeps = 60 if tier == "quick" else 800
    for w in range(nsweeps):
        s = undo_sweep(rng, rng.choice(small), ["Enhanced", "Enhanced", "Simple", "Character"][w % 4], forward=(w % 3 != 2))
        s["id"] = f"sweep:{w}"
        s["origin"] = {"kind": "undo-sweep"}
        scripts.append(s)
    results = C.run_mcv(scripts, wd, timeout_ms=30000)
    # ---- M3
    events, back = [], []
    for si, (s, r) in enumerate(zip(scripts, results)):
        evs, info = project(s, r)
        for e, oi in zip(evs, info):
            events.append(e)
            back.append((si, oi))
    rejects, drifts, tr = C.validate_trace("Trace_Nav", "Trace_Nav.cfg", events, wd, timeout=1800)
    verdict = C.Verdict(PID)
    for idx, reason in rejects:
        si, oi = back[idx - 1]
        s = scripts[si]
        e = events[idx - 1]
        # replay = the script up to and including the observation of the rejected command
        rp = {"script": s["ops"][:oi + 4], "prefs": s["prefs"], "origin": s["origin"], "event": e}
        hist_names = [o.get("cmd", o["op"]) for o in s["ops"][:oi + 1] if o["op"] in ("nav_cmd", "set_mathml", "set_nav_node", "nav_key")]
        text = f"{reason}: after {hist_names[-6:]} (mode {s['prefs']['NavMode']}): before={e['before']} after={e['after']} res={e['res']}"
        # key: reason + class sequence of the last commands (so a *different* history is a different violation)
        verdict.reject(f"{reason}|{e['cls']}|{'>'.join(cmd_class(h) if h not in ('set_mathml', 'set_nav_node', 'nav_key') else h for h in hist_names[-3:])}",
                       text, rp, text=json.dumps({"reason": reason, "hist": hist_names, "cls": e["cls"]}))
    for idx, reason in drifts:
        si, oi = back[idx - 1]
        verdict.add_drift(f"{reason} at {scripts[si]['id']} op {oi} ({events[idx - 1]['name'] or events[idx - 1]['k']})")
    # cross-subsystem walks judged against the umbrella specification (Session.tla); this property's clauses only
    import sessionwalk
    sw = sessionwalk.stage(PID, wd, tier, verdict)
    sw.update(keys.stage(PID, wd, tier, verdict))
    # where the commands land, against the landing laws of NavGeom.tla (refinement level only)
    import navgeom
    sw.update(navgeom.stage(scripts, results, wd, verdict))
    rc = verdict.finish(wd)
    moved = sum(1 for e in events if e["k"] == "cmd" and e["after"] != e["before"])
    kinds = {}
    for e in events:
        kinds[e["cls"] or e["k"]] = kinds.get(e["cls"] or e["k"], 0) + 1
    C.write_evidence(PID, tier, "model_checking", {
        **sw,
        "states": m1["distinct"], "transitions": m1["states"],
        "traces_validated_against_impl": len(scripts),
        "samples": [{"id": scripts[0]["id"], "events": [{k: e[k] for k in ("k", "cls", "name", "res", "before", "after", "navOk", "depthP")}
                                                         for e in project(scripts[0], results[0])[0][:8]]},
                    {"id": scripts[-1]["id"], "commands": [o.get("cmd", o["op"]) for o in scripts[-1]["ops"] if o["op"] in ("nav_cmd", "set_mathml")][:25]}],
        "evaluations": len(events), "distinct_nontrivial": moved,
        "rule": "events = public navigation calls (set_mathml, do_navigate_command, do_navigate_keypress, set_navigation_node) recorded "
                "with position before/after, get_navigation_mathml result and the nav_state hook; sessions = TLC-simulated behaviours of "
                "Nav.tla, counterexamples of its deviation configurations, and seeded random walks over the suite's expressions in all three "
                "modes; non-trivial = commands that changed the position",
        "exhaustive": False, "model_actions_coverage": {k: v[1] for k, v in m1["coverage"].items()},
        "suspect_histories": [{"cfg": c, "violates": v, "len": len(h)} for c, v, h in suspects],
        "events_by_class": kinds, "trace_events_rejected": len(rejects), "model_drift": len(drifts),
        "model_behaviours_replayed": len(behaviours), "small_scope_histories": n_scope, "random_walks": nwalks, "undo_sweeps": nsweeps,
    }, time.time() - t0, len(verdict.violations),
        ["where a Move/Zoom command lands is decided by navigate.yaml and is not specified; only 'within the expression'",
         "ids in the returned MathML identify nodes"])
    return rc


def selftest(tier):
    wd = C.workdir("c11_self")
    base = {"k": "cmd", "cls": "Move", "name": "MoveNext", "idx": 0, "res": "ok", "nodes": [], "root": "r", "before": ["r", 0],
            "after": ["a", 0], "want": ["", 0], "navOk": 1, "depthP": 2, "depthC": 2, "markers": [], "viaKey": 0}
    setev = dict(base, k="set", cls="", name="", nodes=["r", "a", "b"], after=["r", 0], depthP=0, depthC=0)
    good = [setev, base, dict(base, cls="Read", name="ReadCurrent", before=["a", 0])]
    rej, _, _ = C.validate_trace("Trace_Nav", "Trace_Nav.cfg", good, wd)
    if rej:
        raise C.ToolError(f"selftest: correct trace rejected: {rej}")
    bad = [setev, dict(base, after=["zz", 0]), dict(base, cls="Read", name="ReadCurrent", before=["a", 0], after=["b", 0])]
    rej, _, _ = C.validate_trace("Trace_Nav", "Trace_Nav.cfg", bad, wd)
    if [i for i, _ in rej] != [2, 3]:
        raise C.ToolError(f"selftest: corrupted trace not rejected as expected: {rej}")
    # a key press classified by the table: a read-only key that moved is drift, a position outside the expression is a rejection
    viakey = [setev, dict(base, cls="Read", name="ReadNext", viaKey=1), dict(base, cls="Read", name="ReadNext", viaKey=1, before=["a", 0], after=["zz", 0])]
    rej, dr, _ = C.validate_trace("Trace_Nav", "Trace_Nav.cfg", viakey, wd)
    if [i for i, _ in rej] != [3] or [i for i, _ in dr] != [2]:
        raise C.ToolError(f"selftest: key-press events not judged as expected: {rej} {dr}")
    import keys
    keys.selftest(wd)
    import navgeom
    navgeom.selftest(wd)
    C.log("[C11] selftest ok")
    return 0


def replay(path):
    rp = json.load(open(path))["replay"]
    wd = C.workdir("c11_replay")
    import keys
    KEYTABLE.update(keys.model(wd)[1])
    s = {"id": "replay", "ops": rp["script"], "prefs": rp.get("prefs", {})}
    res = C.run_mcv([s], wd, threads=1)
    evs, _ = project(s, res[0])
    rejects, drifts, _ = C.validate_trace("Trace_Nav", "Trace_Nav.cfg", evs, wd)
    for e in evs[-4:]:
        C.log(json.dumps(e))
    C.log(f"rejected events: {rejects}")
    return 1 if rejects else 0
