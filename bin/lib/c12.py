"""C12 - preferences read back as set, persist, and bad settings are rejected.

M1: Prefs.tla (TLC): the two typed maps and the dispatch of set_preference; the intended (typed) dispatch satisfies every C12
    invariant/action property, the dispatch of the pinned commit is refuted (panic, unknown names created, wrong kinds accepted).
M2: the name-class x value-class sequences of the model and seeded random sequences over every real preference name and value
    class are executed through set_preference / get_preference, interleaved with set_mathml and getters.
M3: Trace_Prefs.tla judges every call from the complete read-back before and after it."""
import json
import os
import random
import re
import time

import common as C
import session as S

PID = "C12"
NUMERIC = {"Pitch", "Rate", "Volume", "CapitalLetters_Pitch", "MathRate", "PauseFactor"}
EXPR = "<math><mfrac><mrow><mi>x</mi><mo>+</mo><mn>1.5</mn></mrow><mi>B</mi></mfrac><mo>=</mo><msup><mi>y</mi><mn>2</mn></msup></math>"
EXPR2 = "<math><mi>a</mi><mo>&#x2264;</mo><msqrt><mi>b</mi></msqrt></math>"
VALID = {
    "Language": ["en", "es", "en-gb", "fi", "sv", "zh-tw", "Auto", "en-us-nyc", "de"], "LanguageAuto": ["en", "es", "fi"],
    "SpeechStyle": ["ClearSpeak", "SimpleSpeak", "NoSuchStyle"], "Verbosity": ["Terse", "Medium", "Verbose", "xyz"],
    "BrailleCode": ["Nemeth", "UEB", "CMU", "Vietnam", "LaTeX", "ASCIIMath", "Swedish", "NoSuchCode"], "TTS": ["None", "SSML", "SAPI5", "none"],
    "BrailleNavHighlight": ["Off", "FirstChar", "EndPoints", "All"], "DecimalSeparator": ["Auto", ".", ",", "Custom"],
    "CheckRuleFiles": ["None", "Prefs", "All"], "NavMode": ["Enhanced", "Simple", "Character"], "NavVerbosity": ["Terse", "Medium", "Verbose"],
    "IntentErrorRecovery": ["IgnoreIntent", "Error"], "UEB_START_MODE": ["Grade1", "Grade2"], "Impairment": ["Blindness", "LowVision", "LearningDisability"],
    "DecimalSeparators": [".", ","], "BlockSeparators": [", ", ". "], "SpeechOverrides_CapitalLetters": ["", "cap"],
}
GENERIC = ["true", "false", "TRUE", "False", "12.50", "100", "-3", "0", "abc", "", " ", "Auto", "Émile", "a'b", "0x10", "1e2"]
UNKNOWN_NAMES = ["NoSuchPref", "language", "Speech_Style", "", "Braille Code", "pitch", "ClearSpeak", "UEB"]


PERIOD_LANGS = None


def _period_langs():
    """USE_DECIMAL_SEPARATOR of prefs.rs::set_separators (the languages / language-countries that write a decimal point)."""
    src = open(os.path.join(C.REPO, "src", "prefs.rs"), encoding="utf-8").read()
    m = re.search(r"USE_DECIMAL_SEPARATOR: phf::Set<&str> = phf_set! \{(.*?)\};", src, re.S)
    if not m:
        raise C.ToolError("prefs.rs: USE_DECIMAL_SEPARATOR not found")
    return set(re.findall(r'"([^"]+)"', m.group(1)))


def rust_f64(s):
    x = float(s)
    if x == int(x) and abs(x) < 1e15:
        return str(int(x))
    return repr(x)


def vclass(v):
    if v.lower() in ("true", "false"):
        return "bool"
    if re.fullmatch(r"[+-]?(\d+\.?\d*([eE][+-]?\d+)?|\.\d+([eE][+-]?\d+)?)", v):
        return "num"
    return "other"


def lang_ok(v):
    if v == "Auto":
        return 1
    return 1 if len(v.split("-")[0].encode("utf-8")) == 2 else 0


def expect(name, value, kind):
    if name in ("Language", "LanguageAuto") and value != "Auto":
        parts = value.split("-")
        return parts[0] + ("-" + parts[1] if len(parts) > 1 and parts[1] else "")
    if kind == "boolean":
        return value.lower()
    if kind in ("number",) or name in NUMERIC:
        try:
            return rust_f64(value)
        except ValueError:
            return value
    return value


OBS = [{"op": "prefs_all"}, {"op": "prefs_dump"}, {"op": "speech"}, {"op": "braille", "id": ""}]


def make_session(rng, names, n_calls, model_seq=None):
    ops = [{"op": "set_rules_dir", "dir": "$RULES"}, {"op": "def_names", "names": names},
           {"op": "set_mathml", "mathml": EXPR}] + OBS
    calls = []
    classes = {"apiString": ["TTS", "IntentErrorRecovery", "Voice"], "userString": ["SpeechStyle", "Verbosity", "BrailleCode", "NavMode"],
               "apiBool": ["Bookmark", "CapitalLetters_Beep", "CapitalLetters_UseWord"], "userBool": ["Overview", "AutoZoomOut", "LaTeX_UseShortName"],
               "apiNumber": ["Pitch", "Rate", "Volume"], "unknown": UNKNOWN_NAMES}
    vals = {"str1": ["Verbose", "SSML", "UEB"], "str2": ["Terse", "None", "Nemeth"], "true": ["true", "TRUE"], "false": ["false", "False"],
            "12.5": ["12.5", "12.50", "90"], "bad": ["abc", "", "maybe"]}
    for i in range(n_calls):
        if model_seq is not None:
            if i >= len(model_seq):
                break
            a = model_seq[i]
            if a["res"] == "set_mathml":
                calls.append(("setmathml", None, None))
                continue
            name = rng.choice(classes[a["name"]])
            value = rng.choice(vals[a["value"]])
        else:
            x = rng.random()
            if x < 0.08:
                calls.append(("setmathml", None, None))
                continue
            if x > 0.93:
                # navigation writes its own state back into the preferences (NavMode): nothing else may change, and no
                # preference may change its KIND on the way (a boolean stored back as a string accepts anything afterwards)
                calls.append(("nav", rng.choice(["ZoomIn", "MoveNext", "ToggleSpeakMode", "ZoomOut", "ToggleZoomLockUp", "ReadCurrent", "MoveLastLocation"]), None))
                continue
            name = rng.choice(UNKNOWN_NAMES) if x < 0.18 else rng.choice(names)
            pool = VALID.get(name, []) * 3 + GENERIC
            value = rng.choice(pool)
        calls.append(("set", name, value))
    if model_seq is None:
        # preferences whose accepted value recomputes other preferences: the same name set several times in a row, in both orders
        for _ in range(6):
            calls.insert(rng.randrange(len(calls) + 1), ("set", "DecimalSeparator", rng.choice(["Auto", ".", ",", "Custom", ",", "."])))
        for _ in range(3):
            calls.insert(rng.randrange(len(calls) + 1), ("set", "Language", rng.choice(["en", "sv", "de-ch", "es-mx", "Auto", "fi", "es-MX", "de-LI", "EN-gb", "tr-CY"])))
    for k, name, value in calls:
        if k == "setmathml":
            ops.append({"op": "set_mathml", "mathml": rng.choice([EXPR, EXPR2, EXPR])})
        elif k == "nav":
            ops.append({"op": "nav_cmd", "cmd": name})
        else:
            ops.append({"op": "set_pref", "name": name, "value": value})
        ops += OBS
    return {"ops": ops}


def kind_of(dump, name):
    if not dump:
        return "none"
    for m in ("api", "user"):
        if name in dump.get(m, {}):
            t = dump[m][name][0]
            return {"boolean": "boolean", "real": "number", "integer": "number"}.get(t, "string")
    return "none"


def project(script, res):
    global PERIOD_LANGS
    if PERIOD_LANGS is None:
        PERIOD_LANGS = _period_langs()
    names = script["ops"][1]["names"]
    ops, rs = script["ops"], res["results"]
    events, info = [{"k": "session"}], [0]
    prev = None
    first_dump = None
    i = 2
    cur_expr = None
    while i < len(ops):
        op = ops[i]
        if op["op"] in ("set_pref", "set_mathml", "nav_cmd") and i + 4 < len(ops) + 1:
            r = rs[i]
            pa, pd, sp, br = rs[i + 1], rs[i + 2], rs[i + 3], rs[i + 4]
            after = {n: (v if v is not None else "\u0000none") for n, v in (pa["v"] or {}).items()} if pa["r"] == "ok" else None
            snap = {"prefs": after, "dump": pd["v"] if pd["r"] == "ok" else None,
                    "sp": S.fp(sp["r"], S.norm_out(sp["v"]) if sp["r"] == "ok" else ""),
                    "br": S.fp(br["r"], S.norm_out(br["v"]) if br["r"] == "ok" else "")}
            if op["op"] == "set_mathml":
                cur_expr = op["mathml"]
            if prev is not None and prev["prefs"] is not None and after is not None:
                if op["op"] == "set_pref":
                    # the kind a preference HAS is the kind it had when the session started (prefs.yaml / the API defaults)
                    kind = kind_of(first_dump, op["name"]) if kind_of(first_dump, op["name"]) != "none" else kind_of(prev["dump"], op["name"])
                    same_expr = True
                    e = {"k": "set", "name": op["name"], "value": op["value"], "res": r["r"], "kind": kind, "vclass": vclass(op["value"]),
                         "langOk": lang_ok(op["value"]), "expect": expect(op["name"], op["value"], kind),
                         "before": prev["prefs"], "after": after, "spB": prev["sp"], "spA": snap["sp"], "brB": prev["br"], "brA": snap["br"]}
                    lg = str(after.get("Language", "")).lower()
                    e["period"] = 1 if (lg in PERIOD_LANGS or lg.split("-")[0] in PERIOD_LANGS) else 0
                    e["swiss"] = 1 if (lg.split("-") + [""])[1] in ("ch", "li") else 0
                    e["blockPeriod"], e["blockComma"] = ", \u00a0\u202f", ". \u00a0\u202f"
                else:
                    e = {"k": "setmathml" if op["op"] == "set_mathml" else "nav", "name": "", "value": "", "res": r["r"], "kind": "none", "vclass": "other", "langOk": 1, "expect": "",
                         "before": prev["prefs"], "after": after, "spB": "", "spA": "", "brB": "", "brA": ""}
                # a name that is not among the read-back names cannot be looked up in the record: give it a slot
                if e["k"] == "set" and op["name"] not in after:
                    e["after"] = dict(after, **{op["name"]: "\u0000none"})
                    e["before"] = dict(prev["prefs"], **{op["name"]: "\u0000none"})
                events.append(e)
                info.append(i)
            if first_dump is None and snap["dump"]:
                first_dump = snap["dump"]
            prev = snap
            i += 5
        else:
            i += 1
    return events, info


def run(tier):
    t0 = time.time()
    wd = C.workdir("c12")
    rng = random.Random(C.seed())
    m1 = C.tlc_model_check("Prefs", "MC_Prefs_intended.cfg", wd, workers=8, timeout=600, required_actions=("SetPreference", "SetMathML", "Navigate"))
    asb = C.run_tlc("Prefs", "MC_Prefs_asbuilt519.cfg", wd, workers=4, timeout=300, coverage=False)
    # what navigation writes back is stored as a string: harmless for NavMode, not for a boolean preference (refuted by KindsStable)
    wif = C.run_tlc("Prefs", "MC_Prefs_whatif_navbool.cfg", wd, workers=2, timeout=300, coverage=False)
    if wif["violation"] != "KindsStable":
        raise C.ToolError(f"Prefs.tla: a boolean written back by navigation is not refuted by KindsStable ({wif['violation']}, {wif['error']})")
    # the derived number separators (Separators.tla): they follow DecimalSeparator / Language in every order; the guard slip
    # (recompute only when the OLD value is Auto) is refuted
    msep = C.tlc_model_check("Separators", "MC_Separators_intended.cfg", wd, workers=2, timeout=300, coverage=False)
    dsep = C.run_tlc("Separators", "MC_Separators_dev_guard.cfg", wd, workers=2, timeout=300, coverage=False)
    if dsep["violation"] not in ("ExplicitMarkWins", "AutoFollowsLanguage", "LastValueWins"):
        raise C.ToolError(f"Separators.tla: the guard deviation is not refuted by TLC ({dsep['violation']}, {dsep['error']})")
    if asb["error"] or not asb["violation"]:
        raise C.ToolError(f"the as-built dispatch of the pinned commit is not refuted by TLC: {asb['error']}")
    names = S.pref_names()
    scripts = []
    # M2: class sequences of the model (all sequences of length <= 3 over name class x value class, sampled) + suspect history
    name_classes = ["apiString", "userString", "apiBool", "userBool", "apiNumber", "unknown"]
    value_classes = ["str1", "str2", "true", "false", "12.5", "bad"]
    seqs = []
    for n1 in name_classes:
        for v1 in value_classes:
            for v2 in value_classes:
                seqs.append([{"name": n1, "value": v1, "res": ""}, {"name": n1, "value": v2, "res": ""}, {"name": "", "value": "", "res": "set_mathml"},
                             {"name": rng.choice(name_classes), "value": rng.choice(value_classes), "res": ""}])
    if tier == "quick":
        seqs = rng.sample(seqs, 70)
    for si, sq in enumerate(seqs):
        s = make_session(random.Random(C.seed() * 13 + si), names, len(sq), model_seq=sq)
        s["id"] = f"model:{si}"
        scripts.append(s)
    n_sessions, n_calls = (60, 40) if tier == "quick" else (700, 80)
    for si in range(n_sessions):
        s = make_session(random.Random(C.seed() * 977 + si), names, n_calls)
        s["id"] = f"random:{si}"
        scripts.append(s)
    for s in scripts:
        s["isolate_on_panic"] = False
    results = C.run_mcv(scripts, wd, timeout_ms=60000)
    events, back = [], []
    for si, (s, r) in enumerate(zip(scripts, results)):
        evs, info = project(s, r)
        for e, oi in zip(evs, info):
            # pad session marker to the common shape
            if e["k"] == "session":
                e = {"k": "session", "name": "", "value": "", "res": "ok", "kind": "none", "vclass": "other", "langOk": 1, "expect": "",
                     "before": {}, "after": {}, "spB": "", "spA": "", "brB": "", "brA": ""}
            events.append(e)
            back.append((si, oi))
    rejects, _, tr = C.validate_trace("Trace_Prefs", "Trace_Prefs.cfg", events, wd, timeout=1800)
    verdict = C.Verdict(PID)
    for idx, reason in rejects:
        si, oi = back[idx - 1]
        e = events[idx - 1]
        changed = sorted(n for n in e["before"] if e["before"].get(n) != e["after"].get(n))
        if e["k"] in ("nav", "setmathml"):
            o = scripts[si]["ops"][oi]
            text = (f"{reason}: {o['op']}({o.get('cmd') or ''}) -> {e['res']}; preferences changed: "
                    f"{[(n, e['before'].get(n), e['after'].get(n)) for n in changed[:6]]}")
        else:
            text = (f"{reason}: set_preference({e['name']!r}, {e['value']!r}) -> {e['res']} (kind {e['kind']}); read-back "
                    f"{e['after'].get(e['name'])!r}, expected {e['expect']!r}; preferences changed: {changed[:6]}")
        verdict.reject(f"{reason}|{e['name']}|{e['vclass']}|{e['kind']}", text, {"script": scripts[si]["ops"][:oi + 5]},
                       text=json.dumps({"reason": reason, "name": e["name"], "value": e["value"], "kind": e["kind"], "changed": changed}))
    rc = verdict.finish(wd)
    sets = [e for e in events if e["k"] == "set"]
    C.write_evidence(PID, tier, "model_checking", {
        "states": m1["distinct"], "transitions": m1["states"],
        "traces_validated_against_impl": len(scripts),
        "samples": [{k: e[k] for k in ("name", "value", "res", "kind", "vclass", "expect")} for e in sets[:6]],
        "evaluations": len(events), "distinct_nontrivial": len({(e["name"], e["value"]) for e in sets}),
        "rule": "events = set_preference / set_mathml calls with the complete get_preference read-back (all names of prefs.yaml and the "
                "API/user defaults), the stored kind from the prefs hook, and speech/braille fingerprints before and after; names = every "
                "known name + unknown/mis-cased names; values = valid, invalid, wrong type, empty, differently cased; distinct_nontrivial "
                "= distinct (name, value) pairs",
        "exhaustive": False, "results": {r_: sum(1 for e in sets if e["res"] == r_) for r_ in ("ok", "err", "panic")},
        "names_covered": len({e["name"] for e in sets}), "asbuilt_pinned_commit_refuted_by": asb["violation"],
        "model_actions_coverage": {k: v[1] for k, v in m1["coverage"].items()}, "trace_events_rejected": len(rejects),
    }, time.time() - t0, len(verdict.violations),
        ["string-valued preferences accept any string by design (documented file fallback), so no enumeration check is demanded",
         "true/false given to a string preference is unspecified", "no user prefs.yaml (HOME is redirected)"])
    return rc


def selftest(tier):
    wd = C.workdir("c12_self")
    b = {"A": "1", "B": "x"}
    base = {"k": "set", "name": "A", "value": "2", "res": "ok", "kind": "string", "vclass": "num", "langOk": 1, "expect": "2",
            "before": b, "after": {"A": "2", "B": "x"}, "spB": "s", "spA": "s", "brB": "b", "brA": "b", "period": 1, "swiss": 0, "blockPeriod": ", ", "blockComma": ". "}
    bad = dict(base, after={"A": "1", "B": "x"})
    bad2 = dict(base, res="err", after={"A": "2", "B": "x"})
    rej, _, _ = C.validate_trace("Trace_Prefs", "Trace_Prefs.cfg", [base, bad, bad2], wd)
    if [i for i, _ in rej] != [2, 3]:
        raise C.ToolError(f"selftest: {rej}")
    C.log("[C12] selftest ok")
    return 0


def replay(path):
    rp = json.load(open(path))["replay"]
    wd = C.workdir("c12_replay")
    s = {"id": "replay", "ops": rp["script"]}
    res = C.run_mcv([s], wd, threads=1)
    evs, _ = project(s, res[0])
    evs = [e if e["k"] != "session" else {"k": "session", "name": "", "value": "", "res": "ok", "kind": "none", "vclass": "other", "langOk": 1,
                                           "expect": "", "before": {}, "after": {}, "spB": "", "spA": "", "brB": "", "brA": ""} for e in evs]
    rejects, _, _ = C.validate_trace("Trace_Prefs", "Trace_Prefs.cfg", evs, wd)
    C.log(f"rejected: {rejects}")
    return 1 if rejects else 0
