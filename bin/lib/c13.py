"""C13 - speech-engine markup is well formed and never changes the words.

M1: TTS.tla (TLC): the start/end tag tables of every command x engine, nesting of commands around words and pauses, pause
    merging; WellNested / OnlyEngineTags / WordsUnchanged hold for the intended tables, the SAPI5 end tags of the pinned commit
    are refuted.
M2/M3: suite expressions x engine x seeded combinations of Rate, Pitch, Volume, PauseFactor, MathRate, capital-letter pitch/beep
    and Bookmark; the speech is tokenised (trivial lexer) and TLC runs the pushdown automaton of TTS.tla on the tokens, compares
    the characters with the TTS=None speech and checks bookmark names against the ids of the returned MathML (Trace_TTS.tla)."""
import json
import os
import random
import re
import time

import common as C
import mml
import session as S

PID = "C13"
TAG = re.compile(r"""<(/?)([A-Za-z][A-Za-z0-9-]*)((?:\s+[A-Za-z_:][A-Za-z0-9_:.-]*\s*=\s*(?:'[^'<]*'|"[^"<]*"))*)\s*(/?)>""")
EMPTY_MATH = ["<math><mrow/></math>", "<math><mspace width='1em'/></math>", "<math><mphantom><mi>x</mi></mphantom></math>", "<math><mtext>&#xA0;</mtext></math>",
              "<math><mrow><mrow/><mrow/></mrow></math>", "<math><mi>A</mi><mo>+</mo><mi>B</mi><mi>C</mi></math>",
              "<math><mi>NaCl</mi><mo>+</mo><msub><mi>H</mi><mn>2</mn></msub><mi>O</mi></math>", "<math><mtext>a &lt; b &amp; c</mtext></math>"]


ALL_COMMANDS = """
- name: verif-tts-all
  tag: mtext
  match: "text()='ttsall'"
  replace:
  - pitch:
      value: {P}
      replace: [t: "one"]
  - rate:
      value: {R}
      replace: [t: "two"]
  - volume:
      value: {V}
      replace: [t: "three"]
  - gender:
      value: "female"
      replace: [t: "four"]
  - voice:
      value: "Zira"
      replace: [t: "five"]
  - audio:
      value: "beep.mp4"
      replace: [t: "six"]
  - pause: medium
  - spell: "'ab'"
  - pronounce: [{text: "seven"}, {ipa: "s\u025Bv\u0259n"}, {sapi5: "s eh v ax n"}, {eloquence: "sEv@n"}]
  - bookmark: "@id"
  - t: "eight"

- name: verif-tts-nested
  tag: mtext
  match: "text()='ttsnest'"
  replace:
  - pitch:
      value: {P}
      replace:
      - t: "a"
      - rate:
          value: {R}
          replace:
          - voice:
              value: "David"
              replace:
              - gender:
                  value: "male"
                  replace: [t: "b", pause: short, t: "c"]
          - volume:
              value: {V}
              replace: [t: "d", pause: long]
      - t: "e"
"""


def lex(s):
    """speech string -> (tokens, text without tags, malformed flag)."""
    toks, text, pos, bad = [], [], 0, 0
    for m in TAG.finditer(s):
        chunk = s[pos:m.start()]
        if "<" in chunk or ">" in chunk:
            bad = 1
        for w in chunk.split():
            toks.append({"kind": "word", "name": "w"})
        text.append(chunk)
        close, name, attrs, selfc = m.group(1), m.group(2), m.group(3), m.group(4)
        if close and (attrs.strip() or selfc):
            bad = 1
        toks.append({"kind": "close" if close else ("empty" if selfc else "open"), "name": name})
        pos = m.end()
    chunk = s[pos:]
    if "<" in chunk or ">" in chunk:
        bad = 1
    for w in chunk.split():
        toks.append({"kind": "word", "name": "w"})
    text.append(chunk)
    return toks, "".join(text), bad


# expressions that make the rules use each preference-driven command (capital letters: pitch / beep / word; long expressions: pauses)
FEATURES = ["<math><mi>B</mi><mo>+</mo><mi>c</mi></math>", "<math><mi>Δ</mi><mi>X</mi><mo>=</mo><mi mathvariant='bold'>R</mi></math>", "<math><mi>Б</mi><mo>-</mo><mi>ABC</mi></math>",
            "<math><mfrac><mrow><mi>A</mi><mo>+</mo><mn>1</mn></mrow><mrow><mi>b</mi><mo>-</mo><mi>C</mi></mrow></mfrac><mo>=</mo><msqrt><mi>D</mi></msqrt></math>"]


def squeeze(text):
    return [ord(c) for c in re.sub(r"[\s,;]", "", text)]


# the numeric preferences at the points where the engines' unit conversions change behaviour (SAPI5 rounds a relative pitch to whole
# steps and takes a logarithm of the rate; SSML passes the number through): zero, the smallest values either side of it, values
# with a fraction, ordinary values, the ends of the documented ranges
DOMAINS = {"Rate": ["80", "180", "400", "100", "30", "181.5"], "Pitch": ["0", "20", "-20", "1", "-1", "0.5", "100", "-60", "12.5"], "Volume": ["50", "100", "0", "1", "33.3"],
           "PauseFactor": ["0", "100", "300", "1", "50.5"], "MathRate": ["100", "150", "60", "101", "99.5", "300"],
           "CapitalLetters_Pitch": ["0", "20", "-15", "1", "-1", "0.5", "1.25", "100", "-60"]}


def config(rng, ci=None):
    """ci: the index of the configuration - every value of every numeric preference is used by some configuration of a run (the
    domains are walked through in a seeded order), the remaining preferences are drawn."""
    cfg = {}
    for k, dom in DOMAINS.items():
        order = list(dom)
        random.Random(f"{C.seed()}|{k}").shuffle(order)
        cfg[k] = order[ci % len(order)] if ci is not None else rng.choice(dom)
    cfg.update({"CapitalLetters_Beep": rng.choice(["true", "false"]),
                "CapitalLetters_UseWord": rng.choice(["true", "false"]), "Bookmark": rng.choice(["true", "false"]),
                "SpeechStyle": rng.choice(["ClearSpeak", "SimpleSpeak"]), "Verbosity": rng.choice(["Terse", "Medium", "Verbose"]),
                "Language": rng.choice(["en", "en", "es", "fi", "sv"]),
                # the engine's voice selection tags (SAPI5 <voice required=...>, SSML <voice name=...>)
                "Gender": rng.choice(["none", "none", "male", "female"]), "Voice": rng.choice(["none", "none", "Zira", "Microsoft David"])})
    return cfg


def run(tier):
    t0 = time.time()
    wd = C.workdir("c13")
    rng = random.Random(C.seed())
    m1 = C.tlc_model_check("TTS", "MC_TTS_intended.cfg", wd, workers=4, timeout=300, coverage=False)
    asb = C.run_tlc("TTS", "MC_TTS_asbuilt519.cfg", wd, workers=2, timeout=300, coverage=False)
    if asb["error"] and not asb["violation"]:
        raise C.ToolError(f"TTS.tla as-built: {asb['error']}")
    if not asb["violation"]:
        raise C.ToolError("the SAPI5 end tags of the pinned commit are not refuted by TLC")
    corpus = [c["mathml"] for c in mml.corpus() if len(c["mathml"]) < 2500]
    n_cfg, n_expr = (12, 70) if tier == "quick" else (60, 400)
    scripts = []
    for ci in range(n_cfg):
        cfg = config(rng, ci)
        exprs = rng.sample(corpus, n_expr) + EMPTY_MATH + FEATURES
        ops = [{"op": "set_rules_dir", "dir": "$RULES"}] + [{"op": "set_pref", "name": k, "value": v} for k, v in cfg.items()]
        tags = [None] * len(ops)
        for e in exprs:
            ops.append({"op": "set_mathml", "mathml": e})
            tags.append(("set", e))
            for eng in ("None", "SSML", "SAPI5"):
                ops.append({"op": "set_pref", "name": "TTS", "value": eng})
                tags.append(None)
                ops.append({"op": "speech"})
                tags.append(("speech", eng))
                if tier == "thorough" or rng.random() < 0.3:
                    ops.append({"op": "overview"})
                    tags.append(("overview", eng))
        scripts.append({"id": f"cfg{ci}", "ops": ops, "tags": tags, "cfg": cfg, "isolate_on_panic": True})
    # every speech-engine command a rule can use (pitch, rate, volume, gender, voice, audio, pause, spell, pronounce, bookmark), alone
    # and nested: the shipped rules use only some of them, so two rules are added to a private copy of the English rules
    orig = open(os.path.join(C.REPO, "Rules", "Languages", "en", "ClearSpeak_Rules.yaml"), encoding="utf-8").read()
    at = orig.index("\n- name:")
    for vi, (pv, rv, vv) in enumerate([(20, 150, 50), (-15, 60, 100), (0, 100, 0)] if tier == "thorough" else [(20, 150, 50)]):
        extra = ALL_COMMANDS.replace("{P}", str(pv)).replace("{R}", str(rv)).replace("{V}", str(vv))
        ops = [{"op": "fs_clone_rules"}, {"op": "fs_write", "path": "$RULES/Languages/en/ClearSpeak_Rules.yaml", "content": orig[:at] + extra + orig[at:]},
               {"op": "set_rules_dir", "dir": "$RULES"}, {"op": "set_pref", "name": "Bookmark", "value": "true" if vi % 2 == 0 else "false"},
               {"op": "set_pref", "name": "SpeechStyle", "value": "ClearSpeak"}]
        tags = [None] * len(ops)
        nhead = len(ops)
        for e in ["<math><mtext>ttsall</mtext></math>", "<math><mtext>ttsnest</mtext></math>", "<math><mtext>ttsall</mtext><mo>+</mo><mfrac><mtext>ttsnest</mtext><mtext>ttsall</mtext></mfrac></math>",
                  "<math><msqrt><mtext>ttsnest</mtext></msqrt><mo>=</mo><mtext>ttsall</mtext></math>"]:
            ops.append({"op": "set_mathml", "mathml": e})
            tags.append(("set", e))
            for eng in ("None", "SSML", "SAPI5"):
                ops.append({"op": "set_pref", "name": "TTS", "value": eng})
                tags.append(None)
                ops.append({"op": "speech"})
                tags.append(("speech", eng))
                ops.append({"op": "overview"})
                tags.append(("overview", eng))
        scripts.append({"id": f"all-commands{vi}", "ops": ops, "tags": tags, "cfg": {"rules": "every engine command, alone and nested", "values": [pv, rv, vv]}, "nhead": nhead,
                        "isolate_on_panic": True})
    # author ids with the characters that must be escaped in an attribute: a bookmark names the id, in well-formed markup
    ops = [{"op": "set_rules_dir", "dir": "$RULES"}, {"op": "set_pref", "name": "Bookmark", "value": "true"}]
    tags = [None, None]
    for e in ["<math><mi id=\"a'b\">x</mi><mo>+</mo><mi id='c&amp;d'>y</mi><mo>+</mo><mi id='p&quot;q'>z</mi></math>",
              "<math><mfrac id='n&gt;1'><mi id='e&lt;f'>a</mi><mn id=\"it's\">2</mn></mfrac></math>"]:
        ops.append({"op": "set_mathml", "mathml": e})
        tags.append(("set", e))
        for eng in ("None", "SSML", "SAPI5"):
            ops += [{"op": "set_pref", "name": "TTS", "value": eng}, {"op": "speech"}, {"op": "overview"}]
            tags += [None, ("speech", eng), ("overview", eng)]
    scripts.append({"id": "ids-to-escape", "ops": ops, "tags": tags, "cfg": {"ids": "author ids with ' & < > \""}, "isolate_on_panic": True})
    results = C.run_mcv([{"id": s["id"], "ops": s["ops"], "isolate_on_panic": True} for s in scripts], wd, timeout_ms=60000)
    events, back = [], []
    skipped = 0
    for si, (s, r) in enumerate(zip(scripts, results)):
        ids, plain = [], {}
        for oi, (t, rr) in enumerate(zip(s["tags"], r["results"])):
            if t is None:
                continue
            if t[0] == "set":
                tr = mml.parse(rr["v"], expand=False) if rr["r"] == "ok" else None
                ids = mml.ids(tr) if tr else None
                plain = {}
                cur_expr = t[1]
                continue
            if ids is None or rr["r"] != "ok":
                skipped += 1
                continue            # no speech at all is C05's / C15's business
            getter, eng = t
            toks, text, bad = lex(rr["v"])
            if eng == "None":
                plain[getter] = squeeze(rr["v"])
                events.append({"engine": "None", "toks": [], "chars": [], "plainChars": [], "marks": [], "ids": [], "malformed": 0,
                               "hasMarkup": 1 if ("<" in rr["v"] or ">" in rr["v"]) and not re.search(r"&lt;|&gt;|&#x3[CcEe];|&#6[02];", cur_expr) else 0})
                back.append((si, oi))
                continue
            if getter not in plain:
                continue
            import html
            marks = [html.unescape(a_ or b_) for a_, b_ in re.findall(r"<(?:mark name|bookmark mark)=(?:'([^']*)'|\"([^\"]*)\")", rr["v"])]
            if re.search(r"=\s*=", "".join(m.group(0) for m in TAG.finditer(rr["v"]))) or re.search(r"<[^>]*==[^>]*>", rr["v"]):
                bad = 1
            if bad == 1 and re.search(r"&lt;|&gt;|&#x3[CcEe];|&#6[02];", cur_expr) and TAG.sub("", rr["v"]).count("<") + TAG.sub("", rr["v"]).count(">") > 0 \
                    and not re.search(r"<[^>]*==[^>]*>", rr["v"]):
                bad = 2        # an angle bracket of the expression's own text passed through unescaped
            events.append({"engine": eng, "toks": toks, "chars": squeeze(text), "plainChars": plain[getter], "marks": marks, "ids": ids,
                           "malformed": bad, "hasMarkup": 0})
            back.append((si, oi))
    rejects, _, _ = C.validate_trace("Trace_TTS", "Trace_TTS.cfg", events, wd, timeout=1800, heap="8g")
    verdict = C.Verdict(PID)
    for idx, reason in rejects:
        si, oi = back[idx - 1]
        s = scripts[si]
        rr = results[si]["results"][oi]
        e = events[idx - 1]
        expr = [t for t in s["tags"][:oi] if t and t[0] == "set"][-1][1]
        bad_tags = sorted({t["name"] for t in e["toks"] if t["kind"] != "word"})
        text = (f"{reason}: TTS={e['engine']} {s['tags'][oi][0]} -> {rr['v'][:300]!r}; preferences {s['cfg']}; expression {expr[:200]}")
        sig = re.sub(r"['\"][^'\"]*['\"]", "''", " ".join(m.group(0) for m in TAG.finditer(rr["v"])))[:0]
        verdict.reject(f"{reason}|{e['engine']}|{','.join(bad_tags)}|{S.fp(expr)}", text,
                       {"script": [o for o in s["ops"][:s.get("nhead", len(s['cfg']) + 1)]] + [{"op": "set_mathml", "mathml": expr}, {"op": "set_pref", "name": "TTS", "value": e["engine"]}, {"op": s["ops"][oi]["op"]}]},
                       text=json.dumps({"reason": reason, "engine": e["engine"], "tags": bad_tags, "speech": rr["v"][:400], "cfg": s["cfg"]}, ensure_ascii=False))
    rc = verdict.finish(wd)
    tagged = [e for e in events if e["engine"] != "None"]
    C.write_evidence(PID, tier, "model_checking", {
        "states": m1["distinct"], "transitions": m1["states"],
        "traces_validated_against_impl": len(events),
        "samples": [{"engine": e["engine"], "tags": [t["kind"][0] + ":" + t["name"] for t in e["toks"] if t["kind"] != "word"][:12]} for e in tagged[:3]],
        "evaluations": len(events), "distinct_nontrivial": len({json.dumps([t for t in e["toks"] if t["kind"] != "word"]) for e in tagged}),
        "rule": "speech and overview of suite expressions (plus expressions that speak as nothing) under seeded combinations of engine, Rate, "
                "Pitch, Volume, PauseFactor, MathRate, capital-letter pitch/beep/word, Bookmark, style, verbosity and language; "
                "distinct_nontrivial = distinct tag sequences observed",
        "exhaustive": False, "configurations": n_cfg, "getter_calls_without_speech": skipped,
        "tag_names_seen": sorted({t["name"] for e in tagged for t in e["toks"] if t["kind"] != "word"}),
        "asbuilt_pinned_commit_refuted_by": asb["violation"], "trace_events_rejected": len(rejects),
    }, time.time() - t0, len(verdict.violations),
        ["the lexer is the projection: a tag is <name attr='v' ...>, </name> or <name .../>; anything else containing '<' is malformed",
         "characters are compared (not words): engines and None differ in spacing around concatenations; pause punctuation ,; is removed on both sides"])
    return rc


def selftest(tier):
    wd = C.workdir("c13_self")
    toks, text, bad = lex("<prosody rate='150%'> x <break time='10ms'/> y</prosody>")
    good = {"engine": "SSML", "toks": toks, "chars": squeeze(text), "plainChars": squeeze("x, y"), "marks": [], "ids": [], "malformed": bad, "hasMarkup": 0}
    toks2, text2, bad2 = lex("<pitch middle=\"3\"> x </prosody>")
    bad_ev = {"engine": "SAPI5", "toks": toks2, "chars": squeeze(text2), "plainChars": squeeze("x"), "marks": [], "ids": [], "malformed": bad2, "hasMarkup": 0}
    toks3, text3, bad3 = lex("x <silence msec=='5ms'/> y")
    bad_ev2 = {"engine": "SAPI5", "toks": toks3, "chars": squeeze(text3), "plainChars": squeeze("x y"), "marks": [], "ids": [], "malformed": bad3, "hasMarkup": 0}
    rej, _, _ = C.validate_trace("Trace_TTS", "Trace_TTS.cfg", [good, bad_ev, bad_ev2], wd)
    if [i for i, _ in rej] != [2, 3]:
        raise C.ToolError(f"selftest: {rej}")
    C.log("[C13] selftest ok")
    return 0


def replay(path):
    rp = json.load(open(path))["replay"]
    wd = C.workdir("c13_replay")
    res = C.run_mcv([{"id": "replay", "ops": rp["script"]}], wd, threads=1)
    C.log(str(res[0]["results"][-1])[:800])
    return 0
