"""C14 - broken rule files give errors, not crashes, and recovery is complete.

M1: RuleCache.tla with the environment actions Damage / Repair (TLC): with the intended reload logic every answer given after
    repair under CheckRuleFiles=All is computed from fresh tables; the as-built deviation (full-Unicode check with its
    inverted flag) is refuted and its counterexample is a suspect history.
M2: fault sequences: every rule file reachable from a configuration (harvested through the file-read hook) x fault shape x
    {damage before the first load, damage after the tables are warm} x recovery by {CheckRuleFiles=All, re-pointing the rules
    directory} on a private copy of Rules/ with explicit modification times.
M3: Trace_Faults.tla (no crash; loader errors name the file; no failure after repair) and Trace_Memo.tla (post-repair outputs
    identical to pre-fault / reference outputs)."""
import json
import os
import random
import re
import time

import common as C
import session as S

PID = "C14"
T0 = 1_500_000_000
EXPR = ("<math><mi>x</mi><mo>∈</mo><mi>ℵ</mi><mo>+</mo><mn>12</mn><mi>sin</mi><mi>y</mi><mo>⨁</mo><mfrac><mn>1</mn><mn>2</mn></mfrac>"
        "<mo>=</mo><msup><mi>B</mi><mn>2</mn></msup></math>")
CALLS = [("set_mathml", {"op": "set_mathml", "mathml": EXPR}), ("speech", {"op": "speech"}), ("overview", {"op": "overview"}),
         ("braille", {"op": "braille", "id": ""}), ("nav:ZoomIn", {"op": "nav_cmd", "cmd": "ZoomIn"}),
         ("nav:MoveNext", {"op": "nav_cmd", "cmd": "MoveNext"}), ("get_pref", {"op": "get_pref", "name": "Language"})]
CONFIGS = [{"Language": "en", "SpeechStyle": "ClearSpeak", "BrailleCode": "Nemeth"},
           {"Language": "es", "SpeechStyle": "SimpleSpeak", "BrailleCode": "UEB"},
           {"Language": "en-gb", "SpeechStyle": "ClearSpeak", "BrailleCode": "CMU"}]
# truncated: cut at a seeded item boundary; -early / -late: after the first item / before the last one (a file that is still well
# formed and only misses rules or definitions: the error, if any, comes later and from somewhere else - 5a238b4, b992cc4)
SHAPES = ["deleted", "empty", "truncated", "truncated-early", "truncated-late", "scalar", "wrongtype", "badxpath", "unknownkey"]


def damaged_content(rel, text, shape, rng):
    """New content of a file for a fault shape (None = delete)."""
    base = os.path.basename(rel)
    is_prefs = base == "prefs.yaml"
    if shape == "deleted":
        return None
    if shape == "empty":
        return ""
    if shape == "scalar":
        return "just a string\n"
    if shape == "wrongtype":
        return "- a\n- b\n" if is_prefs else "key: value\nother: 3\n"
    if shape.startswith("truncated"):
        lines = text.splitlines(keepends=True)
        if is_prefs:
            starts = [i for i, l in enumerate(lines) if re.match(r"^[A-Za-z]", l)]
        else:
            # top-level items of the YAML list: the least indented "- " lines
            cand = [(len(l) - len(l.lstrip()), i) for i, l in enumerate(lines) if l.lstrip().startswith("- ")]
            if not cand:
                return text[: len(text) // 2]
            ind = min(c[0] for c in cand)
            starts = [i for n, i in cand if n == ind]
        if len(starts) < 3:
            return text[: len(text) // 2]
        cut = starts[1] if shape == "truncated-early" else starts[-1] if shape == "truncated-late" else starts[rng.randrange(1, len(starts) - 1)]
        return "".join(lines[:cut])
    if shape == "badxpath":
        if "unicode" in base:
            return text + '\n - "\\uE123": [x: "((("]\n'
        if base in ("definitions.yaml", "prefs.yaml"):
            return text + "\n- [unbalanced\n"
        return text + '\n- name: verif-bad-xpath\n  tag: mi\n  match: "((("\n  replace: [t: "x"]\n'
    if shape == "unknownkey":
        if "unicode" in base:
            return text + '\n - "\\uE124": [bogus_key: "x"]\n'
        if base == "definitions.yaml":
            return text + "\n- NumbersOnes: 7\n"          # a known key of the wrong shape
        if base == "prefs.yaml":
            return text + "\nBogusSection:\n  X: 1\n"
        return text + '\n- name: verif-unknown-key\n  tag: mi\n  match: "."\n  bogus_key: 1\n  replace: [t: "x"]\n'
    raise ValueError(shape)


def header(cfg, mode):
    ops = [{"op": "fs_clone_rules"}, {"op": "fs_mtime_all", "path": "$RULES", "secs": T0},
           {"op": "set_rules_dir", "dir": "$RULES"}, {"op": "set_pref", "name": "CheckRuleFiles", "value": mode}]
    for k, v in cfg.items():
        ops.append({"op": "set_pref", "name": k, "value": v})
    ops.append({"op": "events_on"})
    ops.append({"op": "drain"})
    return ops


def calls(ops, tags, phase):
    for name, op in CALLS:
        ops.append(dict(op))
        tags.append((phase, name))
        ops.append({"op": "drain"})
        tags.append(None)


def reachable_files(wd):
    """Files each configuration reads (through the file-read hook), relative to the rules directory."""
    scripts = []
    for cfg in CONFIGS:
        ops = header(cfg, "Prefs")
        tags = [None] * len(ops)
        calls(ops, tags, "probe")
        scripts.append({"id": "probe", "ops": ops})
    res = C.run_mcv(scripts, wd, name="probe", threads=3)
    out = []
    for cfg, s, r in zip(CONFIGS, scripts, res):
        root = r["results"][0]["v"]
        files = set()
        for op, rr in zip(s["ops"], r["results"]):
            if op["op"] == "drain" and rr["r"] == "ok":
                for ev in rr["v"]:
                    if ev.get("ev") == "file_read":
                        p = os.path.realpath(ev["path"])
                        rp = os.path.realpath(root)
                        if p.startswith(rp):
                            files.add(os.path.relpath(p, rp))
        files.add("prefs.yaml")
        out.append(sorted(files))
    return out


def initial_fault_script(cfg, mode, rel, shape, rng):
    """The file is already damaged when the rules directory is set for the first time (or the directory itself is wrong);
    recovery is by repairing and re-pointing."""
    ops = [{"op": "fs_clone_rules"}, {"op": "fs_mtime_all", "path": "$RULES", "secs": T0}, {"op": "events_on"}]
    tags = [None] * 3
    if rel == "<wrongdir>":
        bad = {"deleted": "/nonexistent/rules/dir", "empty": "/verif/work/home", "scalar": "$RULES/prefs.yaml"}.get(shape, "$RULES/Languages")
        ops.append({"op": "set_rules_dir", "dir": bad})
        tags.append(("fault", "set_rules_dir"))
        orig = None
    else:
        orig = open(os.path.join(C.REPO, "Rules", rel), encoding="utf-8").read()
        newc = damaged_content(rel, orig, shape, rng)
        path = "$RULES/" + rel
        ops.append({"op": "fs_delete", "path": path} if newc is None else {"op": "fs_write", "path": path, "content": newc})
        tags.append(None)
        ops.append({"op": "set_rules_dir", "dir": "$RULES"})
        tags.append(("fault", "set_rules_dir"))
    ops.append({"op": "drain"})
    tags.append(None)
    for k, v in [("CheckRuleFiles", mode)] + list(cfg.items()):
        ops.append({"op": "set_pref", "name": k, "value": v})
        tags.append(None)
    calls(ops, tags, "fault")
    calls(ops, tags, "fault")
    if orig is not None:
        ops.append({"op": "fs_write", "path": "$RULES/" + rel, "content": orig})
        ops.append({"op": "fs_mtime", "path": "$RULES/" + rel, "secs": T0 + 200})
        tags += [None, None]
    ops.append({"op": "set_rules_dir", "dir": "$RULES"})
    tags.append(("post", "set_rules_dir"))
    for k, v in [("CheckRuleFiles", mode)] + list(cfg.items()):
        ops.append({"op": "set_pref", "name": k, "value": v})
        tags.append(("post", "set_pref:" + k))
    calls(ops, tags, "post")
    return {"ops": ops, "tags": tags, "cfg": cfg, "mode": mode, "rel": rel if orig is not None else "", "shape": shape, "warm": False, "initial": True}


def fault_script(cfg, mode, rel, shape, warm, rng):
    orig = open(os.path.join(C.REPO, "Rules", rel), encoding="utf-8").read()
    new = damaged_content(rel, orig, shape, rng)
    ops = header(cfg, mode)
    tags = [None] * len(ops)
    if warm:
        calls(ops, tags, "pre")
    path = "$RULES/" + rel
    ops.append({"op": "fs_delete", "path": path} if new is None else {"op": "fs_write", "path": path, "content": new})
    tags.append(None)
    if new is not None:
        ops.append({"op": "fs_mtime", "path": path, "secs": T0 + 100})
        tags.append(None)
    if warm and mode == "Prefs":
        # time stamps are ignored: make the library look at the files again by going away and back
        away = "es" if cfg["Language"].startswith("en") else "en"
        ops += [{"op": "set_pref", "name": "Language", "value": away}, {"op": "speech"}, {"op": "drain"},
                {"op": "set_pref", "name": "BrailleCode", "value": "UEB" if cfg["BrailleCode"] != "UEB" else "Nemeth"}, {"op": "braille", "id": ""},
                {"op": "drain"}, {"op": "set_pref", "name": "Language", "value": cfg["Language"]},
                {"op": "set_pref", "name": "BrailleCode", "value": cfg["BrailleCode"]}]
        tags += [None] * 8
    calls(ops, tags, "fault")
    calls(ops, tags, "fault")          # a second round: errors must be repeated, not turn into crashes
    ops.append({"op": "fs_write", "path": path, "content": orig})
    ops.append({"op": "fs_mtime", "path": path, "secs": T0 + 200})
    tags += [None, None]
    if mode == "Prefs":
        ops.append({"op": "set_rules_dir", "dir": "$RULES"})
        tags.append(("post", "set_rules_dir"))
        for k, v in [("CheckRuleFiles", mode)] + list(cfg.items()):
            ops.append({"op": "set_pref", "name": k, "value": v})
            tags.append(None)
    calls(ops, tags, "post")
    return {"ops": ops, "tags": tags, "cfg": cfg, "mode": mode, "rel": rel, "shape": shape, "warm": warm}


def run(tier):
    t0 = time.time()
    wd = C.workdir("c14")
    rng = random.Random(C.seed())
    import rulecache
    m1 = rulecache.model_check(wd, tier, PID)
    # each deviation of the pinned commit must be refuted by TLC on its own (the model keeps its teeth)
    refuted = {}
    for dev in (("flag", "repoint") if tier == "quick" else ("flag", "repoint", "record")):
        asb = C.run_tlc("RuleCache", f"MC_RuleCache_c14_dev_{dev}.cfg", wd, workers=8, timeout=900, coverage=False)
        if asb["error"] or not asb["violation"]:
            raise C.ToolError(f"deviation configuration '{dev}' of RuleCache.tla is not refuted by TLC: {asb['error']}")
        refuted[dev] = asb["violation"]
    asb = {"violation": refuted}
    files = reachable_files(wd)
    cases = []
    for ci, cfg in enumerate(CONFIGS):
        for rel in files[ci]:
            for shape in SHAPES:
                for mode in ("All", "Prefs"):
                    for warm in (False, True):
                        cases.append((ci, rel, shape, mode, warm))
    if tier == "quick":
        # every file of the first configuration once with a seeded shape/mode/warmth, plus a seeded sample of the rest
        first = []
        for rel in files[0]:
            first.append((0, rel, rng.choice(SHAPES), rng.choice(["All", "Prefs"]), rng.random() < 0.5))
        # the suspect history of the model: full Unicode table damaged (truncated), repaired, file checking on
        for rel in files[0]:
            if rel.endswith("unicode-full.yaml"):
                first.append((0, rel, "truncated", "All", True))
        # files that are only reached through an 'include:' (the shared definitions, the SharedRules): who records them for the
        # up-to-date test is easy to get wrong; with file checking on, a fault after a warm load and a loadable fault repaired by time
        for rel in files[0]:
            if rel in ("definitions.yaml", "Braille/definitions.yaml") or "SharedRules" in rel or rel.startswith("Intent/"):
                first.append((0, rel, "scalar", "All", True))
                first.append((0, rel, "truncated", "All", False))
        # every file cut after its first item (well formed, nearly everything missing), with file checking on
        for rel in files[0]:
            first.append((0, rel, "truncated-early", "All", False))
        # preferences set through the API and a fault in prefs.yaml (a configuration whose language is not the file's)
        for shape in ("deleted", "truncated"):
            first.append((1, "prefs.yaml", shape, "All", False))
        cases = first + rng.sample(cases, 40)
    scripts = []
    # reference sessions (no fault) for each configuration and mode
    for ci, cfg in enumerate(CONFIGS):
        for mode in ("All", "Prefs"):
            ops = header(cfg, mode)
            tags = [None] * len(ops)
            calls(ops, tags, "ref")
            scripts.append({"ops": ops, "tags": tags, "cfg": cfg, "mode": mode, "rel": "", "shape": "none", "warm": False, "id": f"ref:{ci}:{mode}"})
    for k, (ci, rel, shape, mode, warm) in enumerate(cases):
        s = fault_script(CONFIGS[ci], mode, rel, shape, warm, random.Random(C.seed() * 7 + k))
        s["id"] = f"fault:{ci}:{rel}:{shape}:{mode}:{'warm' if warm else 'cold'}"
        scripts.append(s)
    # faults present when the rules directory is set for the first time, and wrong rules directories
    init_cases = [(ci, rel, shape, mode) for ci in range(len(CONFIGS)) for rel in ("prefs.yaml", "definitions.yaml", "intent.yaml", "<wrongdir>")
                  for shape in (SHAPES if rel != "<wrongdir>" else ["deleted", "empty", "scalar", "wrongtype"]) for mode in ("All", "Prefs")]
    if tier == "quick":
        init_cases = [c for c in init_cases if c[0] == 0 and c[3] == "Prefs" and c[2] in ("deleted", "empty", "truncated", "scalar")]
    for k, (ci, rel, shape, mode) in enumerate(init_cases):
        s = initial_fault_script(CONFIGS[ci], mode, rel, shape, random.Random(C.seed() * 3 + k))
        s["id"] = f"initial:{ci}:{rel}:{shape}:{mode}"
        scripts.append(s)
    results = C.run_mcv([{"id": s["id"], "ops": s["ops"]} for s in scripts], wd, timeout_ms=60000, threads=12)
    events, back, memo = [], [], []
    for si, (s, r) in enumerate(zip(scripts, results)):
        root = os.path.realpath(r["results"][0]["v"]) if r["results"][0]["r"] == "ok" else ""
        damaged = os.path.join(root, s["rel"]) if s["rel"] else None
        for oi, (op, tag, rr) in enumerate(zip(s["ops"], s["tags"], r["results"])):
            if tag is None:
                continue
            phase, call = tag
            reads = []
            if oi + 1 < len(s["ops"]) and s["ops"][oi + 1]["op"] == "drain" and r["results"][oi + 1]["r"] == "ok":
                reads = [os.path.realpath(e["path"]) for e in r["results"][oi + 1]["v"] if e.get("ev") == "file_read"]
            msg = rr["v"] if isinstance(rr["v"], str) else ""
            names = 1 if (s["rel"] and (os.path.basename(s["rel"]) in msg and (s["rel"].replace("/", os.sep) in msg or os.path.dirname(s["rel"]).split("/")[-1] in msg or "/" not in s["rel"]))) else 0
            # a deleted file cannot show up as 'read' (canonicalize fails first): the attempt is visible in the message itself
            read_damaged = 1 if (damaged and (damaged in reads)) else 0
            events.append({"call": call, "res": rr["r"], "phase": phase, "readDamaged": read_damaged, "namesFile": names, "shape": s["shape"]})
            back.append((si, oi))
            if phase in ("pre", "post", "ref") and call != "set_rules_dir" and not call.startswith("set_pref:"):
                key = S.fp(json.dumps(s["cfg"], sort_keys=True), call)
                memo.append((key, S.fp(rr["r"], S.norm_out(rr["v"]) if rr["r"] == "ok" else ""), si, oi, phase))
    rejects, _, _ = C.validate_trace("Trace_Faults", "Trace_Faults.cfg", events, wd, name="faults", timeout=1200)
    # references first within a key so that they define memo
    order = {"ref": 0, "pre": 1, "post": 2}
    memo.sort(key=lambda x: (x[0], order[x[4]], x[2], x[3]))
    mrej, _, _ = C.validate_trace("Trace_Memo", "Trace_Memo.cfg", [{"key": k, "out": o} for k, o, _, _, _ in memo], wd, name="memo", timeout=1200)
    verdict = C.Verdict(PID)

    def describe(si):
        s = scripts[si]
        return f"file {s['rel'] or '<rules dir>'} shape {s['shape']} CheckRuleFiles={s['mode']} {'initial' if s.get('initial') else 'warm' if s['warm'] else 'cold'} config {s['cfg']['Language']}/{s['cfg']['BrailleCode']}"
    for idx, reason in rejects:
        si, oi = back[idx - 1]
        s = scripts[si]
        rr = results[si]["results"][oi]
        e = events[idx - 1]
        text = f"{reason}: {e['call']} ({e['phase']}) -> {rr['r']}: {str(rr['v'])[:200]!r}; {describe(si)}"
        verdict.reject(f"{reason}|{s['rel']}|{s['shape']}|{s['mode']}|{e['call']}", text, {"script": s["ops"][:oi + 1]},
                       text=json.dumps({"reason": reason, "file": s["rel"], "shape": s["shape"], "mode": s["mode"], "warm": s["warm"], "call": e["call"], "msg": str(rr["v"])[:300]}))
    for idx, reason in mrej:
        key, o, si, oi, phase = memo[idx - 1]
        s = scripts[si]
        call = s["tags"][oi][1]
        rr = results[si]["results"][oi]
        text = f"output-after-repair-differs: {call} ({phase}) -> {str(S.norm_out(rr['v']))[:160]!r}; {describe(si)}"
        verdict.reject(f"recovery|{s['rel']}|{s['shape']}|{s['mode']}|{call}", text, {"script": s["ops"][:oi + 1]},
                       text=json.dumps({"reason": "output-after-repair-differs", "file": s["rel"], "shape": s["shape"], "mode": s["mode"], "warm": s["warm"], "call": call}))
    rc = verdict.finish(wd)
    nfault = [e for e in events if e["phase"] == "fault"]
    C.write_evidence(PID, tier, "fault_enumeration" if False else "model_checking", {
        "states": m1["distinct"], "transitions": m1["states"],
        "traces_validated_against_impl": len(scripts),
        "samples": [scripts[len(CONFIGS) * 2]["id"], scripts[-1]["id"]],
        "evaluations": len(events), "distinct_nontrivial": len({(scripts[si]["rel"], scripts[si]["shape"], scripts[si]["mode"], scripts[si]["warm"]) for si, _ in back if scripts[si]["rel"]}),
        "rule": "fault sequence = (configuration, reachable rule file, shape in deleted/empty/truncated at a YAML item boundary/scalar/"
                "wrong top-level type/invalid xpath/unknown key, damage before first load or after warm-up, recovery by CheckRuleFiles=All or "
                "by re-pointing the rules directory); 7 public calls before, during (twice) and after; distinct_nontrivial = distinct "
                "(file, shape, mode, warmth) tuples executed",
        "exhaustive": tier == "thorough", "files_reachable": {CONFIGS[i]["Language"]: len(f) for i, f in enumerate(files)},
        "calls_under_fault": len(nfault), "errors_under_fault": sum(1 for e in nfault if e["res"] == "err"),
        "errors_that_read_the_damaged_file": sum(1 for e in nfault if e["res"] == "err" and e["readDamaged"]),
        "recovery_comparisons": len(memo), "asbuilt_model_violation": asb["violation"],
        "model_actions_coverage": {k: v[1] for k, v in m1["coverage"].items()},
        "trace_events_rejected": len(rejects) + len(mrej),
    }, time.time() - t0, len(verdict.violations),
        ["the 'names the file' clause is asserted for errors raised while the loading layer read the damaged file in that call "
         "(file-read hook); follow-on errors of later calls are not judged", "modification times are set explicitly; no wall clock"])
    return rc


def selftest(tier):
    wd = C.workdir("c14_self")
    ev = [{"call": "speech", "res": "err", "phase": "fault", "readDamaged": 1, "namesFile": 1, "shape": "empty"},
          {"call": "speech", "res": "panic", "phase": "fault", "readDamaged": 1, "namesFile": 0, "shape": "empty"},
          {"call": "speech", "res": "err", "phase": "post", "readDamaged": 0, "namesFile": 0, "shape": "empty"}]
    rej, _, _ = C.validate_trace("Trace_Faults", "Trace_Faults.cfg", ev, wd)
    if [i for i, _ in rej] != [2, 3]:
        raise C.ToolError(f"selftest: {rej}")
    C.log("[C14] selftest ok")
    return 0


def replay(path):
    rp = json.load(open(path))["replay"]
    wd = C.workdir("c14_replay")
    res = C.run_mcv([{"id": "replay", "ops": rp["script"]}], wd, threads=1)
    for op, rr in list(zip(rp["script"], res[0]["results"]))[-6:]:
        C.log(f"{op['op']}: {rr['r']} {str(rr['v'])[:300]}")
    return 0
