"""C15 - every shipped language, style and braille code loads and works; regional variants and unknown languages fall back.

M1: Locate.tla (TLC): the file search of prefs.rs over EVERY directory tree of a small universe (a complete default language and
    code plus any subset of a second language, a region, an empty language directory, a second code and a code with a hyphen in
    its name): every selection resolves, a region without a directory resolves like its language, an unknown language like the
    default, a file the language has is never taken from the default. The as-built search ('-' always splits) is refuted for a
    code whose directory has a hyphen in its name.
M2: TLC-simulated (tree, selections) behaviours are realised as directory trees on disk; the real library's resolved paths
    (prefs_dump hook) must be among the model's (Trace_Locate.tla).
M3: on the shipped Rules/: every language tag (shipped, region missing, unknown) x style (shipped, unknown) x code: resolved paths
    against the model on the real listing; then every shipped language x style x verbosity x code over one expression per MathML
    element kind plus suite expressions: speech, overview, navigation speech and braille answer Ok and are not blank
    (Trace_Speech.tla); outputs under xx-QQ equal those under xx, under an unknown language those under en."""
import glob
import json
import os
import random
import re
import shutil
import time

import common as C
import mml
import session as S

PID = "C15"
ELEMENTS = [
    "<math><mi>x</mi></math>", "<math><mn>3.14</mn></math>", "<math><mo>+</mo></math>", "<math><mtext>if so</mtext></math>", "<math><ms>abc</ms></math>",
    "<math><mi>a</mi><mspace width='1em'/><mi>b</mi></math>", "<math><mrow><mi>a</mi><mo>+</mo><mi>b</mi></mrow></math>",
    "<math><mfrac><mi>a</mi><mi>b</mi></mfrac></math>", "<math><mfrac><mn>1</mn><mn>2</mn></mfrac></math>", "<math><msqrt><mi>x</mi><mo>+</mo><mn>1</mn></msqrt></math>",
    "<math><mroot><mi>x</mi><mn>3</mn></mroot></math>", "<math><mstyle displaystyle='true'><mi>x</mi></mstyle></math>", "<math><merror><mtext>bad</mtext></merror></math>",
    "<math><mpadded width='+1em'><mi>x</mi></mpadded></math>", "<math><mi>a</mi><mphantom><mi>x</mi></mphantom></math>",
    "<math><mfenced open='[' close=')'><mi>a</mi><mi>b</mi></mfenced></math>", "<math><menclose notation='box'><mi>x</mi></menclose></math>",
    "<math><menclose notation='updiagonalstrike downdiagonalstrike'><mi>x</mi></menclose></math>", "<math><menclose notation='longdiv'><mn>12</mn></menclose></math>",
    "<math><msub><mi>x</mi><mn>1</mn></msub></math>", "<math><msup><mi>x</mi><mn>2</mn></msup></math>", "<math><msup><mi>x</mi><mi>n</mi></msup></math>",
    "<math><msubsup><mi>x</mi><mn>1</mn><mn>2</mn></msubsup></math>", "<math><munder><mi>lim</mi><mrow><mi>x</mi><mo>→</mo><mn>0</mn></mrow></munder><mi>f</mi></math>",
    "<math><mover><mi>x</mi><mo>¯</mo></mover></math>", "<math><mover><mi>x</mi><mo>→</mo></mover></math>",
    "<math><munderover><mo>∑</mo><mrow><mi>i</mi><mo>=</mo><mn>1</mn></mrow><mi>n</mi></munderover><msub><mi>a</mi><mi>i</mi></msub></math>",
    "<math><msubsup><mo>∫</mo><mn>0</mn><mn>1</mn></msubsup><mi>x</mi><mo>&#x2062;</mo><mi>d</mi><mi>x</mi></math>",
    "<math><mmultiscripts><mi>C</mi><mn>2</mn><none/><mprescripts/><mn>6</mn><mn>14</mn></mmultiscripts></math>",
    "<math><mo>(</mo><mtable><mtr><mtd><mn>1</mn></mtd><mtd><mn>2</mn></mtd></mtr><mtr><mtd><mn>3</mn></mtd><mtd><mn>4</mn></mtd></mtr></mtable><mo>)</mo></math>",
    "<math><mtable><mlabeledtr><mtd><mtext>(1)</mtext></mtd><mtd><mi>x</mi><mo>=</mo><mn>1</mn></mtd></mlabeledtr></mtable></math>",
    "<math><mo>{</mo><mtable columnalign='left'><mtr><mtd><mi>x</mi></mtd><mtd><mtext>if </mtext><mi>x</mi><mo>&gt;</mo><mn>0</mn></mtd></mtr><mtr><mtd><mn>0</mn></mtd><mtd><mtext>otherwise</mtext></mtd></mtr></mtable></math>",
    "<math><maction actiontype='tooltip'><mi>x</mi><mtext>tip</mtext></maction></math>",
    "<math><semantics><mrow><mi>x</mi><mo>+</mo><mn>1</mn></mrow><annotation encoding='application/x-tex'>x+1</annotation></semantics></math>",
    "<math><semantics><mi>x</mi><annotation-xml encoding='MathML-Content'><ci>x</ci></annotation-xml></semantics></math>",
    "<math><mi>sin</mi><mo>&#x2061;</mo><mi>x</mi></math>", "<math><mi>log</mi><mo>&#x2061;</mo><mi>x</mi></math>", "<math><mi>ln</mi><mo>&#x2061;</mo><mi>x</mi></math>",
    "<math><mo>|</mo><mi>x</mi><mo>|</mo></math>", "<math><mi>n</mi><mo>!</mo></math>", "<math><mo>(</mo><mfrac linethickness='0'><mi>n</mi><mi>k</mi></mfrac><mo>)</mo></math>",
    "<math><mo>{</mo><mn>1</mn><mo>,</mo><mn>2</mn><mo>}</mo></math>", "<math><mo>{</mo><mo>}</mo></math>", "<math><mo>(</mo><mn>1</mn><mo>,</mo><mn>2</mn><mo>]</mo></math>",
    "<math><mn>2</mn><mfrac><mn>1</mn><mn>3</mn></mfrac></math>", "<math><mi>A</mi><mo>⫅</mo><mi>B</mi><mo>≤</mo><mi>ℵ</mi><mo>+</mo><mi>𝒜</mi></math>",
    "<math><msub><mi>H</mi><mn>2</mn></msub><mi>O</mi></math>", "<math><mn>3</mn><mi intent=':unit'>km</mi></math>", "<math><mn>20</mn><mi>%</mi></math>",
    "<math><mi>x</mi><mo>≤</mo><mi>y</mi><mo>≠</mo><mi>z</mi><mo>≈</mo><mi>w</mi></math>", "<math><mi mathvariant='bold'>v</mi><mo>×</mo><mi mathvariant='fraktur'>g</mi></math>",
    "<math><mi>A</mi><mo>∩</mo><mi>B</mi><mo>∪</mo><mi>C</mi><mo>∈</mo><mi>D</mi></math>", "<math><mo>¬</mo><mi>p</mi><mo>∧</mo><mi>q</mi><mo>⇒</mo><mi>r</mi></math>",
    "<math><mfrac><mrow><mi>d</mi><mi>y</mi></mrow><mrow><mi>d</mi><mi>x</mi></mrow></mfrac></math>", "<math><msup><mi>f</mi><mo>′</mo></msup><mo>(</mo><mi>x</mi><mo>)</mo></math>",
    "<math><mrow intent='binomial($n,$k)'><mi arg='n'>n</mi><mi>C</mi><mi arg='k'>k</mi></mrow></math>",
    # recorded example of the open finding C15-lone-block-separator-number-is-silent
    "<math><mn>.</mn><msub><mi>a</mi><mn>1</mn></msub><msub><mi>a</mi><mn>2</mn></msub><msub><mi>a</mi><mn>3</mn></msub></math>",
]
WALK = ["ZoomIn", "DescribeCurrent", "ReadCurrent", "MoveNext", "ReadNext", "DescribeCurrent", "ZoomOut"]


def listing():
    """The relevant part of Rules/ as (dirs, files): paths relative to Rules, yaml files down to the language/region/code directories."""
    root = os.path.join(C.REPO, "Rules")
    dirs, files = [[]], []
    for base, ds, fs in os.walk(root):
        rel = os.path.relpath(base, root)
        parts = [] if rel == "." else rel.split(os.sep)
        if len(parts) > 3 or "SharedRules" in parts or (parts and parts[0] not in ("Languages", "Braille")):
            ds[:] = []
            continue
        if parts:
            dirs.append(parts)
        for f in fs:
            if f.endswith(".yaml"):
                files.append(parts + [f])
    return sorted(dirs), sorted(files)


def selection_event(dirs, files, lang, style, code, res, got):
    sf, cf = style + "_Rules.yaml", code + "_Rules.yaml"
    names = sorted({p[-1] for p in files if p[-1].endswith("_Rules.yaml")} | {sf, cf})
    return {"dirs": dirs, "files": files, "lang": [x for x in lang.split("-")] if lang else [], "sf": sf, "cf": cf,
            "code": {"name": code, "parts": code.split("-")}, "res": res, "got": got, "styleFiles": names}


def rel_files(dump, rules_dir):
    out = {}
    for k, v in dump["files"].items():
        r = os.path.relpath(v, rules_dir)
        out[k] = [] if r == "." else r.split(os.sep)
    return out


def make_tree(wd, i, files, dirs):
    root = os.path.join(wd, "trees", f"t{i}", "Rules")
    if os.path.isdir(root):
        shutil.rmtree(root)
    for d in dirs:
        os.makedirs(os.path.join(root, *d), exist_ok=True)
    for f in files:
        with open(os.path.join(root, *f), "w") as fh:
            fh.write("# stub\n")
    shutil.copy(os.path.join(C.REPO, "Rules", "prefs.yaml"), os.path.join(root, "prefs.yaml"))
    return root


def run(tier):
    t0 = time.time()
    wd = C.workdir("c15")
    rng = random.Random(C.seed())
    # ---- M1
    m1 = C.tlc_model_check("MC_Locate", "MC_Locate_intended_quick.cfg" if tier == "quick" else "MC_Locate_intended.cfg", wd, workers=12, timeout=1500, coverage=False)
    asb = C.run_tlc("MC_Locate", "MC_Locate_asbuilt519.cfg", wd, workers=4, timeout=600, coverage=False)
    if asb["violation"] != "AlwaysResolves":
        raise C.ToolError(f"the search of the pinned commit (an empty directory is a language) is not refuted by TLC ({asb['violation']}, {asb['error']})")
    asb2 = C.run_tlc("MC_Locate", "MC_Locate_asbuilt_hyphen.cfg", wd, workers=4, timeout=600, coverage=False)
    if asb2["violation"] != "CodeDirIsUsed":
        raise C.ToolError(f"the as-built search ('-' always splits) is not refuted by TLC ({asb2['violation']}, {asb2['error']})")
    # ---- M2: simulated trees, realised on disk
    sim = C.run_tlc("MC_Locate", "MC_Locate_sim.cfg", wd, workers=1, timeout=900, coverage=False, simulate=40 if tier == "quick" else 600, depth=4, seed_=C.seed())
    states = C.replay_lines(sim)
    by_tree = {}
    for st in states:
        key = json.dumps([sorted(st["files"]), sorted(st["dirs"])])
        by_tree.setdefault(key, {})[json.dumps([st["lang"], st["style"], st["code"]["name"]])] = st
    scripts, metas = [], []
    for ti, (key, sels) in enumerate(by_tree.items()):
        files, dirs = json.loads(key)
        root = make_tree(wd, ti, files, dirs)
        ops = [{"op": "set_rules_dir", "dir": root}]
        meta = [None]
        for sk, st in sels.items():
            lang = "-".join(st["lang"])
            ops += [{"op": "set_pref", "name": "Language", "value": lang}, {"op": "set_pref", "name": "SpeechStyle", "value": st["style"]},
                    {"op": "set_pref", "name": "BrailleCode", "value": st["code"]["name"]}, {"op": "prefs_dump"}]
            meta += [None, None, None, ("sel", dirs, files, lang, st["style"], st["code"]["name"], root)]
        scripts.append({"id": f"tree{ti}", "ops": ops})
        metas.append(meta)
    n_sim_trees = len(scripts)
    # ---- M3a: every selection on the shipped tree
    rdirs, rfiles = listing()
    rules_root = os.path.join(C.REPO, "Rules")
    langs = S.languages()
    lang_tags = langs + ["zh", "en-xx", "es-mx", "fi-fi", "sv-fi", "qq", "qq-rr", "fr", "zz-bb"]
    styles = ["ClearSpeak", "SimpleSpeak", "Foo"]
    codes = S.braille_codes() + ["Foo"]
    real_codes_all = S.braille_codes()
    sel_ops, sel_meta = [{"op": "set_rules_dir", "dir": "$RULES"}], [None]
    for lt in lang_tags:
        for st in styles:
            for cd in (codes if lt in ("en", "fi") else [codes[(len(lt) + len(st)) % len(codes)]]):
                sel_ops += [{"op": "set_pref", "name": "Language", "value": lt}, {"op": "set_pref", "name": "SpeechStyle", "value": st},
                            {"op": "set_pref", "name": "BrailleCode", "value": cd}, {"op": "prefs_dump"}]
                sel_meta += [None, None, None, ("sel", rdirs, rfiles, lt, st, cd, rules_root)]
    scripts.append({"id": "shipped-selections", "ops": sel_ops})
    metas.append(sel_meta)
    # ---- M3a': switching selections inside one session: what is loaded afterwards is what was resolved
    for k in range(2 if tier == "quick" else 8):
        r2 = random.Random(C.seed() * 7 + k)
        # (every tag twice: a selection must resolve the same the second time, whatever was selected - and missed - in between)
        seq = ["en", "en-gb", "qq", "es", "es-mx", "fi", "zh-tw", "sv", "fr", "zh", "vi", "id", "zh-cn", "sv-fi"] * 2
        r2.shuffle(seq)
        ops, meta = [{"op": "set_rules_dir", "dir": "$RULES"}, {"op": "set_pref", "name": "SpeechStyle", "value": "ClearSpeak"}], [None, None]
        for i, lt in enumerate(seq):
            cd = real_codes_all[(i + k) % len(real_codes_all)]
            ops += [{"op": "set_pref", "name": "Language", "value": lt}, {"op": "set_pref", "name": "BrailleCode", "value": cd},
                    {"op": "set_mathml", "mathml": "<math><mo>(</mo><mi>x</mi><mo>⫅</mo><mn>1</mn><mo>]</mo></math>"}, {"op": "speech"}, {"op": "braille"},
                    {"op": "prefs_dump"}, {"op": "cache_state"}]
            meta += [None, None, None, None, None, ("sel", rdirs, rfiles, lt, "ClearSpeak", cd, rules_root), ("loaded", lt, cd)]
        scripts.append({"id": f"switching{k}", "ops": ops})
        metas.append(meta)
    # ---- M3b: everything loads and works
    corpus = [c["mathml"] for c in mml.corpus() if len(c["mathml"]) < 2500]
    n_suite = 25 if tier == "quick" else 300
    work_cfgs = [(l, st, v) for l in langs if not l.startswith("zz") for st in S.speech_styles(l) for v in ("Terse", "Medium", "Verbose")]
    real_codes = S.braille_codes()
    first_work = len(scripts)
    for ci, (lang, style, verb) in enumerate(work_cfgs):
        exprs = ELEMENTS + random.Random(C.seed() + ci).sample(corpus, n_suite)
        cds = real_codes if (tier == "thorough" and verb == "Medium") else [real_codes[ci % len(real_codes)]]
        ops = [{"op": "set_rules_dir", "dir": "$RULES", "setup": True}, {"op": "set_pref", "name": "Language", "value": lang, "setup": True},
               {"op": "set_pref", "name": "SpeechStyle", "value": style, "setup": True}, {"op": "set_pref", "name": "Verbosity", "value": verb, "setup": True},
               {"op": "events_on", "setup": True}]
        meta = [None, ("setpref", "Language", lang), ("setpref", "SpeechStyle", style), None, None]
        for cd in cds:
            ops.append({"op": "set_pref", "name": "BrailleCode", "value": cd, "setup": True})
            meta.append(("setpref", "BrailleCode", cd))
            for e in exprs:
                ops.append({"op": "set_mathml", "mathml": e})
                meta.append(("set", e))
                for g in (["speech", "overview", "braille"] if cd == cds[0] else ["braille"]):
                    ops.append({"op": g})
                    meta.append(("get", g, cd))
                if cd == cds[0] and (e in ELEMENTS or rng.random() < 0.3):
                    for cmd in WALK:
                        ops.append({"op": "nav_cmd", "cmd": cmd})
                        meta.append(("get", "nav:" + cmd, cd))
        ops.append({"op": "rules_hit"})
        meta.append(("rules",))
        scripts.append({"id": f"work/{lang}/{style}/{verb}", "ops": ops, "isolate_on_panic": True, "cfg": (lang, style, verb)})
        metas.append(meta)
    # ---- M3c: fallbacks give the same outputs
    pairs = [("es-mx", "es"), ("fi-fi", "fi"), ("en-xx", "en"), ("qq", "en"), ("qq-rr", "en"), ("fr", "en"), ("zh", "en")]
    fb_exprs = ELEMENTS[:30] + random.Random(C.seed()).sample(corpus, 10 if tier == "quick" else 120)
    first_fb = len(scripts)
    for a, b in pairs:
        for tag in (a, b):
            ops = [{"op": "set_rules_dir", "dir": "$RULES", "setup": True}, {"op": "set_pref", "name": "Language", "value": tag, "setup": True},
                   {"op": "get_pref", "name": "DecimalSeparators"}, {"op": "get_pref", "name": "BlockSeparators"}]
            for e in fb_exprs:
                ops += [{"op": "set_mathml", "mathml": e}, {"op": "speech"}, {"op": "overview"}, {"op": "nav_cmd", "cmd": "ZoomIn"}]
            scripts.append({"id": f"fb/{tag}", "ops": ops, "isolate_on_panic": True})
            metas.append(None)
    results = C.run_mcv([{k: v for k, v in s.items() if k in ("id", "ops", "isolate_on_panic")} for s in scripts], wd, timeout_ms=120000)
    # ---- judge resolutions (Trace_Locate)
    sel_events, sel_back = [], []
    for si, (s, m, r) in enumerate(zip(scripts, metas, results)):
        if m is None or si >= first_work:
            continue
        for oi, (mm, rr) in enumerate(zip(m, r["results"])):
            if mm is not None and mm[0] == "loaded":
                dump, cache = r["results"][oi - 1], rr
                if dump["r"] != "ok" or cache["r"] != "ok" or any(x["r"] != "ok" for x in r["results"][oi - 6:oi - 1]):
                    continue        # a getter that fails is judged in the other part
                res_f = rel_files(dump["v"], rules_root)
                want = {"speech": ("speech", "rule_files"), "speech_unicode": ("speech", "unicode_short_files"), "speech_unicode_full": ("speech", "unicode_full_files"),
                        "speech_defs": ("speech", "definitions_files"), "braille": ("braille", "rule_files"), "braille_unicode": ("braille", "unicode_short_files"),
                        "braille_defs": ("braille", "definitions_files"), "intent": ("intent", "rule_files")}
                loaded = {}
                for kind, (tbl, fld) in want.items():
                    lst = cache["v"].get(tbl, {}).get(fld, [])
                    if lst:
                        rp = os.path.relpath(lst[0][0], rules_root)
                        loaded[kind] = rp.split(os.sep)
                sel_events.append({"loaded": loaded, "resolved": {k2: res_f[k2] for k2 in loaded}})
                sel_back.append((si, oi, mm[1], "", mm[2], rules_root))
                continue
            if mm is None or mm[0] != "sel":
                continue
            _, dirs, files, lang, style, code, root = mm
            prior = r["results"][oi - 3:oi]
            ok = all(x["r"] == "ok" for x in prior) and rr["r"] == "ok"
            got = rel_files(rr["v"], root) if rr["r"] == "ok" and isinstance(rr["v"], dict) else {}
            if ok and rr["v"].get("error"):
                ok = False
            kinds = ["intent", "overview", "navigation", "speech_unicode", "speech_unicode_full", "speech_defs", "braille_unicode", "braille_unicode_full", "braille_defs", "speech", "braille"]
            sel_events.append(selection_event(dirs, files, lang, style, code, "ok" if ok else "err", {k: got.get(k, ["?"]) for k in kinds}))
            sel_back.append((si, oi, lang, style, code, root))
    rej1, _, _ = C.validate_trace("Trace_Locate", "Trace_Locate.cfg", sel_events, wd, name="locate", timeout=1800, heap="8g")
    verdict = C.Verdict(PID)
    for idx, reason in rej1:
        si, oi, lang, style, code, root = sel_back[idx - 1]
        e = sel_events[idx - 1]
        if "loaded" in e:
            diff = {k2: (e["loaded"][k2], e["resolved"][k2]) for k2 in e["loaded"] if e["loaded"][k2] != e["resolved"][k2]}
            upto = [o for o in scripts[si]["ops"][:oi + 1]]
            verdict.reject(f"{reason}|{lang}|{code}|{sorted(diff)}", f"{reason}: after Language={lang} BrailleCode={code} in {scripts[si]['id']}: (loaded, resolved) = {json.dumps(diff)[:500]}",
                           {"script": upto}, text=json.dumps({"reason": reason, "lang": lang, "code": code, "diff": diff}))
            continue
        shipped = root == rules_root
        if scripts[si]["id"].startswith("switching"):
            # the selection resolved differently from a fresh session because of what went before: the replay is the session so far
            history = [o["value"] for o in scripts[si]["ops"][:oi] if o.get("name") == "Language"]
            verdict.reject(f"{reason}|{lang}|{style}|in-session", f"{reason}: Language={lang} BrailleCode={code} after the selections {history[-6:]} in one session -> {e['res']} {json.dumps(e['got'])[:300]}",
                           {"script": scripts[si]["ops"][:oi + 1]}, text=json.dumps({"reason": reason, "lang": lang, "code": code, "in_session_after": history[-6:], "got": e["got"]}))
            continue
        text = f"{reason}: Language={lang} SpeechStyle={style} BrailleCode={code} on {'the shipped Rules' if shipped else 'a generated tree'} -> {e['res']} {json.dumps(e['got'])[:400]}"
        tree_ops = [] if shipped else [{"tree": {"dirs": e["dirs"], "files": e["files"]}}]
        verdict.reject(f"{reason}|{lang}|{style}|{code}|{'shipped' if shipped else S.fp(json.dumps(e['files']))}", text,
                       {"tree": None if shipped else {"dirs": e["dirs"], "files": e["files"]},
                        "script": [{"op": "set_rules_dir", "dir": "$RULES" if shipped else "$TREE"}, {"op": "set_pref", "name": "Language", "value": lang},
                                   {"op": "set_pref", "name": "SpeechStyle", "value": style}, {"op": "set_pref", "name": "BrailleCode", "value": code}, {"op": "prefs_dump"}]},
                       text=json.dumps({"reason": reason, "lang": lang, "style": style, "code": code, "tree": "shipped" if shipped else "generated", "got": e["got"]}))
    # ---- judge outputs (Trace_Speech)
    out_events, out_back = [], []
    rules_hit = {}
    for si in range(first_work, first_fb):
        s, m, r = scripts[si], metas[si], results[si]
        cur = None
        moved = False
        for oi, (mm, rr) in enumerate(zip(m, r["results"])):
            if mm is None:
                continue
            if mm[0] == "setpref":
                out_events.append({"getter": "must-answer", "res": rr["r"], "visible": 1, "out": [], "inp": []})
                out_back.append((si, oi, f"set_preference({mm[1]}, {mm[2]})"))
            elif mm[0] == "set":
                cur = None
                moved = False
                if rr["r"] == "ok":
                    t = mml.parse(rr["v"], expand=False)
                    if t is not None:
                        text = mml.visible_text(t)
                        cur = {"inp": sorted({ord(c) for c in text}), "visible": 1 if re.sub(r"[\s ⁡-⁤]", "", text) else 0, "expr": mm[1]}
            elif mm[0] == "rules":
                for h in (rr["v"] if rr["r"] == "ok" else []):
                    f, tag, name = (h.split("\t") + ["", ""])[:3]
                    rules_hit.setdefault(os.path.relpath(f, rules_root), set()).add((tag, name))
            elif mm[0] == "get" and cur is not None:
                g = mm[1]
                if g.startswith("nav:"):
                    # that the first command of the walk answers, and the commands that speak the current node without moving (they
                    # have a node to speak wherever the walk stands); blank navigation speech is C05's business
                    # (only up to the first move: MoveNext may rest on an invisible operator, which some languages do not speak)
                    if g not in ("nav:ZoomIn", "nav:ReadCurrent", "nav:DescribeCurrent") or moved:
                        if g.startswith("nav:Move"):
                            moved = True
                        continue
                    out_events.append({"getter": "must-answer", "res": rr["r"], "visible": cur["visible"], "out": [], "inp": []})
                else:
                    out_events.append({"getter": g, "res": rr["r"], "visible": cur["visible"], "out": C.cps(rr["v"]) if rr["r"] == "ok" else [], "inp": cur["inp"]})
                out_back.append((si, oi, cur["expr"]))
    n_work = len(out_events)
    # fallbacks: same outputs
    for pi, (a, b) in enumerate(pairs):
        ra, rb = results[first_fb + 2 * pi]["results"], results[first_fb + 2 * pi + 1]["results"]
        # the language tag also selects the number separators (fr: decimal comma); the outputs have to agree only when those agree
        same_locale = [x["v"] for x in ra[2:4]] == [x["v"] for x in rb[2:4]]
        for oi in range(4, len(ra)):
            op = scripts[first_fb + 2 * pi]["ops"][oi]["op"]
            if op == "set_mathml":
                continue
            if not same_locale:
                if rb[oi]["r"] == "ok":
                    out_events.append({"getter": "must-answer", "res": ra[oi]["r"], "visible": 1, "out": [], "inp": []})
                    out_back.append((first_fb + 2 * pi, oi, f"Language={a} (falls back to {b}; other number separators)"))
                continue
            va = S.norm_out(ra[oi]["v"]) if ra[oi]["r"] == "ok" else None
            vb = S.norm_out(rb[oi]["v"]) if rb[oi]["r"] == "ok" else None
            if rb[oi]["r"] != "ok":
                continue        # what it falls back to has no answer itself: nothing to compare with
            out_events.append({"getter": op, "res": ra[oi]["r"], "visible": 1, "out": C.cps(va or ""), "ref": C.cps(vb or ""), "inp": []})
            out_back.append((first_fb + 2 * pi, oi, f"Language={a} against Language={b}"))
    rej2, _, _ = C.validate_trace("Trace_Speech", "Trace_Speech.cfg", out_events, wd, name="outputs", timeout=3000, heap="12g")
    for idx, reason in rej2:
        si, oi, what = out_back[idx - 1]
        s = scripts[si]
        rr = results[si]["results"][oi]
        out = rr["v"] if rr["r"] == "ok" else str(rr["v"])
        op = s["ops"][oi]
        pre = [o for o in s["ops"][:oi] if o.get("setup")]
        last_set = [o for o in s["ops"][:oi] if o["op"] == "set_mathml"][-1:] if op["op"] not in ("set_pref",) else []
        navs = []
        if op["op"] == "nav_cmd":
            navs = []
        cfgname = s["id"]
        text = f"{reason}: {cfgname}: {op['op']}{(' ' + op.get('cmd', op.get('value', ''))) if op['op'] in ('nav_cmd', 'set_pref') else ''} on {what[:240]} -> {str(out)[:200]!r}"
        code = [o["value"] for o in s["ops"][:oi + 1] if o["op"] == "set_pref" and o["name"] == "BrailleCode"][-1:] or [""]
        verdict.reject(f"{reason}|{cfgname}|{op['op']}|{code[0] if op['op'] == 'braille' else ''}|{S.fp(what)}", text,
                       {"script": [o for o in pre if o["op"] != "set_pref" or o["name"] != "BrailleCode"] + [{"op": "set_pref", "name": "BrailleCode", "value": code[0]}] * (1 if code[0] else 0) + last_set + [op]},
                       text=json.dumps({"reason": reason, "config": cfgname, "op": op["op"], "code": code[0], "what": what[:500], "out": str(out)[:300], "tail": str(out)[-500:] if rr["r"] != "ok" else ""}, ensure_ascii=False))
    rc = verdict.finish(wd)
    # rule coverage (evidence only)
    totals = {}
    for f in rules_hit:
        try:
            totals[f] = len(re.findall(r"^\s*-\s*name:", open(os.path.join(rules_root, f), encoding="utf-8").read(), re.M))
        except OSError:
            totals[f] = 0
    cov = {f: f"{len({n for _, n in v})}/{totals[f]}" for f, v in sorted(rules_hit.items())}
    shutil.rmtree(os.path.join(wd, "trees"), ignore_errors=True)
    C.write_evidence(PID, tier, "model_checking", {
        "states": m1["distinct"], "transitions": m1["states"],
        "traces_validated_against_impl": len(sel_events) + len(out_events),
        "samples": [{"selection": [sel_back[0][2], sel_back[0][3], sel_back[0][4]], "resolved": sel_events[0]["got"]}],
        "evaluations": len(sel_events) + len(out_events), "distinct_nontrivial": len({(b[2], b[3], b[4], b[5]) for b in sel_back}) + len({(b[0], b[2]) for b in out_back}),
        "rule": "selections = (generated tree, language, style, code) from TLC simulation of Locate.tla realised on disk + every language tag "
                "(shipped, region missing, unknown) x style x code on the shipped Rules; outputs = every shipped language x style x verbosity, "
                "codes rotating (all codes for Medium in thorough), over one expression per MathML element kind plus seeded suite expressions; "
                "distinct_nontrivial = distinct selections + distinct (configuration, expression)",
        "exhaustive": False, "generated_trees": n_sim_trees, "selections_judged": len(sel_events), "selections_rejected": len(rej1),
        "work_configurations": len(work_cfgs), "outputs_judged": n_work, "fallback_pairs_judged": len(out_events) - n_work, "outputs_rejected": len(rej2),
        "asbuilt_pinned_commit_refuted_by": [asb["violation"], asb2["violation"]], "rules_exercised_per_file": cov,
    }, time.time() - t0, len(verdict.violations),
        ["generated trees hold stub files: only the search for files is replayed on them, loading is judged on the shipped Rules",
         "'any style file' (find_file_in_dir_that_ends_with) depends on directory order: the model allows every style file of that directory",
         "navigation: only that the first command answers Ok; blank navigation speech is judged by C05"])
    return rc


def selftest(tier):
    wd = C.workdir("c15_self")
    dirs = [[], ["Languages"], ["Languages", "en"], ["Braille"], ["Braille", "UEB"]]
    files = [["intent.yaml"], ["definitions.yaml"]] + [["Languages", "en", f] for f in ("overview.yaml", "navigate.yaml", "unicode.yaml", "unicode-full.yaml", "definitions.yaml", "ClearSpeak_Rules.yaml")] \
        + [["Braille", "UEB", f] for f in ("UEB_Rules.yaml", "unicode.yaml", "unicode-full.yaml", "definitions.yaml")]
    good = {"intent": ["intent.yaml"], "overview": ["Languages", "en", "overview.yaml"], "navigation": ["Languages", "en", "navigate.yaml"],
            "speech_unicode": ["Languages", "en", "unicode.yaml"], "speech_unicode_full": ["Languages", "en", "unicode-full.yaml"],
            "speech_defs": ["Languages", "en", "definitions.yaml"], "speech": ["Languages", "en", "ClearSpeak_Rules.yaml"],
            "braille": ["Braille", "UEB", "UEB_Rules.yaml"], "braille_unicode": ["Braille", "UEB", "unicode.yaml"],
            "braille_unicode_full": ["Braille", "UEB", "unicode-full.yaml"], "braille_defs": ["Braille", "UEB", "definitions.yaml"]}
    bad = dict(good, speech_defs=["definitions.yaml"])
    ev = [selection_event(dirs, files, "qq-rr", "SimpleSpeak", "Nope", "ok", good), selection_event(dirs, files, "en", "ClearSpeak", "UEB", "ok", bad),
          selection_event(dirs, files, "en", "ClearSpeak", "UEB", "err", good)]
    rej, _, _ = C.validate_trace("Trace_Locate", "Trace_Locate.cfg", ev, wd)
    if [i for i, _ in rej] != [2, 3]:
        raise C.ToolError(f"selftest: {rej}")
    C.log("[C15] selftest ok")
    return 0


def replay(path):
    rp = json.load(open(path))["replay"]
    wd = C.workdir("c15_replay")
    script = rp["script"]
    if rp.get("tree"):
        root = make_tree(wd, 0, rp["tree"]["files"], rp["tree"]["dirs"])
        script = [dict(o, dir=root) if o.get("dir") == "$TREE" else o for o in script]
    res = C.run_mcv([{"id": "replay", "ops": script}], wd, threads=1)
    C.log(str(res[0]["results"][-1])[:1200])
    return 0
