"""C16 - split numbers fold into the same number as the unsplit form.

M1: NumberFold.tla (TLC): every written form over {digit, block separator, decimal mark} up to a bound, every cut and context:
    the classes Required / Forbidden / Unspecified are a partition, Required forms are numbers of the locale grammar, Forbidden ones
    are not (or are comma lists inside fences); the written forms are exported.
M2: each form is concretised with digits and the separators of a locale (default US, decimal comma via Language, Swiss
    apostrophe, separators set directly), cut into mn/mo/mtext tokens, and placed in the statement's contexts.
M3: Trace_NumberFold.tla: TLC classifies each case and judges what the library did: Required => canonical MathML, speech and
    braille equal those of the one-token spelling; Forbidden => no mn holds a separator that was a token of its own."""
import json
import random
import re
import time

import common as C
import mml
import session as S

PID = "C16"
CONTEXTS = ["alone", "sum-right", "sum-left", "argument", "exponent", "numerator", "denominator", "sentence-end",
            "in-parens", "in-set", "two-arguments", "expression-end", "sum-after-open-fence", "sum-before-close-fence"]
# (name, preference settings, decimal mark, block separators to draw from)
NB, NNB = "\u00a0", "\u202f"
LOCALES = [("US", [], ".", [",", NB, NNB]),
           ("decimal-comma", [("Language", "sv")], ",", [".", NB, NNB]),
           ("swiss", [("Language", "de-ch")], ",", ["'", ".", NB]),
           ("forced-point", [("Language", "fi"), ("DecimalSeparator", ".")], ".", [",", NNB]),
           # region tags in their BCP 47 spelling (upper-case region): a region that overrides its language (Mexico writes a decimal
           # point, Spanish a comma), and the Swiss apostrophe
           ("mexico-cased", [("Language", "es-MX")], ".", [",", NB, NNB]),
           ("swiss-cased", [("Language", "de-CH")], ",", ["'", ".", NB])]


def spell(w, cut, dec, blk, start):
    """-> (token xml of the cut spelling, text of the whole number, windows around the separators that are tokens of their own)."""
    digits = "123456789"
    k = start
    toks, cur, text, windows = [], "", "", []
    chars = []
    for ch in w:
        if ch == "d":
            chars.append(digits[k % 9])
            k += 1
        else:
            chars.append(dec if ch == "m" else blk)
    for i, ch in enumerate(w):
        c = chars[i]
        text += c
        if ch == "d" or cut[i] == "glued":
            cur += c
        else:
            if cur:
                toks.append(("mn", cur))
                cur = ""
            toks.append(("mtext" if c in "   " and (i + start) % 2 else "mo", c))
            windows.append((chars[i - 1] if i > 0 else "") + c + (chars[i + 1] if i + 1 < len(w) else ""))
    if cur:
        toks.append(("mn", cur))
    xml = "".join(f"<{t}>{mml.escape(x) if hasattr(mml, 'escape') else x.replace('&', '&amp;').replace('<', '&lt;')}</{t}>" for t, x in toks)
    return xml, text, windows


def in_context(n, ctx):
    row = f"<mrow>{n}</mrow>"
    return {"alone": f"<math>{n}</math>", "sum-right": f"<math><mi>x</mi><mo>+</mo>{n}</math>", "sum-left": f"<math>{n}<mo>+</mo><mi>x</mi></math>",
            "argument": f"<math><mi>f</mi><mo>(</mo><mi>x</mi><mo>,</mo>{n}<mo>)</mo></math>", "exponent": f"<math><msup><mi>x</mi>{row}</msup></math>",
            "numerator": f"<math><mfrac>{row}<mi>y</mi></mfrac></math>", "denominator": f"<math><mfrac><mi>y</mi>{row}</mfrac></math>",
            "sentence-end": f"<math><mi>a</mi><mo>=</mo>{n}<mo>.</mo></math>", "in-parens": f"<math><mo>(</mo>{n}<mo>)</mo></math>",
            "in-set": f"<math><mo>{{</mo>{n}<mo>}}</mo></math>", "two-arguments": f"<math><mi>f</mi><mo>(</mo>{n}<mo>)</mo></math>",
            "expression-end": f"<math><mi>x</mi><mo>=</mo>{n}</math>",
            "sum-after-open-fence": f"<math><mn>2</mn><mo>(</mo>{n}<mo>+</mo><mi>x</mi><mo>)</mo></math>",
            "sum-before-close-fence": f"<math><mn>2</mn><mo>(</mo><mi>x</mi><mo>+</mo>{n}<mo>)</mo></math>"}[ctx]


def run(tier):
    t0 = time.time()
    wd = C.workdir("c16")
    m1 = C.tlc_model_check("NumberFold", "MC_NumberFold_quick.cfg" if tier == "quick" else "MC_NumberFold.cfg", wd, workers=8, timeout=1800, coverage=False)
    forms = C.replay_lines(m1) if "printed" in m1 else None
    if not forms:
        r = C.run_tlc("NumberFold", "MC_NumberFold_quick.cfg" if tier == "quick" else "MC_NumberFold.cfg", wd, workers=4, timeout=1800, coverage=False)
        forms = C.replay_lines(r)
    if len(forms) < 1000:
        raise C.ToolError(f"NumberFold exported only {len(forms)} written forms")
    # longer numbers than the enumeration bound reaches, built from the grammar's parameters (TLC classifies them like the others),
    # and their near misses: a short group, a second mark, adjacent separators
    seen = {tuple(f["w"]) for f in forms}
    extra = []
    for lead in (1, 2, 3):
        for groups in (0, 1, 2, 3):
            for frac in (None, 1, 2, 3, 5):
                w = ["d"] * lead + (["b"] + ["d"] * 3) * groups + ([] if frac is None else ["m"] + ["d"] * frac)
                if "b" in w or "m" in w:
                    extra.append((w, True))
                if groups:
                    bad = list(w)
                    bad.pop(lead + 1)                 # a group of two digits
                    extra.append((bad, False))
                if frac:
                    extra.append((w + ["m", "d"], False))      # a second mark
    for n in (4, 5, 6):
        extra.append((["d"] * n + ["m"] + ["d"] * 2, True))
    for frac in (1, 3):
        extra.append((["m"] + ["d"] * frac, True))
    for w, is_num in extra:
        if tuple(w) not in seen:
            seen.add(tuple(w))
            forms.append({"w": w, "number": is_num, "notNumber": not is_num, "extra": True})
    cases = []
    for fi, f in enumerate(forms):
        w = f["w"]
        seps = [i for i, ch in enumerate(w) if ch != "d"]
        r2 = random.Random(C.seed() * 31 + fi)
        cuts = []
        # a generator glues a separator into an mn only between two digits
        must_own = {i for i in seps if i == 0 or i == len(w) - 1 or w[i - 1] != "d" or w[i + 1] != "d"}
        free = [i for i in seps if i not in must_own]
        if tier == "thorough" and len(free) <= 3:
            for mask in range(2 ** len(free)):
                cut = ["-" if i not in seps else "own" if i in must_own or (mask >> free.index(i) & 1) else "glued" for i in range(len(w))]
                if "own" in cut:
                    cuts.append(cut)
        else:
            for _ in range((3 if f["number"] else 1) if tier == "quick" else 4):
                cut = ["-" if i not in seps else "own" if i in must_own else r2.choice(["own", "own", "glued"]) for i in range(len(w))]
                if "own" not in cut:
                    cut[r2.choice(seps)] = "own"
                cuts.append(cut)
        for cut in cuts:
            # numbers and near-numbers are the interesting forms: they get more contexts
            n_ctx = (6 if f["number"] else 2 if f.get("extra") else 1) if tier == "quick" else (12 if f["number"] else 4)
            for ctx in r2.sample(CONTEXTS, n_ctx):
                li = r2.randrange(len(LOCALES))
                name, prefs, dec, blks = LOCALES[li]
                if ctx == "sentence-end" and dec != ".":
                    continue        # the sentence's full stop is a block separator there: another case, not this context
                blk = r2.choice(blks)
                cases.append((w, cut, ctx, li, blk, r2.randrange(9)))
    # the recorded examples of the open findings, judged in every run
    cases.append((list("dmdd"), ["-", "own", "-", "-"], "sentence-end", 0, ",", 2))
    cases.append((list("dddbddd"), ["-", "-", "-", "own", "-", "-", "-"], "exponent", 0, NNB, 2))
    cases.append((list("ddbddd"), ["-", "-", "own", "-", "-", "-"], "exponent", 2, "'", 0))
    cases.append((list("dbdddmd"), ["-", "glued", "-", "-", "-", "own", "-"], "expression-end", 0, ",", 7))
    cases.append((list("ddbdbdm"), ["-", "-", "own", "-", "own", "-", "own"], "numerator", 0, ",", 7))
    by_loc = {}
    for ci, c in enumerate(cases):
        by_loc.setdefault(c[3], []).append(ci)
    scripts = []
    for li, cis in by_loc.items():
        name, prefs, dec, blks = LOCALES[li]
        for b in range(0, len(cis), 150):
            ops = [{"op": "set_rules_dir", "dir": "$RULES", "setup": True}] + [{"op": "set_pref", "name": k, "value": v, "setup": True} for k, v in prefs] \
                + [{"op": "set_pref", "name": "BrailleCode", "value": "Nemeth", "setup": True}]
            idx = []
            for ci in cis[b:b + 150]:
                w, cut, ctx, _, blk, st = cases[ci]
                xml, text, windows = spell(w, cut, dec, blk, st)
                for n in (xml, f"<mn>{text}</mn>"):
                    ops += [{"op": "set_mathml", "mathml": in_context(n, ctx)}, {"op": "speech"}, {"op": "braille"}]
                idx.append((ci, len(ops) - 6, windows, text))
            scripts.append({"id": f"{name}/{b}", "ops": ops, "idx": idx, "isolate_on_panic": True})
    # separator settings changed one at a time inside a session (the compiled number patterns must follow each change)
    chains = [[(", " + NB + NNB, "."), (" " + NB + NNB, "."), (" " + NB + NNB, ","), (". " + NB + NNB, ","), (". " + NB + NNB + "'", ","), (". " + NB + NNB, ",")],
              [(". " + NB + NNB, ","), (". " + NB + NNB, "·"), (", " + NB + NNB, "·"), (", " + NB + NNB, "."), (",", "."), (", " + NB + NNB, ".")]]
    n_main = len(scripts)
    for chi, chain in enumerate(chains * (1 if tier == "quick" else 3)):
        ops = [{"op": "set_rules_dir", "dir": "$RULES"}, {"op": "set_pref", "name": "BrailleCode", "value": "Nemeth"}, {"op": "set_pref", "name": "DecimalSeparator", "value": "Custom"}]
        idx = []
        for B, D in chain:
            ops += [{"op": "set_pref", "name": "BlockSeparators", "value": B}, {"op": "set_pref", "name": "DecimalSeparators", "value": D}]
            for sepc in (",", ".", NB, "·", "'"):
                role = "m" if sepc == D else "b" if sepc in B else "x"
                for tail in (3, 2):
                    w = ["d", role] + ["d"] * tail
                    a, bdig = "7", "891"[:tail]
                    if sepc == "'":
                        continue        # an apostrophe token is made a prime before numbers are looked at (known finding)
                    split = f"<math><mn>{a}</mn><mo>{sepc}</mo><mn>{bdig}</mn><mo>+</mo><mi>x</mi></math>"
                    whole = f"<math><mn>{a}{sepc}{bdig}</mn><mo>+</mo><mi>x</mi></math>"
                    for n in (split, whole):
                        ops += [{"op": "set_mathml", "mathml": n}, {"op": "speech"}, {"op": "braille"}]
                    idx.append((("switch", w, sepc, B, D), len(ops) - 6, [a[-1] + sepc + bdig[0]], a + sepc + bdig))
        scripts.append({"id": f"switching{chi}", "ops": ops, "idx": idx})
    results = C.run_mcv([{k: v for k, v in s.items() if k in ("id", "ops", "isolate_on_panic")} for s in scripts], wd, timeout_ms=60000)
    events, back = [], []
    for s, r in zip(scripts, results):
        for ci, at, windows, text in s["idx"]:
            rs = r["results"][at:at + 6]
            if rs[0]["r"] != "ok" or rs[3]["r"] != "ok":
                continue            # a spelling set_mathml rejects is C08's / C17's business
            if isinstance(ci, tuple):
                _, w, blk, Bset, dec = ci
                cut, ctx, li, blks = ["-", "own"] + ["-"] * (len(w) - 2), "sum-left", -1, list(Bset)
            else:
                w, cut, ctx, li, blk, st = cases[ci]
                name, prefs, dec, blks = LOCALES[li]
            a, b = S.norm_out(rs[0]["v"]), S.norm_out(rs[3]["v"])
            strip = lambda x: re.sub(r"\s+(data-changed|data-id-added|id)='[^']*'", "", x)
            ta = mml.parse(rs[0]["v"], expand=False)
            mns = []

            def walk(n):
                if n["tag"] == "mn":
                    mns.append("".join(chr(c) for c in n["cp"]))
                for k in n["kids"]:
                    walk(k)
            if ta is not None:
                walk(ta)
            took = [t for t in mns if any(win in t for win in windows)]
            absorbed = [["d" if c.isdigit() else "m" if c == dec else "b" if c in blks or (c == blk and li >= 0) or (c in (" ", NB, NNB) and li >= 0) else "x" for c in t.strip()] for t in took]
            comma_absorbed = 1 if blk == "," and any("," in t for t in took) and any("," in win for win in windows) else 0
            events.append({"w": w, "sep": cut, "ctx": ctx, "blockIsComma": blk == "," and "b" in w, "markIsComma": dec == ",", "folded": 1 if strip(a) == strip(b) else 0, "absorbed": absorbed,
                           "commaAbsorbed": comma_absorbed,
                           "speechEq": 1 if (rs[1]["r"], rs[1]["v"]) == (rs[4]["r"], rs[4]["v"]) else 0,
                           "brailleEq": 1 if (rs[2]["r"], rs[2]["v"]) == (rs[5]["r"], rs[5]["v"]) else 0})
            back.append((s, at, ci, text))
    rejects, _, res = C.validate_trace("Trace_NumberFold", "Trace_NumberFold.cfg", events, wd, timeout=3000, heap="8g")
    classes = {}
    for t in res["printed"]:
        if isinstance(t, tuple) and t and t[0] == "CLASS":
            classes[t[2]] = classes.get(t[2], 0) + 1
    verdict = C.Verdict(PID)
    for idx, reason in rejects:
        s, at, ci, text = back[idx - 1]
        e = events[idx - 1]
        if isinstance(ci, tuple):
            _, w, blk, Bset, dec = ci
            cut, ctx, lname = e["sep"], "sum-left", f"in-session BlockSeparators={Bset!r} DecimalSeparators={dec!r}"
            upto = s["ops"][:at + 6]
            verdict.reject(f"{reason}|switch|{''.join(w)}|{blk}|{Bset}|{dec}", f"{reason}: {lname} after one-at-a-time changes: {s['ops'][at]['mathml']} -> folded={e['folded']} absorbed={[''.join(x) for x in e['absorbed']]}",
                           {"script": [o for o in upto if o["op"] in ("set_rules_dir", "set_pref", "set_mathml")] + [{"op": "speech"}]},
                           text=json.dumps({"reason": reason, "locale": "switching", "ctx": ctx, "w": "".join(w), "cut": "".join(x[0] for x in cut), "block": blk}, ensure_ascii=False))
            continue
        w, cut, ctx, li, blk, st = cases[ci]
        lname = LOCALES[li][0]
        split_xml, unsplit_xml = s["ops"][at]["mathml"], s["ops"][at + 3]["mathml"]
        what = f"{reason}: locale {lname}, context {ctx}: {split_xml} (one-token spelling {text!r}) -> folded={e['folded']} absorbed={[''.join(x) for x in e['absorbed']]} speechEq={e['speechEq']} brailleEq={e['brailleEq']}"
        setup = [o for o in s["ops"] if o.get("setup")]
        verdict.reject(f"{reason}|{lname}|{ctx}|{''.join(w)}|{''.join(x[0] for x in cut)}|{blk}", what,
                       {"script": setup + [{"op": "set_mathml", "mathml": split_xml}, {"op": "speech"}, {"op": "set_mathml", "mathml": unsplit_xml}, {"op": "speech"}]},
                       text=json.dumps({"reason": reason, "locale": lname, "ctx": ctx, "w": "".join(w), "cut": "".join(x[0] for x in cut), "block": blk, "absorbed": ["".join(x) for x in e["absorbed"]], "split": split_xml, "text": text}, ensure_ascii=False))
    rc = verdict.finish(wd)
    C.write_evidence(PID, tier, "model_checking", {
        "states": m1["distinct"], "transitions": m1["states"],
        "traces_validated_against_impl": len(events),
        "samples": [{"case": {k: events[0][k] for k in ("w", "sep", "ctx")}, "split": back[0][0]["ops"][back[0][1]]["mathml"]}],
        "evaluations": len(events), "distinct_nontrivial": len({(tuple(e["w"]), tuple(e["sep"]), e["ctx"], e["blockIsComma"]) for e in events}),
        "rule": "written forms = every sequence over {digit, block separator, decimal mark} up to the bound that starts and ends with a digit or "
                "mark and has a separator (TLC-enumerated); cuts = seeded (all cuts of forms with <= 3 separators in thorough); contexts = seeded "
                "subset of the 12; locale = seeded among US, decimal comma (Language), Swiss, forced point, es-MX, de-CH; distinct_nontrivial = distinct abstract cases",
        "exhaustive": False, "written_forms": len(forms), "forms_in_grammar": sum(1 for f in forms if f["number"]), "forms_not_numbers": sum(1 for f in forms if f["notNumber"]),
        "cases_by_class": classes, "trace_events_rejected": len(rejects),
    }, time.time() - t0, len(verdict.violations),
        ["the as-built scan and its five regexes are not modelled: the specification states what is owed to each class of input, the library "
         "is judged against that (property level only)",
         "a grouped fraction, one-digit-per-token input, hexadecimal blocks and a trailing mark at the very end are Unspecified"])
    return rc


def selftest(tier):
    wd = C.workdir("c16_self")
    base = {"w": list("dbdddmd"), "sep": ["-", "own", "-", "-", "-", "glued", "-"], "ctx": "sum-left", "blockIsComma": True, "markIsComma": False, "folded": 1, "absorbed": [list("dbdddmd")], "commaAbsorbed": 1, "speechEq": 1, "brailleEq": 1}
    ev = [base, dict(base, folded=0), dict(base, ctx="in-parens"), dict(base, w=list("dbddbdd"), sep=["-", "own", "-", "-", "own", "-", "-"], folded=0, absorbed=[list("dbddbdd")]),
          dict(base, w=list("dbddbdd"), sep=["-", "own", "-", "-", "own", "-", "-"], folded=0, absorbed=[])]
    rej, _, _ = C.validate_trace("Trace_NumberFold", "Trace_NumberFold.cfg", ev, wd)
    if [(i, r[:8]) for i, r in rej] != [(2, "split-nu"), (3, "comma-li"), (4, "absorbed")]:
        raise C.ToolError(f"selftest: {rej}")
    C.log("[C16] selftest ok")
    return 0


def replay(path):
    rp = json.load(open(path))["replay"]
    wd = C.workdir("c16_replay")
    res = C.run_mcv([{"id": "replay", "ops": rp["script"]}], wd, threads=1)
    for o, r in zip(rp["script"], res[0]["results"]):
        if o["op"] in ("set_mathml", "speech"):
            C.log(f"{o['op']}: {str(r['v'])[:700]}")
    return 0
