"""C17 - equivalent XML spellings of an expression give identical results.

M1: XmlSurface.tla (TLC): the string passes of set_mathml (entity substitution, MathJax class stripping, prefix stripping) and
    the parser on the surface choices of a document, every sequence of <= 3 rewrites: known names resolve, an unknown name is
    reported, spellings with one infoset give one result; the entity regex of the pinned commit is refuted (names with digits),
    and so is 'token text is kept' for text that looks like a MathJax class attribute (known finding).
M2: every reachable spelling is applied to suite expressions by a serializer that writes the same infoset with those surface
    choices; all 2 125 names of entities.in are written against their numeric spelling; unknown names are tried.
M3: Trace_Xml.tla judges each (base, variant) pair and each entity."""
import json
import os
import random
import re
import time
import xml.etree.ElementTree as ET

import common as C
import mml
import session as S

PID = "C17"
MML_NS = "http://www.w3.org/1998/Math/MathML"


def reverse_entities():
    tab = mml.entity_table()
    plain, digit = {}, {}
    for n, v in tab.items():
        if len(v) != 1 or n in ("amp", "lt", "gt", "quot", "apos") or v in "&<>\"'" or ord(v) < 0x80:
            continue
        (digit if re.search(r"\d", n) else plain).setdefault(v, n)
    return plain, digit


def emit(el, sp, plain, digit, rng, depth=0, root=True):
    """Serialize with the surface choices of sp (a spelling record of XmlSurface.tla)."""
    tag = mml.strip_ns(el.tag)
    pre = {"none": "", "m": "m:", "mml": "mml:"}[sp["prefix"]]
    q = "'" if sp["quote"] == "single" else '"'
    attrs = []
    if root:
        if sp["prefix"] != "none":
            attrs.append(f"xmlns:{pre[:-1]}={q}{MML_NS}{q}")
        elif sp.get("defaultDecl"):
            attrs.append(f"xmlns={q}{MML_NS}{q}")
        other = f"xmlns:xlink={q}http://www.w3.org/1999/xlink{q}"
        if sp.get("otherNs") == "after":
            attrs.append(other)
        elif sp.get("otherNs") == "before":
            attrs.insert(0, other)
    for k, v in el.attrib.items():
        k = mml.strip_ns(k)
        v = v.replace("&", "&amp;").replace("<", "&lt;").replace(q, "&quot;" if q == '"' else "&apos;")
        attrs.append(f"{k}={q}{v}{q}")
    if sp["mjx"] != "none" and tag in ("mi", "mo", "mrow", "mn") and "class" not in el.attrib:
        attrs.append(f"class={q}{'MJX-TeXAtom-ORD' if sp['mjx'] == 'v2' else 'data-mjx-texclass-ORD'}{q}")
    nl = ("\n" + "  " * depth) if sp["space"] else ""
    out = f"{nl}<{pre}{tag}{''.join(' ' + a for a in attrs)}>"
    if root and sp["pi"]:
        out += "<?display inline?>"

    def text(t, pad):
        res = []
        for ch in t:
            if ch in "&<>":
                res.append({"&": "&amp;", "<": "&lt;", ">": "&gt;"}[ch])
            elif ord(ch) < 0x80:
                res.append(ch)
            elif sp["entity"] == "named" and ch in plain:
                res.append(f"&{plain[ch]};")
            elif sp["entity"] == "named-with-digit" and ch in digit:
                res.append(f"&{digit[ch]};")
            elif sp["entity"] == "dec":
                res.append(f"&#{ord(ch)};")
            elif sp["entity"] == "hex":
                res.append(f"&#x{ord(ch):X};")
            else:
                res.append(ch)
        s = "".join(res)
        if pad and sp["space"] and s.strip():
            # MathML collapses runs of white space inside token text and trims its ends
            mode = rng.choice(["ends", "interior", "both"])
            inner = s.strip(" ").replace(" ", " \n   ") if mode != "ends" else s
            return (" " + inner + "\n ") if mode != "interior" else inner
        return s
    kids = [k for k in el if isinstance(k.tag, str)]
    if tag in mml.TOKEN_TAGS and not kids and not (el.text or "").strip():
        out += {"bare": "", "space": " \n ", "ref": "&#x20;", "comment": "<!-- nothing -->", "pi": "<?verif nothing?>"}[sp.get("emptyTok", "bare")]
        return out + f"</{pre}{tag}>"
    out += text(el.text or "", not kids)
    for i, k in enumerate(kids):
        if sp["comment"] and i == 0:
            out += "<!-- a comment with <tags> & things -->"
        out += emit(k, sp, plain, digit, rng, depth + 1, False)
        out += text(k.tail or "", False) if (k.tail or "").strip() else ""
    out += f"{nl if kids else ''}</{pre}{tag}>"
    return out


LOOKALIKE = {"class": ("<mtext>class=&#39;MJX-1&#39; t</mtext>", "<mtext>class='MJX-1' t</mtext>"),
             "prefix": (f"<mtext>see xmlns&#58;m='{MML_NS}' and xmlns&#58;bar</mtext>", f"<mtext>see xmlns:m='{MML_NS}' and xmlns:bar</mtext>")}


def with_lookalike(xml, kind, raw):
    """the document plus a token whose TEXT looks like what a pass deletes, written safely (numeric references) or as is."""
    safe, hazardous = LOOKALIKE[kind]
    i = xml.rfind("</")
    return xml[:i] + (hazardous if raw else safe) + xml[i:]


def run(tier):
    t0 = time.time()
    wd = C.workdir("c17")
    rng = random.Random(C.seed())
    m1 = C.tlc_model_check("XmlSurface", "MC_XmlSurface_intended.cfg", wd, workers=4, timeout=600, coverage=False)
    asb = C.run_tlc("XmlSurface", "MC_XmlSurface_asbuilt519.cfg", wd, workers=2, timeout=300, coverage=False)
    if asb["violation"] != "KnownNamesResolve":
        raise C.ToolError(f"the entity regex of the pinned commit is not refuted by TLC ({asb['violation']}, {asb['error']})")
    asb_ns = C.run_tlc("XmlSurface", "MC_XmlSurface_asbuilt_ns.cfg", wd, workers=2, timeout=300, coverage=False)
    if asb_ns["violation"] != "KnownNamesResolve":
        raise C.ToolError(f"the namespace declaration rewrite of the pinned commit is not refuted by TLC ({asb_ns['violation']}, {asb_ns['error']})")
    look = C.run_tlc("XmlSurface", "MC_XmlSurface_lookalike.cfg", wd, workers=2, timeout=300, coverage=False)
    if look["violation"] != "TextIsKept":
        raise C.ToolError(f"'token text is kept' is not refuted by TLC for look-alike text ({look['violation']}, {look['error']})")
    ex = C.run_tlc("XmlSurface", "MC_XmlSurface_intended.cfg", wd, workers=1, timeout=600, coverage=False)
    spellings = []
    for s in C.replay_lines(ex):
        if s not in spellings:
            spellings.append(s)
    if len(spellings) < 300:
        raise C.ToolError(f"XmlSurface exported only {len(spellings)} spellings")
    plain, digit = reverse_entities()
    # base documents: suite expressions that the independent parser accepts; those with a character that has a name (with and
    # without digit) serve the entity rewrites
    docs = []
    for c in mml.corpus():
        x = c["mathml"]
        if len(x) > 2500 or "<!--" in x or "<?" in x:
            continue
        try:
            el = ET.fromstring(mml.expand_entities(x))
        except ET.ParseError:
            continue
        if mml.strip_ns(el.tag) != "math" or any("class" in mml.strip_ns(k) for e in el.iter() for k in e.attrib):
            continue
        if any(mml.strip_ns(e.tag) in mml.TOKEN_TAGS and len(list(e)) for e in el.iter()):
            continue            # mixed content inside a token: white space there is content, not surface
        txt = "".join(el.itertext())
        docs.append((el, any(ch in plain for ch in txt), any(ch in digit for ch in txt)))
    extra = ["<math><mn>&#xBD;</mn><mo>+</mo><msup><mi>x</mi><mn>&#xB2;</mn></msup><mo>&#x2234;</mo><mi>&#x3B1;</mi></math>",
             "<math><mfrac><mn>1</mn><mn>2</mn></mfrac><mo>=</mo><mn>&#xBD;</mn><mo>&#x2264;</mo><mi>&#x3B2;</mi><mtext>&#xA0;if &#xBE;</mtext></math>",
             "<math><mi>x</mi><mo>&#x2208;</mo><mi>S</mi><mtext>such that it holds</mtext><mi>&#x3B1;</mi><mo>&#x2264;</mo><mn>&#xBD;</mn></math>"]
    for x in extra:
        docs.append((ET.fromstring(x), True, True))
    # documents with token elements that have no text (scripts on nothing, a missing numerator, an empty operator)
    with_empty = [(ET.fromstring(x), False, False) for x in (
        "<math><msup><mi>x</mi><mi></mi></msup><mo>+</mo><mn>1</mn></math>", "<math><mi>a</mi><mi></mi><mo>=</mo><mfrac><mn></mn><mn>2</mn></mfrac></math>",
        "<math><mrow><mo></mo><mi>z</mi></mrow><mo>-</mo><msub><mi>k</mi><mn></mn></msub></math>", "<math><mi>p</mi><mn></mn><mtext></mtext><mi>q</mi></math>",
        "<math><munder><mo>&#x2211;</mo><mi></mi></munder><mi>t</mi></math>")]
    with_digit = [d for d in docs if d[2]]
    with_plain = [d for d in docs if d[1]]
    base_sp = {"entity": "raw", "prefix": "none", "space": False, "comment": False, "pi": False, "quote": "single", "mjx": "none", "lookalike": "none", "defaultDecl": False, "otherNs": "none", "emptyTok": "bare"}
    pairs = []          # (spelling, base xml, variant xml)
    per = 3 if tier == "quick" else 25
    for si, sp in enumerate(spellings):
        r2 = random.Random(C.seed() * 13 + si)
        pool = with_digit if sp["entity"] == "named-with-digit" else with_plain if sp["entity"] in ("named", "dec", "hex", "unknown-name") else docs
        if sp.get("emptyTok", "bare") != "bare" and sp["entity"] == "raw":
            pool = with_empty
        for el, _, _ in r2.sample(pool, min(per, len(pool))):
            base = emit(el, base_sp, plain, digit, r2)
            var = emit(el, sp, plain, digit, r2)
            if sp["entity"] == "unknown-name":
                var = re.sub(r"(<(?:m:|mml:)?mi[^>]*>)", lambda m: m.group(1) + "&nosuchentity7;", var, count=1)
                if "&nosuchentity7;" not in var:
                    continue
            if sp["lookalike"] != "none":
                base, var = with_lookalike(base, sp["lookalike"], False), with_lookalike(var, sp["lookalike"], True)
            if var != base:
                pairs.append((sp, base, var))
    tab = mml.entity_table()
    ent = []
    for n, v in sorted(tab.items()):
        host = "mtext" if any(ord(c) < 0x21 for c in v if c != "&") and "&#" not in v else "mi"
        if n in ("amp", "lt", "gt", "quot", "apos"):
            num = {"amp": "&#38;", "lt": "&#60;", "gt": "&#62;", "quot": "&#34;", "apos": "&#39;"}[n]
        else:
            v = re.sub(r"&#x([0-9A-Fa-f]+);", lambda m: chr(int(m.group(1), 16)), v)        # amp, lt and relatives map to a reference
            # the character(s) the name stands for are taken from an independent table (Python's html.entities.html5, the WHATWG list)
            # where it knows the name - the library's own table cannot vouch for itself; the 2007 W3C set the library follows puts
            # a space in front of four combining marks, which is kept
            import html.entities
            w = html.entities.html5.get(n + ";")
            if w is not None and v != " " + w:
                v = w
            num = "".join(f"&#x{ord(c):X};" for c in v)
        ent.append(("with-digit" if re.search(r"\d", n) else "plain", n, f"<math><{host}>a&{n};b</{host}></math>", f"<math><{host}>a{num}b</{host}></math>"))
    # text that looks like an entity inside a comment or a processing instruction between elements: insignificant, whatever it says
    body = "<mi>x</mi><mo>+</mo><mn>1</mn>"
    for junk in ("&nosuch;", "&alpha; &amp; &lt;", "a & b", "&#x41; &frac12;"):
        ent.append(("insignificant-text", "comment", f"<math><!-- {junk} -->{body}</math>", f"<math>{body}</math>"))
        ent.append(("insignificant-text", "pi", f"<math><mi>x</mi><?tex {junk} ?><mo>+</mo><mn>1</mn></math>", f"<math>{body}</math>"))
    for i in range(60):
        n = "".join(rng.choice("abcdefghijklmnopqrstuvwxyzABCDEFGH0123456789") for _ in range(rng.randint(3, 9)))
        n = "q" + n
        if n not in tab:
            ent.append(("unknown", n, f"<math><mi>a&{n};b</mi></math>", "<math><mi>ab</mi></math>"))
    scripts = []
    items = [("sp", p) for p in pairs] + [("en", e) for e in ent]
    for b in range(0, len(items), 150):
        ops = [{"op": "set_rules_dir", "dir": "$RULES", "setup": True}, {"op": "set_pref", "name": "BrailleCode", "value": "Nemeth", "setup": True}]
        for kind, it in items[b:b + 150]:
            base, var = (it[1], it[2]) if kind == "sp" else (it[3], it[2])
            for x in (base, var):
                ops += [{"op": "set_mathml", "mathml": x}, {"op": "speech"}, {"op": "braille"}]
        scripts.append({"id": f"xml{b}", "ops": ops, "isolate_on_panic": True})
    results = C.run_mcv(scripts, wd, timeout_ms=60000)
    events, back = [], []
    k = 0
    for s, r in zip(scripts, results):
        rs = r["results"][2:]
        for j in range(0, len(rs), 6):
            kind, it = items[k]
            k += 1
            b3, v3 = rs[j:j + 3], rs[j + 3:j + 6]
            if b3[0]["r"] != "ok" and not (kind == "en" and it[0] == "unknown"):
                continue        # a base document the library does not accept says nothing about spellings
            same = 1 if all((x["r"], S.norm_out(x["v"])) == (y["r"], S.norm_out(y["v"])) for x, y in zip(b3, v3)) else 0
            res = "ok" if v3[0]["r"] == "ok" else "err"
            name = "nosuchentity7" if kind == "sp" else it[1]
            named = 1 if res == "err" and name in str(v3[0]["v"]) and "No entity named" in str(v3[0]["v"]) else 0
            if kind == "sp":
                events.append({"sp": it[0], "res": res, "same": same, "named": named})
            else:
                events.append({"class": it[0], "res": res, "same": same, "named": named})
            back.append((kind, it, v3[0]))
    rejects, drifts, _ = C.validate_trace("Trace_Xml", "Trace_Xml.cfg", events, wd, timeout=1800, heap="6g")
    verdict = C.Verdict(PID)
    for idx, reason in rejects:
        kind, it, v0 = back[idx - 1]
        if kind == "sp":
            sp, base, var = it
            diff = {k2: v for k2, v in sp.items() if v != base_sp[k2]}
            text = f"{reason}: surface choices {diff}: {var[:300]!r} against {base[:200]!r} -> {v0['r']} {str(v0['v'])[:200]!r}"
            verdict.reject(f"{reason}|{json.dumps(diff, sort_keys=True)}|{S.fp(base)}", text,
                           {"script": [{"op": "set_rules_dir", "dir": "$RULES"}, {"op": "set_mathml", "mathml": base}, {"op": "speech"}, {"op": "set_mathml", "mathml": var}, {"op": "speech"}]},
                           text=json.dumps({"reason": reason, "choices": diff, "variant": var[:500]}, ensure_ascii=False))
        else:
            cls, n, var, num = it
            text = f"{reason}: &{n}; ({cls}): {var} against {num} -> {v0['r']} {str(v0['v'])[:200]!r}"
            verdict.reject(f"{reason}|{n}", text, {"script": [{"op": "set_rules_dir", "dir": "$RULES"}, {"op": "set_mathml", "mathml": num}, {"op": "speech"}, {"op": "set_mathml", "mathml": var}, {"op": "speech"}]},
                           text=json.dumps({"reason": reason, "entity": n, "class": cls, "variant": var}, ensure_ascii=False))
    for idx, reason in drifts[:20]:
        verdict.add_drift(f"{reason}: {json.dumps(events[idx - 1].get('sp'))} {back[idx - 1][1][2][:400]!r}")
    rc = verdict.finish(wd)
    C.write_evidence(PID, tier, "model_checking", {
        "states": m1["distinct"], "transitions": m1["states"],
        "traces_validated_against_impl": len(events),
        "samples": [{"choices": pairs[0][0], "variant": pairs[0][2][:300]}],
        "evaluations": len(events), "distinct_nontrivial": len({(json.dumps(b[1][0], sort_keys=True), S.fp(b[1][1])) if b[0] == "sp" else b[1][1] for b in back}),
        "rule": "spellings = every state of XmlSurface.tla within 3 rewrites, each applied to seeded suite expressions that hold a character with "
                "an entity name where the spelling needs one; entities = all names of entities.in against their numeric spelling + 60 unknown names; "
                "distinct_nontrivial = distinct (spelling, base) pairs + entity names",
        "exhaustive": False, "spellings": len(spellings), "pairs_judged": sum(1 for b in back if b[0] == "sp"), "entities_judged": sum(1 for b in back if b[0] == "en"),
        "entity_table_size": len(tab), "base_documents": len(docs), "asbuilt_pinned_commit_refuted_by": asb["violation"], "lookalike_refuted_by": look["violation"],
        "model_drift_events": len(drifts), "trace_events_rejected": len(rejects),
    }, time.time() - t0, len(verdict.violations),
        ["the variant is written by a serializer from the parsed base document, so both have one infoset by construction (the independent "
         "parser of python3 re-reads a sample as a cross-check)",
         "attribute values that contain 'xmlns:' or 'class=' are not generated (the suite has none)"])
    return rc


def selftest(tier):
    wd = C.workdir("c17_self")
    sp = {"entity": "named", "prefix": "m", "space": True, "comment": False, "pi": False, "quote": "single", "mjx": "none", "lookalike": "none", "defaultDecl": False, "otherNs": "none", "emptyTok": "bare"}
    ev = [{"sp": sp, "res": "ok", "same": 1, "named": 0}, {"sp": sp, "res": "ok", "same": 0, "named": 0}, {"sp": dict(sp, entity="unknown-name"), "res": "ok", "same": 0, "named": 0},
          {"class": "with-digit", "res": "err", "same": 0, "named": 0}, {"class": "unknown", "res": "err", "same": 0, "named": 1}]
    rej, _, _ = C.validate_trace("Trace_Xml", "Trace_Xml.cfg", ev, wd)
    if [i for i, _ in rej] != [2, 3, 4]:
        raise C.ToolError(f"selftest: {rej}")
    C.log("[C17] selftest ok")
    return 0


def replay(path):
    rp = json.load(open(path))["replay"]
    wd = C.workdir("c17_replay")
    res = C.run_mcv([{"id": "replay", "ops": rp["script"]}], wd, threads=1)
    for o, r in zip(rp["script"], res[0]["results"]):
        C.log(f"{o['op']}: {r['r']} {str(r['v'])[:500]}")
    return 0
