"""C19 - illegal intent values are ignored or reported as configured.

M1: Intent.tla (TLC): every string of character classes up to a bound through the lexer of infer_intent.rs and the grammar of its
    comments under both readings of 'f()': clearly illegal values are illegal under both, clearly legal simple values legal under
    both, the readings differ only where an empty argument list occurs. The strings are exported.
M2: each string is concretised (two representatives per class, also non-ASCII; references resolvable or dangling) as the intent of
    five host expressions; speech is asked under IntentErrorRecovery = IgnoreIntent and = Error, and of the host without the
    attribute.
M3: Trace_Intent.tla judges the five clauses of the property on every event."""
import json
import random
import re
import time

import common as C
import mml
import session as S

PID = "C19"
REP = {"ns": ["f", "q", "λ", "_"], "dg": ["7", "3"], "mi": ["-"], "dt": ["."], "co": [":"], "dl": ["$"], "lp": ["("], "cm": [","], "rp": [")"],
       "sp": [" ", "\t"], "ot": ["#", "{", "%", "~", "\u00b6", "!", ";", "@"]}
# (name, template, {arg name: what it is spoken as}, {arg name: where the arg sits relative to the element with the intent})
# placements are those of Intent.tla: a reference reaches an arg through elements that have neither an arg nor an intent of their own
HOSTS = [("mrow", "<math><mrow{I}><mi arg='a'>x</mi><mo>+</mo><mi arg='b'>y</mi></mrow></math>", {"a": "x", "b": "y"}, {"a": "child", "b": "child"}),
         ("msup", "<math><msup{I}><mi arg='a'>x</mi><mn arg='b'>2</mn></msup></math>", {"a": "x", "b": "2"}, {"a": "child", "b": "child"}),
         ("mfrac", "<math><mfrac{I}><mi arg='a'>x</mi><mi arg='b'>y</mi></mfrac></math>", {"a": "x", "b": "y"}, {"a": "child", "b": "child"}),
         ("mi", "<math><mi{I}>x</mi><mo>=</mo><mn>1</mn></math>", {}, {}),
         ("mtable", "<math><mtable{I}><mtr><mtd arg='a'><mi>x</mi></mtd><mtd arg='b'><mi>y</mi></mtd></mtr></mtable></math>", {"a": "x", "b": "y"}, {"a": "below-plain", "b": "below-plain"}),
         ("below-plain", "<math><mrow{I}><msqrt><mi arg='a'>x</mi></msqrt><mo>+</mo><mi arg='b'>y</mi></mrow></math>", {"a": "x", "b": "y"}, {"a": "below-plain", "b": "child"}),
         ("below-other-arg", "<math><mrow{I}><msqrt arg='c'><mi arg='a'>x</mi></msqrt><mo>+</mo><mi arg='b'>y</mi></mrow></math>", {"a": "x", "b": "y", "c": "x"},
          {"a": "below-other-arg", "b": "child", "c": "child"}),
         ("below-other-intent", "<math><mrow{I}><msqrt intent='blarg($a)'><mi arg='a'>x</mi></msqrt><mo>+</mo><mi arg='b'>y</mi></mrow></math>", {"a": "x", "b": "y"},
          {"a": "below-other-intent", "b": "child"}),
         # rows whose other children are cleaned away (phantom, empty row, alignment marks): the row still carries the intent, its
         # only surviving child still carries the arg
         ("row-with-phantom", "<math><mi>k</mi><mo>=</mo><mrow{I}><mi arg='a'>x</mi><mphantom><mi>y</mi></mphantom></mrow></math>", {"a": "x"}, {"a": "child"}),
         ("row-with-empty-sibling", "<math><mi>k</mi><mo>=</mo><mrow{I}><mrow/><mn arg='a'>7</mn><maligngroup/></mrow></math>", {"a": "7"}, {"a": "child"}),
         ("deep-other-arg", "<math><mfrac{I}><mrow arg='c'><mi>k</mi><mo>-</mo><msup><mi arg='a'>x</mi><mn>2</mn></msup></mrow><mi arg='b'>y</mi></mfrac></math>", {"a": "x", "b": "y", "c": "k"},
          {"a": "below-other-arg", "b": "child", "c": "child"})]
HEADS = ["zork", "frobnitz", "quux", "blarg"]


def attr(v):
    return v.replace("&", "&amp;").replace("<", "&lt;").replace("'", "&apos;").replace("\t", "&#9;")


def concretise(cls, rng, args):
    """class string -> (value, dangling, head words, referenced args). Names after '$' are drawn from the host's args or are dangling."""
    out, i, dangling, refs, head = [], 0, 0, [], None
    n = len(cls)
    while i < n:
        c = cls[i]
        if c == "ns":
            j = i
            while j < n and cls[j] in ("ns", "dg", "mi", "dt"):
                j += 1
            prev = cls[i - 1] if i > 0 else ""
            run = cls[i:j]
            if prev == "dl":
                if all(x == "ns" for x in run) and args and rng.random() < 0.8:
                    name = rng.choice(sorted(args))
                    refs.append(name)
                    # a name of exactly this many ns characters: pad by repeating is not possible for an arg name, so only use when one char
                    if len(run) != 1:
                        name = "z" * len(run)
                        refs.pop()
                        dangling = 1
                else:
                    name = "".join(rng.choice(REP[x]) if x != "ns" else "z" for x in run)
                    dangling = 1
                out.append(name)
            else:
                if prev != "co" and head is None and all(x == "ns" for x in run) and len(run) >= 1:
                    name = (rng.choice(HEADS) * 3)[:len(run)] if len(run) > 1 else rng.choice(["f", "q", "λ"])
                    head = name
                else:
                    name = "".join(rng.choice(REP[x]) for x in run)
                    if name[0] in "_" and len(name) == 1:
                        name = "q"
                out.append(name)
            i = j
        else:
            out.append(rng.choice(REP[c]))
            i += 1
    return "".join(out), dangling, head, refs


def run(tier):
    t0 = time.time()
    wd = C.workdir("c19")
    rng = random.Random(C.seed())
    m1 = C.tlc_model_check("Intent", "MC_Intent_quick.cfg" if tier == "quick" else "MC_Intent.cfg", wd, workers=12, timeout=2400, coverage=False)
    ex = C.run_tlc("Intent", "MC_Intent_export.cfg", wd, workers=4, timeout=1200, coverage=False)
    strings = C.replay_lines(ex)
    if len(strings) < 5000:
        raise C.ToolError(f"Intent exported only {len(strings)} strings")
    known = set()
    import glob
    import os
    for f in glob.glob(os.path.join(C.REPO, "Rules", "**", "*.yaml"), recursive=True):
        for m in re.finditer(r"tag:\s*\[?([^\]\n#]+)", open(f, encoding="utf-8").read()):
            for t in m.group(1).split(","):
                known.add(t.strip().strip("\"'"))
    cases = []
    illegal = [s for s in strings if s["illegal"]]
    simple = [s for s in strings if s["simple"]]
    legal = [s for s in strings if s["legal"] and not s["simple"]]
    other = [s for s in strings if not s["illegal"] and not s["legal"]]
    n_ill, n_leg, n_oth = (1500, 1500, 400) if tier == "quick" else (12000, 12000, 3000)
    chosen = rng.sample(illegal, min(n_ill, len(illegal))) + simple + rng.sample(legal, min(n_leg, len(legal))) + rng.sample(other, min(n_oth, len(other)))
    # longer values: nested applications and the templates of the statement, as class strings
    def cl(txt):
        m = {"f": "ns", "7": "dg", "-": "mi", ".": "dt", ":": "co", "$": "dl", "(": "lp", ",": "cm", ")": "rp", " ": "sp", "#": "ot"}
        return [m[c] for c in txt]
    for txt in ["f($f,$f)", "f($f , $f)", "ff($f)", "f($f,$f,$f)", "f(f($f),$f)", "f($f)($f)", "f:ff($f,$f)", "$f", "7", "-7.7", ":ff", ":ff:ff", "f(", "f($f", "f($f))", "f(,$f)", "f($f,)",
                "f($f)f", "f($f)7", "f(#)", "(f)", "f($)", "f(:)", "f()", "f( )", "7($f)", "f(7,-7)", "f(f(f(f($f))))", "ff-f.f($f)", "f ( $f , $f )"]:
        chosen.append({"s": cl(txt), "illegal": None, "simple": None, "legal": None})
    for nlen in (1, 2, 4, 6, 8):
        for nrefs in (1, 2, 3):
            for spaced in (False, True):
                sep = " , " if spaced else ","
                chosen.append({"s": cl("f" * nlen + ("( " if spaced else "(") + sep.join(["$f"] * nrefs) + (" )" if spaced else ")")), "illegal": False, "simple": True, "legal": True})
    # chains of one-argument applications of a name (Intent.tla ClearlyLegalChain): every argument of every link is owed its mention
    for nlen in (1, 3):
        for links in (2, 3, 4, 5):
            chosen.append({"s": cl("f" * nlen + "($f)" * links), "illegal": False, "simple": False, "legal": True})
    for depth in ((10, 40) if tier == "quick" else (10, 40, 200, 1000)):
        chosen.append({"s": cl("f(" * depth + "$f" + ")" * depth), "illegal": False, "simple": False, "legal": True})
    for si, st in enumerate(chosen):
        r2 = random.Random(C.seed() * 17 + si)
        hosts = r2.sample(HOSTS, 1 if tier == "quick" and not st.get("simple") else 2 if tier == "quick" else 3)
        for hname, tmpl, args, places in hosts:
            v, dangling, head, refs = concretise(st["s"], r2, args)
            cases.append((st["s"], hname, tmpl, args, v, dangling, head, refs, places))
    # chains with every link on an argument of its own (five distinct, in-scope arguments): a link that is lost shows as a missing mention
    row5 = ("mrow5", "<math><mrow{I}>" + "<mo>+</mo>".join(f"<mn arg='{a_}'>{n_}</mn>" for a_, n_ in zip("abcde", ("11", "22", "33", "44", "55"))) + "</mrow></math>",
            dict(zip("abcde", ("11", "22", "33", "44", "55"))), {a_: "child" for a_ in "abcde"})
    for hi_, head_ in enumerate(HEADS[:3] + ["f"]):
        for links in (2, 3, 4, 5):
            for order in ("abcde", "edcba", "acebd"):
                refs_ = list(order[:links])
                v_ = head_ + "".join(f"(${r_})" for r_ in refs_)
                cases.append((cl("f" * len(head_) + "($f)" * links), row5[0], row5[1], row5[2], v_, 0, head_, refs_, row5[3]))
    # the recorded examples of two open findings (judged in every run): a head that is the name of a MathML token element, and a concept
    # the rules know with another number of arguments
    two = ("mrow", "<math><mrow{I}><mi arg='a'>x</mi><mo>+</mo><mi arg='b'>y</mi></mrow></math>", {"a": "x", "b": "y"}, {"a": "child", "b": "child"})
    for v_, shape in (("mo($a)($b)", "ff($f)($f)"), ("mi($a)", "ff($f)"), ("mtext($a)", "fffff($f)"), ("fraction($a)", "ffffffff($f)")):
        cases.append((cl(shape), two[0], two[1], two[2], v_, 0, v_.split("(")[0], re.findall(r"\$(\w)", v_), two[3]))
    # the same VALUE on one element after another in one session: whether a value is legal depends on the element it sits on (what
    # its references reach), so a verdict reached for one element must not carry over to the next
    n_main = len(cases)
    byname = {h[0]: h for h in HOSTS}
    orders = [("below-other-arg", "mrow"), ("mrow", "below-other-intent", "mrow"), ("deep-other-arg", "mfrac", "below-plain"), ("mi", "msup", "below-other-arg", "msup")]
    carry = [st for st in chosen if st.get("simple")]
    if tier == "quick":
        carry = carry[:60]
    for ci, st in enumerate(carry):
        r2 = random.Random(C.seed() * 29 + ci)
        v, dang0, head, refs = concretise(st["s"], r2, byname["mrow"][2])
        for hname in orders[ci % len(orders)]:
            _, tmpl, args, places = byname[hname]
            dangling = 1 if dang0 or any(a not in args for a in refs) else 0
            cases.append((st["s"], hname, tmpl, args, v, dangling, head, refs, places))
    scripts = []
    for b in range(0, len(cases), 100):
        ops = [{"op": "set_rules_dir", "dir": "$RULES", "setup": True}, {"op": "set_pref", "name": "BrailleCode", "value": "Nemeth", "setup": True}]
        for cls, hname, tmpl, args, v, dangling, head, refs, places in cases[b:b + 100]:
            with_i, plain = tmpl.replace("{I}", f" intent='{attr(v)}'"), tmpl.replace("{I}", "")
            ops += [{"op": "set_pref", "name": "IntentErrorRecovery", "value": "IgnoreIntent"}, {"op": "set_mathml", "mathml": plain}, {"op": "speech"},
                    {"op": "set_mathml", "mathml": with_i}, {"op": "braille"}, {"op": "speech"}, {"op": "braille"}, {"op": "nav_mathml"},
                    {"op": "set_pref", "name": "IntentErrorRecovery", "value": "Error"}, {"op": "set_mathml", "mathml": with_i}, {"op": "speech"}]
        scripts.append({"id": f"intent{b}", "ops": ops, "isolate_on_panic": True})
    results = C.run_mcv(scripts, wd, timeout_ms=120000, stack_mb=64)
    events, back = [], []
    k = 0
    for s, r in zip(scripts, results):
        rs = r["results"][2:]
        for j in range(0, len(rs), 11):
            case = cases[k]
            case_index = k
            k += 1
            cls, hname, tmpl, args, v, dangling, head, refs, places = case
            g = rs[j:j + 11]
            if g[1]["r"] != "ok" or g[2]["r"] != "ok":
                continue            # the host itself is not spoken: nothing to compare with
            plain_speech = g[2]["v"]
            set_ok = 1 if g[3]["r"] == "ok" and g[9]["r"] == "ok" else 0
            ign, err = g[5], g[10]
            b1, b2 = g[4], g[6]
            nav = g[7]
            navxml = nav["v"][0] if nav["r"] == "ok" and isinstance(nav["v"], list) else ""
            pure = 1
            if set_ok and ign["r"] == "ok":
                if (b1["r"], b1["v"]) != (b2["r"], b2["v"]) or "data-intent-property" in navxml or (nav["r"] == "ok" and "intent=" not in navxml):
                    pure = 0
            mentions = 1
            if ign["r"] == "ok" and head:
                sp = ign["v"].lower()
                words = [w for w in re.split(r"[-_.]", head.lower()) if w]
                spoken_args = [args[a] for a in refs if a in args and places.get(a) in ("child", "below-plain")]
                mentions = 1 if all(w in sp or w == "λ" and "lambda" in sp for w in words) and all(a in sp for a in spoken_args) else 0
            events.append({"s": cls, "dangling": dangling, "refPlaces": [places[a] for a in refs if a in places], "known": 1 if head in known else 0, "setOk": set_ok,
                           "ignoreRes": ign["r"] if ign["r"] in ("ok", "err", "panic") else "err", "errorRes": err["r"] if err["r"] in ("ok", "err", "panic") else "err",
                           "ignoreIsPlain": 1 if ign["r"] == "ok" and ign["v"] == plain_speech else 0,
                           "bothEqual": 1 if (ign["r"], ign["v"]) == (err["r"], err["v"]) else 0, "mentions": mentions, "pure": pure})
            back.append((case, ign, err, plain_speech, case_index))
    rejects, _, _ = C.validate_trace("Trace_Intent", "Trace_Intent.cfg", events, wd, timeout=3000, heap="8g")
    verdict = C.Verdict(PID)
    for idx, reason in rejects:
        (cls, hname, tmpl, args, v, dangling, head, refs, places), ign, err, plain_speech, case_index = back[idx - 1]
        xml = tmpl.replace("{I}", f" intent='{attr(v)}'")
        # the same value on other elements earlier in the session belongs to the replay (carry-over sequences)
        earlier = []
        kk = case_index - 1
        while kk >= n_main and cases[kk][4] == v:
            earlier.insert(0, cases[kk][2].replace("{I}", f" intent='{attr(v)}'"))
            kk -= 1
        pre = []
        for x in earlier:
            pre += [{"op": "set_pref", "name": "IntentErrorRecovery", "value": "IgnoreIntent"}, {"op": "set_mathml", "mathml": x}, {"op": "speech"},
                    {"op": "set_pref", "name": "IntentErrorRecovery", "value": "Error"}, {"op": "set_mathml", "mathml": x}, {"op": "speech"}]
        text = f"{reason}: intent={v!r} on {hname}: IgnoreIntent -> {ign['r']} {str(ign['v'])[:120]!r}; Error -> {err['r']} {str(err['v'])[:160]!r}; without the attribute {plain_speech!r}"
        verdict.reject(f"{reason}|{hname}|{v}", text,
                       {"script": [{"op": "set_rules_dir", "dir": "$RULES"}] + pre + [{"op": "set_pref", "name": "IntentErrorRecovery", "value": "IgnoreIntent"}, {"op": "set_mathml", "mathml": xml}, {"op": "speech"},
                                   {"op": "set_pref", "name": "IntentErrorRecovery", "value": "Error"}, {"op": "set_mathml", "mathml": xml}, {"op": "speech"}]},
                       text=json.dumps({"reason": reason, "host": hname, "intent": v, "classes": " ".join(cls), "ignore": str(ign["v"])[:200], "error": str(err["v"])[:300]}, ensure_ascii=False))
    rc = verdict.finish(wd)
    C.write_evidence(PID, tier, "model_checking", {
        "states": m1["distinct"], "transitions": m1["states"],
        "traces_validated_against_impl": len(events),
        "samples": [{"intent": back[0][0][4], "host": back[0][0][1], "ignore": back[0][1]["v"], "error_mode": back[0][2]["r"]}],
        "evaluations": len(events), "distinct_nontrivial": len({(b[0][1], b[0][4]) for b in back}),
        "rule": "values = class strings exported by TLC (all clearly legal simple ones, seeded samples of the clearly illegal, the other legal and the "
                "rest) + the statement's templates + nestings of depth 10..1000, concretised with two representatives per class (non-ASCII "
                "included), references resolvable or dangling; hosts = mrow, msup, mfrac, mi, mtable (seeded); both recovery settings; "
                "distinct_nontrivial = distinct (host, value)",
        "exhaustive": False, "class_strings_exported": len(strings), "clearly_illegal": len(illegal), "clearly_legal_simple": len(simple),
        "events_with_error_mode_err": sum(1 for e in events if e["errorRes"] == "err"), "events_with_error_mode_ok": sum(1 for e in events if e["errorRes"] == "ok"),
        "trace_events_rejected": len(rejects),
    }, time.time() - t0, len(verdict.violations),
        ["the two readings of the grammar differ only on an empty argument list: neither legality nor illegality is asserted there",
         "a head that some rule file knows as a concept is spoken by its own phrase: 'mentions' is not demanded for it"])
    return rc


def selftest(tier):
    wd = C.workdir("c19_self")
    ok = {"s": ["ns", "lp", "dl", "ns", "rp"], "dangling": 0, "refPlaces": ["child"], "known": 0, "setOk": 1, "ignoreRes": "ok", "errorRes": "ok", "ignoreIsPlain": 0, "bothEqual": 1, "mentions": 1, "pure": 1}
    ev = [ok, dict(ok, ignoreRes="err"), dict(ok, s=["ns", "lp", "lp"], errorRes="ok"), dict(ok, errorRes="err", bothEqual=0, ignoreIsPlain=0), dict(ok, mentions=0), dict(ok, pure=0), dict(ok, refPlaces=["below-other-arg"])]
    rej, _, _ = C.validate_trace("Trace_Intent", "Trace_Intent.cfg", ev, wd)
    if [i for i, _ in rej] != [2, 3, 4, 5, 6, 7]:
        raise C.ToolError(f"selftest: {rej}")
    C.log("[C19] selftest ok")
    return 0


def replay(path):
    rp = json.load(open(path))["replay"]
    wd = C.workdir("c19_replay")
    res = C.run_mcv([{"id": "replay", "ops": rp["script"]}], wd, threads=1)
    for o, r in zip(rp["script"], res[0]["results"]):
        if o["op"] == "speech":
            C.log(f"speech: {r['r']} {str(r['v'])[:600]}")
    return 0
