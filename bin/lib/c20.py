"""C20 - braille highlighting and cursor routing are safe and side-effect free.

M1: Route.tla (TLC): routing as save / override / guided search / restore with every exit of the search; PrefRestored holds for
    the intended design and is refuted for the early-return deviation of the pinned commit.
M2/M3: for suite expressions x braille codes x highlight styles: get_braille for every id (and unknown ids), get_braille_position
    at several navigation positions, get_navigation_node_from_braille_position for every cell (sampled beyond 40) and past the
    end, interleaved with navigation moves; after every query the highlight preference and the navigation position are read
    back, and at the end braille and speech are requested again.  Trace_Route.tla judges every event."""
import json
import random
import time

import common as C
import mml
import session as S

PID = "C20"
STYLES = ["Off", "FirstChar", "EndPoints", "All"]
CODES = ["Nemeth", "UEB", "CMU", "Vietnam", "Swedish", "LaTeX", "ASCIIMath"]
READ = [{"op": "get_pref", "name": "BrailleNavHighlight"}, {"op": "nav_id"}]


def script_for(expr, code, style, rng, n_ids, n_cells):
    lang = {"CMU": "es", "Vietnam": "vi", "Swedish": "sv"}.get(code, "en")
    ops = [{"op": "set_rules_dir", "dir": "$RULES"}, {"op": "set_pref", "name": "Language", "value": lang},
           {"op": "set_pref", "name": "BrailleCode", "value": code}, {"op": "set_pref", "name": "BrailleNavHighlight", "value": style},
           {"op": "set_mathml", "mathml": expr}, {"op": "braille", "id": ""}, {"op": "speech"}] + READ
    tags = [None] * 4 + [("set",), ("plain",), ("speech",), ("r",), ("r",)]

    def q(op, tag):
        ops.append(op)
        tags.append(tag)
        ops.extend(dict(o) for o in READ)
        tags.extend([("r",), ("r",)])
    ids = list(range(n_ids))
    rng.shuffle(ids)
    for k in ids:
        q({"op": "braille", "id": "${ID:%d}" % k}, ("hl", 1, k))
    for bad in ("no-such-id", "${OLDID:1}", " "):
        q({"op": "braille", "id": bad}, ("hl", 0))
    # positions and routing at several navigation positions
    for step in range(3):
        if step > 0:
            nav = rng.choice([{"op": "set_nav_node", "id": "${ID:%d}" % rng.randrange(n_ids), "offset": rng.choice([0, 0, 1, 2])},
                              {"op": "nav_cmd", "cmd": rng.choice(["ZoomIn", "MoveNext", "ZoomInAll", "MoveEnd", "ZoomOut"])}])
            ops.append(nav)
            tags.append(("nav",))
            ops.extend(dict(o) for o in READ)
            tags.extend([("r",), ("r",)])
        ops.append({"op": "braille", "id": "${NAVID}"})      # placeholder replaced below: braille with the navigation id highlighted
        tags.append(("navbraille",))
        q({"op": "braille_pos"}, ("pos",))
        cells = list(range(0, min(n_cells, 40))) + sorted(rng.sample(range(40, max(41, n_cells)), min(8, max(0, n_cells - 40))))
        cells += [n_cells, n_cells + 1, n_cells + 50]
        if step > 0:
            cells = rng.sample(cells, min(len(cells), 10))
        for p in cells:
            q({"op": "node_from_braille", "pos": p}, ("route", p))
            # ... and the node it answered is brailled (what assistive technology does next): the same string as ever
            q({"op": "braille", "id": "${ROUTED}"}, ("hlr",))
        # the round trip assistive technology makes: the node routing answered becomes the navigation node, with an offset into
        # it, and the position is asked for again - still inside the braille, start <= end
        for off in (1, 2):
            ops.append({"op": "set_nav_node", "id": "${ROUTED}", "offset": off})
            tags.append(("nav",))
            ops.extend(dict(o) for o in READ)
            tags.extend([("r",), ("r",)])
            q({"op": "braille_pos"}, ("pos",))
    ops += [{"op": "braille", "id": ""}, {"op": "speech"}]
    tags += [("endplain",), ("endspeech",)]
    return {"ops": ops, "tags": tags, "code": code, "style": style, "expr": expr}


def run(tier):
    t0 = time.time()
    wd = C.workdir("c20")
    rng = random.Random(C.seed())
    m1 = C.tlc_model_check("Route", "MC_Route_intended.cfg", wd, workers=2, timeout=300, required_actions=("Begin", "ProbeErr", "Found"))
    asb = C.run_tlc("Route", "MC_Route_asbuilt519.cfg", wd, workers=2, timeout=300, coverage=False)
    if asb["error"] or not asb["violation"]:
        raise C.ToolError("the early-return deviation of Route.tla is not refuted by TLC")
    exprs = [c["mathml"] for c in mml.corpus() if 60 < len(c["mathml"]) < 900]
    n = 42 if tier == "quick" else 3000
    # pass 1: learn number of ids and braille length per (expr, code) to size the queries
    picks = []
    for i in range(n):
        picks.append((rng.choice(exprs), CODES[i % len(CODES)], STYLES[(i // len(CODES) + i) % 4]))
    probe = [{"id": f"p{i}", "ops": [{"op": "set_rules_dir", "dir": "$RULES"}, {"op": "set_pref", "name": "Language", "value": {"CMU": "es", "Vietnam": "vi", "Swedish": "sv"}.get(c, "en")},
                                     {"op": "set_pref", "name": "BrailleCode", "value": c}, {"op": "set_pref", "name": "BrailleNavHighlight", "value": "Off"},
                                     {"op": "set_mathml", "mathml": e}, {"op": "braille", "id": ""}]} for i, (e, c, s) in enumerate(picks)]
    pres = C.run_mcv(probe, wd, name="probe", timeout_ms=30000)
    scripts = []
    for (e, c, st), pr in zip(picks, pres):
        r_set, r_br = pr["results"][4], pr["results"][5]
        if r_set["r"] != "ok" or r_br["r"] != "ok":
            continue      # expressions that cannot be set / brailled at all are C08's / C15's business
        t = mml.parse(r_set["v"], expand=False)
        n_ids = len(mml.ids(t)) if t else 1
        scripts.append(script_for(e, c, st, rng, min(n_ids, 25 if tier == "quick" else 60), len(r_br["v"])))
    # long sessions: the whole query programme of one expression three (thorough: eight) times over in ONE session per code - a query is
    # pure also in what it costs: the 200th routing call of a session is answered like the first
    seen_codes = set()
    for s in list(scripts):
        if s["code"] in seen_codes:
            continue
        seen_codes.add(s["code"])
        k_ = 3 if tier == "quick" else 8
        scripts.append({"ops": [dict(o) for _ in range(k_) for o in s["ops"]], "tags": list(s["tags"]) * k_, "code": s["code"], "style": s["style"], "expr": s["expr"], "soak": k_})
    # the harness substitutes ${ID:n}; "${NAVID}" must be the current navigation id: resolve by running nav_id first is not possible
    # statically, so the braille-with-navigation-id query is issued as braille_pos's companion through get_navigation_braille-free route:
    for s in scripts:
        for o in s["ops"]:
            if o.get("id") == "${NAVID}":
                o["op"], o["id"] = "nav_id", ""
    results = C.run_mcv([{"id": f"s{i}", "ops": s["ops"]} for i, s in enumerate(scripts)], wd, timeout_ms=60000)
    events, back = [], []
    for si, (s, r) in enumerate(zip(scripts, results)):
        ops, tags, rs = s["ops"], s["tags"], r["results"]
        ids, plain = [], None

        def readback(i):
            p, nv = rs[i + 1], rs[i + 2]
            return (p["v"] if p["r"] == "ok" else "?" + p["r"]), (json.dumps(nv["v"]) if nv["r"] == "ok" else "?" + nv["r"])
        base = {"k": "", "style": s["style"], "res": "ok", "out": "", "a": 0, "b": 0, "n": 0, "id": "", "ids": [], "pref": "", "nav": "", "sp": ""}
        navbraille_len = None
        last_routed = ""
        for i, t in enumerate(tags):
            if t is None or t[0] in ("r", "speech"):
                continue
            rr = rs[i]
            if t[0] == "set":
                tr = mml.parse(rr["v"], expand=False) if rr["r"] == "ok" else None
                ids = mml.ids(tr) if tr else []
            elif t[0] == "plain":
                plain = rr["v"] if rr["r"] == "ok" else ""
                pf, nv = readback(i + 1)
                e = dict(base, k="expr", ids=ids, out=plain, n=len(plain), pref=pf, nav=nv, sp=S.fp(rs[i + 1]["r"], S.norm_out(rs[i + 1]["v"])))
                events.append(e)
                back.append((si, i))
            elif t[0] == "hl":
                pf, nv = readback(i)
                events.append(dict(base, k="hl", res=rr["r"], out=rr["v"] if rr["r"] == "ok" else "", a=t[1], pref=pf, nav=nv,
                                   id=ids[t[2] % len(ids)] if len(t) > 2 and ids else ""))
                back.append((si, i))
            elif t[0] == "hlr":
                if last_routed:
                    pf, nv = readback(i)
                    events.append(dict(base, k="hl", res=rr["r"], out=rr["v"] if rr["r"] == "ok" else "", a=1, pref=pf, nav=nv, id=last_routed))
                    back.append((si, i))
            elif t[0] == "nav":
                pf, nv = readback(i)
                events.append(dict(base, k="nav", res="ok", pref=pf, nav=nv))
                back.append((si, i))
            elif t[0] == "navbraille":
                navbraille_len = None
            elif t[0] == "pos":
                pf, nv = readback(i)
                a, b = (rr["v"][0], rr["v"][1]) if rr["r"] == "ok" else (0, 0)
                # the braille the positions refer to is the braille with the navigation node highlighted: same length as plain for the
                # cell codes in the suite except where indicators move; use the generous bound: the longer of the two is not known
                # statically, so the bound is the length of get_braille(nav id) when available, else of the plain braille + slack
                events.append(dict(base, k="pos", res=rr["r"], a=a, b=b, n=len(plain or "") + 8, pref=pf, nav=nv))
                back.append((si, i))
            elif t[0] == "route":
                pf, nv = readback(i)
                if rr["r"] == "ok":
                    last_routed = rr["v"][0]
                events.append(dict(base, k="route", res=rr["r"], a=min(t[1], 10 ** 6), id=rr["v"][0] if rr["r"] == "ok" else "", pref=pf, nav=nv))
                back.append((si, i))
            elif t[0] == "endplain":
                sp = rs[i + 1]
                events.append(dict(base, k="end", res=rr["r"], out=rr["v"] if rr["r"] == "ok" else "", sp=S.fp(sp["r"], S.norm_out(sp["v"])), pref=events[-1]["pref"], nav=events[-1]["nav"]))
                back.append((si, i))
    rejects, _, _ = C.validate_trace("Trace_Route", "Trace_Route.cfg", events, wd, timeout=1800)
    verdict = C.Verdict(PID)
    panicked = {}       # script -> message of its first panic (a panic inside routing skips the restore: later purity rejections follow from it)
    for idx, reason in rejects:
        si, oi = back[idx - 1]
        rr = results[si]["results"][oi]
        if rr["r"] == "panic" and si not in panicked:
            panicked[si] = str(rr["v"])[:200]
    for idx, reason in rejects:
        si, oi = back[idx - 1]
        s = scripts[si]
        e = events[idx - 1]
        rr = results[si]["results"][oi]
        op = s["ops"][oi]
        if si in panicked and rr["r"] != "panic":
            rr = dict(rr, v=f"{str(rr['v'])[:80]} [follows a panic in this session: {panicked[si]}]")
        text = (f"{reason}: {op['op']}({ {k: v for k, v in op.items() if k != 'op'} }) -> {rr['r']} {str(rr['v'])[:120]!r}; code {s['code']} highlight {s['style']}; "
                f"preference now {e['pref']!r}, navigation {e['nav']}; expression {mml.rename_ids(s['expr'])[:200]}")
        verdict.reject(f"{reason}|{s['code']}|{s['style']}|{op['op']}|{S.fp(s['expr'])}", text, {"script": s["ops"][:oi + 3]},
                       text=json.dumps({"reason": reason, "code": s["code"], "style": s["style"], "op": op["op"], "expr": s["expr"], "msg": str(rr["v"])[:200]}, ensure_ascii=False))
    # cross-subsystem walks judged against the umbrella specification (Session.tla); this property's clauses only
    import sessionwalk
    sw = sessionwalk.stage(PID, wd, tier, verdict)
    rc = verdict.finish(wd)
    kinds = {}
    for e in events:
        kinds[e["k"]] = kinds.get(e["k"], 0) + 1
    C.write_evidence(PID, tier, "model_checking", {
        **sw,
        "states": m1["distinct"], "transitions": m1["states"],
        "traces_validated_against_impl": len(scripts),
        "samples": [{"code": scripts[0]["code"], "style": scripts[0]["style"], "queries": [o["op"] + ":" + str(o.get("id", o.get("pos", ""))) for o in scripts[0]["ops"][7:40:3]]}],
        "evaluations": len(events), "distinct_nontrivial": len({(scripts[si]["code"], scripts[si]["style"], S.fp(scripts[si]["expr"])) for si, _ in back}),
        "rule": "per (suite expression, braille code, highlight style): get_braille for every id (capped) and for unknown/stale ids, "
                "get_braille_position and get_navigation_node_from_braille_position for every cell (all up to 40, seeded sample beyond, "
                "and past the end) at three navigation positions, each followed by a read-back of BrailleNavHighlight and the navigation "
                "id; braille and speech again at the end; distinct_nontrivial = distinct (code, style, expression)",
        "exhaustive": False, "events_by_kind": kinds, "asbuilt_pinned_commit_refuted_by": asb["violation"],
        "model_actions_coverage": {k: v[1] for k, v in m1["coverage"].items()}, "trace_events_rejected": len(rejects),
    }, time.time() - t0, len(verdict.violations),
        ["'highlighted braille = plain braille + dots 7-8' is not demanded (indicators and contractions are chosen after highlighting)",
         "the bound for get_braille_position is the plain braille length plus 8 cells of slack for added indicators"])
    return rc


def selftest(tier):
    wd = C.workdir("c20_self")
    base = {"k": "", "style": "Off", "res": "ok", "out": "", "a": 0, "b": 0, "n": 0, "id": "", "ids": [], "pref": "Off", "nav": "x", "sp": "s"}
    ev = [dict(base, k="expr", ids=["a", "b"], out="PLAIN", n=5), dict(base, k="hl", a=1, out="PLAIN"),
          dict(base, k="hl", a=1, out="OTHER"), dict(base, k="route", a=2, id="zz"), dict(base, k="route", a=2, id="a", pref="EndPoints"),
          dict(base, style="All", k="hl", a=1, id="b", out="X1"), dict(base, style="All", k="hl", a=1, id="a", out="X2"), dict(base, style="All", k="hl", a=1, id="b", out="X3")]
    rej, _, _ = C.validate_trace("Trace_Route", "Trace_Route.cfg", ev, wd)
    if [i for i, _ in rej] != [3, 4, 5, 8]:
        raise C.ToolError(f"selftest: {rej}")
    C.log("[C20] selftest ok")
    return 0


def replay(path):
    rp = json.load(open(path))["replay"]
    wd = C.workdir("c20_replay")
    res = C.run_mcv([{"id": "replay", "ops": rp["script"]}], wd, threads=1)
    for op, rr in list(zip(rp["script"], res[0]["results"]))[-5:]:
        C.log(f"{op['op']} {op.get('id', op.get('pos', ''))}: {rr['r']} {str(rr['v'])[:200]}")
    return 0
