"""Shared driver of C01 (visible content), C02 (well-formed canonical MathML) and C09 (ids) - one pipeline, three oracles.

M2: TLC enumerates abstract trees (TreeGen.tla: every context P(.., Q(.., leaf|degenerate filler, ..), ..) to depth 2, deeper
    by simulation); the driver concretises them (heuristic-neutral and heuristic-triggering alphabets, four author-id modes,
    number-separator locales), adds the suite's own expressions and their degenerate-child mutants, and runs set_mathml.
M3: TLC (Trace_Canon.tla / Canon.tla) judges every (input tree, returned tree) pair."""
import copy
import json
import random
import re
import time
import xml.etree.ElementTree as ET

import common as C
import mml

NEUTRAL_IDS = ["p", "q", "r", "u", "w", "z"]
SPICY_IDS = ["Na", "Cl", "H", "O", "C", "sin", "log", "lim", "f", "g", "x", "VII", "iv", "cm", "_", "d", "e", "i", "π", "ℝ", "Δ",
             "x'", "ab", "arc", "m", "A", "B", "α", "…", "∞"]
NEUTRAL_OPS = ["+", "=", "<", "×", ",", "−"]
SPICY_OPS = ["+", "-", "−", "=", "|", "‖", "'", "′", "″", ".", "..", "...", ":", "::", "!", "(", ")", "[", "]", "→", "∑", "∫", "~", "¯", "_",
             "^", "°", "∘", "--", "&#x2062;", "&#x2061;", "&#x2063;", "/", "∣", "∥", "±", "∈", "&amp;", "&lt;", "%", "$", "¨", "˙"]
TEXTS = ["abc", "if", "and x", "cm", "Q&amp;A", "a &lt; b", "it's", "5 apples", " or ", "∴"]
LOCALES = [None, ("en", None), ("es", None), ("sv", None), (None, (".", ",")), (None, (",", ". "))]

FILLERS = {
    "emptyMrow": "<mrow/>", "emptyMi": "<mi/>", "emptyMn": "<mn></mn>", "emptyMo": "<mo/>", "emptyMtext": "<mtext/>",
    "wsMtext": "<mtext> &#xA0;</mtext>", "none": "<none/>", "mspace": "<mspace width='1em'/>",
    "mphantom": "<mphantom><mi>h</mi></mphantom>", "emptyMstyle": "<mstyle/>", "nestedEmptyMrow": "<mrow><mrow/></mrow>",
    "emptyMrowIntent": "<mrow intent='blank'/>",
    "allPhantomMrow": "<mrow><mphantom><mi>a</mi></mphantom><mphantom><mi>b</mi></mphantom></mrow>",
    "malignRow": "<mrow><malignmark/><maligngroup/></mrow>",
}


class Concretiser:
    def __init__(self, rng, spicy):
        self.rng, self.spicy = rng, spicy
        self.n = 0

    def leaf(self, cls):
        r = self.rng
        self.n += 1
        if cls == "id":
            t = r.choice(SPICY_IDS if self.spicy else NEUTRAL_IDS)
            return f"<mi>{t}</mi>"
        if cls == "num":
            if self.spicy and r.random() < 0.4:
                t = r.choice(["1,234", "3.14", "0,5", "1 000", "-7", "−2", "12", "1.", ".5", "1,2,3", "2·3", "0x1F", "-", "−", "+", "- ", "−.", "%"])
            else:
                t = str(r.randrange(12, 9800))
            return f"<mn>{t}</mn>"
        if cls == "op":
            return f"<mo>{r.choice(SPICY_OPS if self.spicy else NEUTRAL_OPS)}</mo>"
        return f"<mtext>{r.choice(TEXTS) if self.spicy else 'abc'}</mtext>"

    def tree(self, t):
        tag = t["tag"]
        if tag == "leaf":
            return self.leaf(t["cls"])
        if tag == "filler":
            return FILLERS[t["cls"]]
        k = [self.tree(x) for x in t["kids"]]
        r = self.rng
        if tag in ("mrow1", "mstyle1", "msqrt1"):
            return f"<{tag[:-1]}>{k[0]}</{tag[:-1]}>"
        if tag == "mmultiscripts":
            return f"<mmultiscripts>{k[0]}{k[1]}{k[2]}<mprescripts/>{k[3]}{k[4]}</mmultiscripts>"
        if tag == "mtable":
            return f"<mtable><mtr><mtd>{k[0]}</mtd><mtd>{k[1]}</mtd></mtr></mtable>"
        if tag == "mfenced":
            attrs = r.choice(["", " open='[' close=']'", " open='{' close='' separators=';'", " separators=''", " open='' close=''",
                              " open='|' close='|' separators=',;'", " open='&lt;' close='&gt;'"]) if self.spicy else ""
            return f"<mfenced{attrs}>{''.join(k)}</mfenced>"
        if tag == "menclose":
            return f"<menclose notation='{r.choice(['box', 'top', 'updiagonalstrike', 'longdiv']) if self.spicy else 'box'}'>{k[0]}</menclose>"
        if tag == "semantics":
            enc = r.choice(["application/x-tex", "application/x-tex; charset=utf8", "TeX", "text/plain;x=1", "a b", "x:y", "α/β", "1tex", ""]) if self.spicy else "application/x-tex"
            return f"<semantics>{k[0]}<annotation encoding='{enc}'>\\alpha &lt; b</annotation></semantics>"
        if tag == "mstyle":
            a = " mathvariant='bold'" if self.spicy and r.random() < 0.3 else ""
            return f"<mstyle{a}>{''.join(k)}</mstyle>"
        return f"<{tag}>{''.join(k)}</{tag}>"


def add_ids(xml, mode, rng):
    """Author ids: none | all | alternate | duplicates | empty (every second element carries id='': well-formed XML, but not an id -
    such an element is owed a fresh id like one that has none)."""
    if mode == "none":
        return xml
    n = [0]

    def rep(m):
        n[0] += 1
        tag = m.group(1)
        if tag in ("mprescripts", "none", "annotation"):
            return m.group(0)
        if mode == "alternate" and n[0] % 2 == 0:
            return m.group(0)
        if mode == "empty":
            return (f"<{tag} id=''" if n[0] % 2 else f"<{tag} id='au{n[0]}'") + m.group(2)
        i = n[0] if mode != "duplicates" else (n[0] % 3)
        return f"<{tag} id='au{i}'" + m.group(2)
    # (also the semantics wrapper: generators such as LaTeXML put an id on it - it vanishes, the ids inside it must not)
    return re.sub(r"<(m[a-z]+|none|semantics)((?=[\s/>]))", rep, xml)


def mutants(expr, rng, limit=6):
    """Degenerate-child mutants of a suite expression: each child of a fixed-arity element replaced by a filler."""
    s = mml.expand_entities(expr)
    try:
        root = ET.fromstring(s)
    except ET.ParseError:
        return []
    sites = []
    for el in root.iter():
        if mml.strip_ns(el.tag) in ("mfrac", "mroot", "msub", "msup", "msubsup", "munder", "mover", "munderover", "mmultiscripts"):
            for i in range(len(el)):
                sites.append((el, i))
    rng.shuffle(sites)
    out = []
    for el, i in sites[:limit]:
        filler = ET.fromstring(rng.choice(list(FILLERS.values())).replace("&#xA0;", " "))
        old = el[i]
        filler.tail = old.tail
        el.remove(old)
        el.insert(i, filler)
        out.append(re.sub(r"ns\d+:|xmlns:ns\d+=\"[^\"]*\"", "", ET.tostring(root, encoding="unicode")))
        el.remove(filler)
        el.insert(i, old)
    return out


def locale_ops(loc):
    if loc is None:
        return []
    lang, seps = loc
    ops = []
    if lang:
        ops.append({"op": "set_pref", "name": "Language", "value": lang, "setup": True})
    if seps:
        ops.append({"op": "set_pref", "name": "DecimalSeparators", "value": seps[0], "setup": True})
        ops.append({"op": "set_pref", "name": "BlockSeparators", "value": seps[1], "setup": True})
    return ops


def build_cases(tier, wd):
    rng = random.Random(C.seed())
    r = C.run_tlc("TreeGen", "MC_TreeGen_d2.cfg", wd, workers=4, coverage=False, timeout=300)
    if r["error"] or r["violation"]:
        raise C.ToolError(f"TreeGen failed: {r['error'] or r['violation']}")
    abstract = C.replay_lines(r)
    if len(abstract) < 20000:
        raise C.ToolError(f"TreeGen exported only {len(abstract)} trees")
    nsim = 300 if tier == "quick" else 6000
    sim = C.run_tlc("TreeGen", "MC_TreeGen_sim.cfg", wd, workers=1, coverage=False, simulate=nsim, depth=6, seed_=C.seed(), timeout=600)
    deep = C.replay_lines(sim)
    depth1 = [t for t in abstract if all(k["tag"] in ("leaf", "filler") for k in t["kids"])]
    depth2 = [t for t in abstract if not all(k["tag"] in ("leaf", "filler") for k in t["kids"])]
    if tier == "quick":
        rng.shuffle(depth2)
        depth2 = depth2[:4500]
    cases = []
    idmodes = ["none", "all", "alternate", "duplicates", "empty"]
    for gi, t in enumerate(depth1 + depth2 + deep):
        variants = [(False, idmodes[gi % 5])]
        if tier == "thorough" or gi % 3 == 0:
            variants.append((True, idmodes[(gi + 1) % 5]))
        for spicy, idmode in variants:
            body = Concretiser(random.Random(C.seed() * 7919 + gi * 2 + spicy), spicy).tree(t)
            xml = add_ids(f"<math>{body}</math>", idmode, rng)
            cases.append({"mathml": xml, "origin": "model", "idmode": idmode, "spicy": spicy,
                          "locale": LOCALES[gi % len(LOCALES)] if spicy else None})
    # escaping matrix (C02 "special characters in text and attributes are escaped so the string parses back"): every
    # sequence of <= 3 character classes {ASCII, 2-, 3-, 4-byte character, each XML special} as token text and as attribute value
    import itertools
    # (the tails 'lt;' '#65;' '#x41;' 'nbsp;' 'amp;' after an escaped ampersand spell text that LOOKS like a reference: the author's
    #  '&amp;lt;' is the four characters & l t ; and has to come back as such)
    alphabet = ["a", "é", "α", "∑", "𝐀", "&amp;", "&lt;", "&gt;", "'", "&quot;", "lt;", "#65;", "#x41;", "nbsp;", "amp;"]
    seqs = [p for n in (1, 2, 3) for p in itertools.product(alphabet, repeat=n) if any(len(x) > 1 or x == "'" for x in p)]
    if tier == "quick":
        short = [p for p in seqs if len(p) <= 2]
        seqs = short + rng.sample([p for p in seqs if len(p) == 3], 200)
    for p_ in seqs:
        txt = "".join(p_)
        attr = txt.replace("'", "&apos;")
        hosts = [f"<math><mtext>{txt}</mtext></math>", f"<math><mi>x</mi><mo>+</mo><ms>{txt}</ms></math>",
                 f"<math><mrow intent='{attr}'><mi>x</mi><mo>+</mo><mi>y</mi></mrow></math>",
                 f"<math><semantics><mi>x</mi><annotation encoding='application/x-tex'>{txt}</annotation></semantics></math>"]
        for h in (hosts if tier == "thorough" else rng.sample(hosts, 2)):
            cases.append({"mathml": h, "origin": "escape-matrix", "idmode": "none", "spicy": False, "locale": None})
    # rows of adjacent tokens that the clean-up passes merge, split or move (omission marks, primes, dots, bars, digits and
    # separators, 'arc' + trig name, blanks, pseudo scripts), each run followed by nothing, a token, or a non-token sibling, at
    # top level and inside implied rows: every pair exhaustively, longer runs seeded
    mergeable = ["<mo>_</mo>", "<mi>_</mi>", "<mtext>_</mtext>", "<mtext>&#xA0;</mtext>", "<mo>&#xA0;</mo>", "<mo>'</mo>", "<mo>′</mo>", "<mo>.</mo>", "<mo>-</mo>",
                 "<mo>−</mo>", "<mo>|</mo>", "<mo>:</mo>", "<mo>=</mo>", "<mo>&lt;</mo>", "<mo>!</mo>", "<mo>*</mo>", "<mo>°</mo>", "<mo>/</mo>", "<mo>,</mo>",
                 "<mn>1</mn>", "<mn>234</mn>", "<mi>a</mi>", "<mi>arc</mi>", "<mi>sin</mi>", "<mi>d</mi>", "<mi>x</mi>", "<mi>A</mi>", "<mi>B</mi>", "<mtext>cm</mtext>",
                 # scripts on an empty base (prescripts in the making) and scripts whose base is not a token
                 "<msub><mrow/><mi>a</mi></msub>", "<msup><mi/><mn>2</mn></msup>", "<msubsup><mrow/><mn>1</mn><mn>2</mn></msubsup>",
                 "<msup><mrow><mo>(</mo><mi>x</mi><mo>+</mo><mi>y</mi><mo>)</mo></mrow><mn>2</mn></msup>", "<msub><mfrac><mi>x</mi><mi>y</mi></mfrac><mn>5</mn></msub>",
                 # fences, bare and carrying a script or a limit (6ce108d, abaf8db), and scripts that are all 'none' (bfa1c9a)
                 "<mo>(</mo>", "<mo>)</mo>", "<mo>[</mo>", "<msub><mo>[</mo><mn>3</mn></msub>", "<munder><mo>‖</mo><mn>8</mn></munder>", "<msup><mo>)</mo><mn>2</mn></msup>",
                 "<mmultiscripts><mi>n</mi><none/><none/></mmultiscripts>", "<mmultiscripts><mi>n</mi><none/><mrow/></mmultiscripts>",
                 # identifiers / text whose characters are brackets (the state-of-matter split '(g)' -> ( g ) must not leave an empty token)
                 "<mi>()</mi>", "<mtext>()</mtext>", "<mi>(g)</mi>", "<mi>[]</mi>", "<mtext>(</mtext>", "<mi>)(</mi>"]
    followers = ["", "<mi>z</mi>", "<mo>+</mo><mi>z</mi>", "<mfrac><mn>1</mn><mn>2</mn></mfrac>", "<msup><mi>x</mi><mn>2</mn></msup>",
                 "<mrow><mi>p</mi><mo>+</mo><mi>q</mi></mrow>", "<msqrt><mi>y</mi></msqrt>", "<mfenced><mi>u</mi><mi>v</mi></mfenced>"]
    leaders = ["", "<mn>3</mn><mo>+</mo>", "<mi>k</mi>"]
    hosts = ["<math>{}</math>", "<math><msqrt>{}</msqrt></math>", "<math><mfrac><mrow>{}</mrow><mn>7</mn></mfrac></math>",
             "<math><mtable><mtr><mtd>{}</mtd><mtd><mn>7</mn></mtd></mtr></mtable></math>", "<math><msup><mi>q</mi><mrow>{}</mrow></msup></math>"]
    runs = [list(p_) for p_ in itertools.product(mergeable, repeat=2)]
    r3 = random.Random(C.seed() * 4243)
    runs += [[r3.choice(mergeable) for _ in range(r3.choice([3, 3, 4, 5]))] for _ in range(1500 if tier == "quick" else 20000)]
    for ri, run in enumerate(runs):
        combos = [(f, l, h) for f in followers for l in leaders for h in hosts]
        picked = r3.sample(combos, 24 if tier == "thorough" and ri < len(mergeable) ** 2 else 3)
        if ri < len(mergeable) ** 2:
            picked.append(("", "", hosts[0]))           # every pair also as the ONLY content of math (a98a6d6)
        for f, l, h in picked:
            cases.append({"mathml": h.format(l + "".join(run) + f), "origin": "sibling-merge-row", "idmode": "none", "spicy": True, "locale": None})
    # look-ahead rows: two tokens, an operator, then a NON-token sibling - the clean-up predicates that peek at the next two or three
    # siblings (mixed fractions, function application, units) must not alter what they only inspect (7ddf993): exhaustive over a
    # small token set x every operator of the merge list x every non-token follower
    small = ["<mn>1</mn>", "<mn>234</mn>", "<mi>a</mi>", "<mi>sin</mi>", "<mo>-</mo>", "<mtext>cm</mtext>", "<mo>|</mo>"]
    ops = [m for m in mergeable if m.startswith("<mo>")]
    for x_, y_, o_, f in itertools.product(small, small, ops, [f for f in followers if f.startswith("<") and not f.startswith("<mi>") and not f.startswith("<mo>")]):
        cases.append({"mathml": f"<math>{x_}{y_}{o_}{f}</math>", "origin": "lookahead-row", "idmode": "none", "spicy": True, "locale": None})
    # adjacent wrappers with equal attributes as the positional children of fixed-arity elements (merging them changes the arity)
    for wrap in ("mstyle mathvariant='bold'", "mstyle", "mpadded width='1em'", "mstyle mathcolor='red'"):
        w = lambda x: f"<{wrap}>{x}</{wrap.split()[0]}>"
        a, b, c = w("<mi>a</mi>"), w("<mi>b</mi>"), w("<mn>3</mn>")
        for body in (f"<mmultiscripts><mi>x</mi>{a}{b}</mmultiscripts>", f"<mmultiscripts><mi>x</mi>{a}{b}<mprescripts/>{c}{a}</mmultiscripts>", f"<mfrac>{a}{b}</mfrac>",
                     f"<msubsup>{a}{b}{c}</msubsup>", f"<munderover><mo>∑</mo>{a}{b}</munderover>", f"<mroot>{a}{b}</mroot>", f"<msub><mi>x</mi>{a}</msub>{b}",
                     f"<mtable><mtr><mtd>{a}</mtd><mtd>{b}</mtd></mtr></mtable>", f"<msqrt>{a}{b}</msqrt>"):
            cases.append({"mathml": f"<math>{body}</math>", "origin": "adjacent-wrappers", "idmode": "none", "spicy": True, "locale": None})
    # names typed letter by letter (what TeX makes of $Sin(x)$): clean-up joins a run of single-letter mi's that spells a function name
    # or a known word - with the letters the author wrote, in every casing
    names = ["sin", "cos", "tan", "log", "ln", "lim", "max", "min", "exp", "det", "gcd", "arcsin", "sinh", "re", "im", "pr", "dim", "ker", "tr", "hom", "mod", "velocity", "xyz", "và", "tạ"]
    for ni, nm in enumerate(names):
        for ci, casing in enumerate((str.lower, str.capitalize, str.upper, lambda w: w[:-1] + w[-1].upper())):
            word = casing(nm)
            run = "".join(f"<mi>{ch}</mi>" for ch in word)
            for hi, h in enumerate(("<math>{}<mo>(</mo><mi>x</mi><mo>)</mo></math>", "<math><mn>2</mn>{}<mi>x</mi><mo>+</mo>{}<mn>3</mn></math>", "<math><msqrt>{}<mi>t</mi></msqrt></math>")):
                if tier == "quick" and (ni + ci + hi) % 2 and ci != 1:
                    continue
                cases.append({"mathml": h.replace("{}", run), "origin": "letter-by-letter", "idmode": "none", "spicy": True, "locale": ("vi", None) if not nm.isascii() else None})
    # a semantics wrapper around a single-child wrapper around a token / 2-D element (what LaTeXML and MathJax emit), with an author id
    # on every subset of the three: the two wrappers vanish, an id on the inner element stays on it
    inner = ["<mi{I}>x</mi>", "<mn{I}>42</mn>", "<mfrac{I}><mi>a</mi><mi>b</mi></mfrac>", "<msup{I}><mi>x</mi><mn>2</mn></msup>", "<msqrt{I}><mi>x</mi></msqrt>"]
    for wi, wrapper in enumerate(["mrow", "mstyle displaystyle='true'", "mpadded width='1em'", "mrow class='MJX-TeXAtom-ORD'"]):
        for ii, inn in enumerate(inner):
            for mask in range(8):
                ids_ = ["p1.m1" if mask & 1 else "", "p1.m1.w" if mask & 2 else "", "p1.m1.1" if mask & 4 else ""]
                at = [f" id='{x_}'" if x_ else "" for x_ in ids_]
                body = f"<semantics{at[0]}><{wrapper}{at[1]}>{inn.replace('{I}', at[2])}</{wrapper.split()[0]}><annotation encoding='application/x-tex'>x</annotation></semantics>"
                for h in ("<math>{}</math>", "<math><mi>y</mi><mo>=</mo>{}</math>"):
                    cases.append({"mathml": h.format(body), "origin": "semantics-wrapper", "idmode": "asis", "spicy": False, "locale": None})
    # every child list of an mmultiscripts: sequences of scripts, <none/>, empty rows and <mprescripts/> (in every position, also
    # twice) of length <= 5 behind the base - the clean-up pairs scripts up and "repairs" misplaced separators by index arithmetic
    kinds = ["<mi>a</mi>", "<none/>", "<mprescripts/>", "<mrow/>"]
    for n in range(0, 6):
        for combo in itertools.product(range(len(kinds)), repeat=n):
            if tier == "quick" and n == 5 and (sum(combo) + len(cases)) % 4:
                continue
            k_ = [0]

            def kid(c_):
                if c_ == 0:
                    k_[0] += 1
                    return f"<mi>{'abcde'[k_[0] - 1]}</mi>"
                return kinds[c_]
            body = "<mmultiscripts><mi>x</mi>" + "".join(kid(c_) for c_ in combo) + "</mmultiscripts>"
            cases.append({"mathml": f"<math>{body}<mo>+</mo><mn>1</mn></math>" if n % 2 else f"<math>{body}</math>", "origin": "mmultiscripts-children", "idmode": "none", "spicy": True, "locale": None})
    # runs of three and four adjacent wrappers whose attributes alternate (red blue red): merging wrappers with equal attributes must
    # not reach across one that differs (the content would change places)
    wraps = ["mstyle mathcolor='red'", "mstyle mathcolor='blue'", "mstyle", "mpadded width='1em'"]
    contents = ["<mi>a</mi>", "<mo>-</mo><mi>b</mi>", "<mo>+</mo><mi>c</mi>", "<mn>4</mn><mi>z</mi>"]
    for n in (3, 4):
        for combo in itertools.product(range(len(wraps)), repeat=n):
            if len(set(combo)) < 2:
                continue
            body = "".join(f"<{wraps[w]}>{contents[i]}</{wraps[w].split()[0]}>" for i, w in enumerate(combo))
            for h in (("<math>{}</math>", "<math><msqrt>{}</msqrt></math>") if n == 3 or tier == "thorough" else ("<math>{}</math>",)):
                cases.append({"mathml": h.format(body), "origin": "adjacent-wrappers", "idmode": "none", "spicy": True, "locale": None})
    # tokens that canonicalization SPLITS into several elements (points under an arc / bar / arrow or after a shape, chemical
    # formulas, function name glued to its argument, digits glued to letters, 'dx'): new elements come out of one token, so what
    # happens to the author's id and attributes on that token matters - every id mode, tokens as mi and mtext
    split_hosts = ["<mover>{T}<mo>¯</mo></mover>", "<mover>{T}<mo>→</mo></mover>", "<mover>{T}<mo>⌢</mo></mover>", "<mo>△</mo>{T}", "<mo>∠</mo>{T}<mo>=</mo><mn>90</mn>",
                   "<mi>m</mi><mo>∠</mo>{T}", "{T}<mo>+</mo><mn>1</mn>", "<mo>∫</mo><mi>f</mi>{T}", "<msub>{T}<mn>2</mn></msub>", "<mn>3</mn>{T}",
                   "<mo>▱</mo>{T}<mo>≅</mo><mo>▱</mo>{T}", "<munder>{T}<mo>_</mo></munder>"]
    split_tokens = ["BC", "AB", "ABC", "PQRS", "NaCl", "CO", "HCl", "sinx", "dx", "xy", "2x", "H2O", "Ab", "AA"]
    for hi, h in enumerate(split_hosts):
        for ti, tok in enumerate(split_tokens):
            for tag in ("mi", "mtext"):
                attrs = ["", " mathvariant='normal'", " mathcolor='red'"][(hi + ti) % 3]
                body = h.replace("{T}", f"<{tag}{attrs}>{tok}</{tag}>")
                for idmode in (("all", "alternate", "duplicates", "none", "empty") if tier == "thorough" else ("all", idmodes[(hi + ti) % 5])):
                    cases.append({"mathml": add_ids(f"<math>{body}</math>", idmode, rng), "origin": "split-token", "idmode": idmode, "spicy": True, "locale": None})
    corpus = mml.corpus()
    if tier == "quick":
        corpus = rng.sample(corpus, 700)
    for ci, c in enumerate(corpus):
        cases.append({"mathml": c["mathml"], "origin": "suite:" + c["src"], "idmode": "asis", "spicy": False, "locale": None})
        # expressions that already carry MathCAT's internal bookkeeping attributes (canonical output used as test input)
        # are replayed as they are but not mutated: forged data-changed='added' marks are not an author's MathML
        if "data-changed" in c["mathml"] or "data-id-added" in c["mathml"]:
            continue
        for m in mutants(c["mathml"], rng, limit=2 if tier == "quick" else 8):
            cases.append({"mathml": m, "origin": "suite-mutant:" + c["src"], "idmode": "asis", "spicy": False, "locale": None})
    # re-sent expressions: what an application that EDITS the expression sends back - the elements set_mathml returned, with the
    # ids it gave them, inside new material that has no ids yet - in the SAME session.  All ids still have to be distinct, and the
    # ids that came back are now the author's.
    resend_templates = ["<math><mfrac><mrow>${LASTBODY}</mrow><mn>2</mn></mfrac></math>", "<math>${LASTBODY}<mo>+</mo><mi>q</mi></math>",
                        "<math><msqrt>${LASTBODY}</msqrt><mo>=</mo><msup><mi>r</mi><mn>2</mn></msup></math>"]
    r4 = random.Random(C.seed() * 9173)
    base_pool = [c for c in cases if c["origin"] in ("model", "split-token") and len(c["mathml"]) < 1500]
    for k, c in enumerate(r4.sample(base_pool, min(len(base_pool), 400 if tier == "quick" else 6000))):
        cases.append({"mathml": resend_templates[k % 3], "after": c["mathml"], "origin": "re-sent", "idmode": c["idmode"], "spicy": c["spicy"], "locale": c["locale"]})
    return cases, {"abstract_trees": len(abstract), "deep_trees": len(deep), "tlc_states": r["distinct"], "tlc_transitions": r["states"]}


def run_cases(cases, wd):
    """set_mathml on every case (batched per locale, fresh session per batch); returns results aligned with cases."""
    by_loc = {}
    for i, c in enumerate(cases):
        by_loc.setdefault(json.dumps(c["locale"]), []).append(i)
    scripts, index = [], []
    for lk, idxs in by_loc.items():
        loc = json.loads(lk)
        loc = tuple(loc) if loc else None
        if loc and loc[1]:
            loc = (loc[0], tuple(loc[1]))
        for b in range(0, len(idxs), 150):
            chunk = idxs[b:b + 150]
            ops = [{"op": "set_rules_dir", "dir": "$RULES", "setup": True}] + locale_ops(loc)
            nsetup = len(ops)
            for i in chunk:
                if "after" in cases[i]:
                    ops.append({"op": "set_mathml", "mathml": cases[i]["after"]})
                ops.append({"op": "set_mathml", "mathml": cases[i]["mathml"]})
            scripts.append({"id": f"canon{len(scripts)}", "isolate_on_panic": True, "ops": ops})
            index.append((nsetup, chunk))
    results = C.run_mcv(scripts, wd, name="canon")
    out = [None] * len(cases)
    for (nsetup, chunk), res in zip(index, results):
        rs = iter(res["results"][nsetup:])
        for i in chunk:
            if "after" in cases[i]:
                first = next(rs)
                cases[i]["_base_out"] = first["v"] if first["r"] == "ok" else None
            out[i] = next(rs)
            if "after" in cases[i] and cases[i]["_base_out"] is None and out[i]["r"] == "ok":
                out[i] = {"r": "err", "v": "the expression to re-send was not accepted", "ms": 0}      # nothing to re-send: not judged
    return out


def resent_input(c):
    """The input of a case as the library saw it (${LASTBODY} = the children of <math> of what the previous set_mathml returned)."""
    if "after" not in c:
        return c["mathml"]
    o = c.get("_base_out") or ""
    a = o.find("<math")
    a = o.find(">", a) + 1 if a >= 0 else 0
    b = o.rfind("</math>")
    return c["mathml"].replace("${LASTBODY}", o[a:b] if 0 < a <= b else "")


def events_for(cases, results):
    events, back = [], []
    stats = {"ok": 0, "err": 0, "panic": 0, "input_unparsed": 0}
    for i, (c, r) in enumerate(zip(cases, results)):
        if r["r"] != "ok":
            stats["err" if r["r"] == "err" else "panic"] += 1
            continue   # inputs on which set_mathml does not return Ok are outside C01/C02/C09 (they are C08's)
        stats["ok"] += 1
        tin = mml.parse(resent_input(c))
        tout = mml.parse(r["v"], expand=False)
        if tin is None:
            stats["input_unparsed"] += 1
        inp_ids = [i_ for i_ in mml.ids(tin) if i_ != ""] if tin else []      # (id='' is not an id)
        e = {"hasInp": 1 if tin else 0,
             "inp": mml.tree_for_tlc(tin) if tin else mml.tree_for_tlc({"tag": "none", "kids": [], "cp": [], "a": {}}),
             "parses": 1 if tout else 0,
             "out": mml.tree_for_tlc(tout) if tout else mml.tree_for_tlc({"tag": "none", "kids": [], "cp": [], "a": {}}),
             "dupIds": 1 if len(set(inp_ids)) != len(inp_ids) else 0}
        events.append(e)
        back.append(i)
    return events, back, stats


def shape_key(xml):
    """Fingerprint of a case for known-findings: the tag skeleton with token text."""
    return re.sub(r"\s+", " ", re.sub(r" id='[^']*'", "", xml)).strip()


def run(pid, tier):
    t0 = time.time()
    wd = C.workdir(pid.lower())
    cases, gen = build_cases(tier, wd)
    results = run_cases(cases, wd)
    events, back, stats = events_for(cases, results)
    rejects, drifts, tr = C.validate_trace("Trace_Canon", "Trace_Canon.cfg", events, wd, timeout=2400, heap="12g")
    verdict = C.Verdict(pid)
    mine = [(idx, reason) for idx, reason in rejects if reason.startswith(pid + ":")]
    for idx, reason in mine:
        c = cases[back[idx - 1]]
        r = results[back[idx - 1]]
        ops = [{"op": "set_rules_dir", "dir": "$RULES"}] + locale_ops(tuple(c["locale"]) if c["locale"] else None) + \
              ([{"op": "set_mathml", "mathml": c["after"]}] if "after" in c else []) + [{"op": "set_mathml", "mathml": c["mathml"]}]
        text = f"{reason} input={shape_key(resent_input(c))[:400]} output={mml.rename_ids(re.sub(chr(10) + ' *', '', r['v']))[:500]}"
        sk = shape_key(c["mathml"]) + ("|after|" + shape_key(c["after"]) if "after" in c else "")
        verdict.reject(f"{reason}|{sk}", text, {"script": ops, "origin": c["origin"]}, text=f"{reason} {sk}")
    rc = verdict.finish(wd)
    nontrivial = len({shape_key(cases[i]["mathml"]) + shape_key(cases[i].get("after", "")) for i in back})
    changed = sum(1 for e in events if e["hasInp"] and len(e["out"]["kids"]) and e["inp"] != e["out"])
    C.write_evidence(pid, tier, "model_checking", {
        "states": gen["tlc_states"], "transitions": gen["tlc_transitions"],
        "traces_validated_against_impl": len(events),
        "samples": [cases[back[0]]["mathml"], cases[back[len(back) // 2]]["mathml"], cases[back[-1]]["mathml"][:600]],
        "evaluations": len(cases), "distinct_nontrivial": nontrivial,
        "rule": "cases = every abstract tree of TreeGen.tla to depth 2 (contexts P(..Q(..leaf|degenerate filler..)..)), simulated deeper "
                "trees, concretised with neutral and heuristic-triggering token alphabets, four author-id modes and six separator "
                "locales; plus the suite's own expressions and their degenerate-child mutants. distinct_nontrivial = distinct inputs "
                "(ids stripped) on which set_mathml returned Ok and which TLC judged",
        "exhaustive": False, "generator": gen, "set_mathml_results": stats,
        "trace_events_rejected_for_this_property": len(mine), "trace_events_rejected_all_properties": len(rejects),
        "inputs_changed_by_canonicalization": changed,
    }, time.time() - t0, len(verdict.violations),
        ["Python's ElementTree is an independent XML parser for inputs and outputs", "inputs on which set_mathml returns Err are C08's"])
    return rc


def replay(pid, path):
    rp = json.load(open(path))["replay"]
    wd = C.workdir(pid.lower() + "_replay")
    res = C.run_mcv([{"id": "replay", "ops": rp["script"]}], wd, threads=1)
    last = res[0]["results"][-1]
    C.log(json.dumps(last, ensure_ascii=False)[:3000])
    if last["r"] != "ok":
        return 0
    cases = [{"mathml": rp["script"][-1]["mathml"], "locale": None, "origin": "replay"}]
    events, back, _ = events_for(cases, [last])
    rejects, _, _ = C.validate_trace("Trace_Canon", "Trace_Canon.cfg", events, wd)
    mine = [r for r in rejects if r[1].startswith(pid + ":")]
    C.log(f"rejected: {mine}")
    return 1 if mine else 0


def selftest(pid):
    wd = C.workdir(pid.lower() + "_self")
    inp = "<math><msup><mi id='a1'>x</mi><mn>2</mn></msup></math>"
    out = "<math id='m0' data-id-added='true'><msup id='m1' data-id-added='true'><mi id='a1'>x</mi><mn id='m2' data-id-added='true'>2</mn></msup></math>"
    def ev(i, o):
        ti, to = mml.parse(i), mml.parse(o, expand=False)
        return {"hasInp": 1, "inp": mml.tree_for_tlc(ti), "parses": 1, "out": mml.tree_for_tlc(to), "dupIds": 0}
    good = [ev(inp, out)]
    bad = {"C01": out.replace(">2<", ">3<"), "C02": out.replace("<mn id='m2' data-id-added='true'>2</mn>", ""),
           "C09": out.replace("id='a1'", "id='m2'")}[pid]
    rej, _, _ = C.validate_trace("Trace_Canon", "Trace_Canon.cfg", good + [ev(inp, bad)], wd)
    mine = [i for i, r in rej if r.startswith(pid + ":")]
    if mine != [2]:
        raise C.ToolError(f"selftest {pid}: expected exactly event 2 rejected, got {rej}")
    C.log(f"[{pid}] selftest ok: corrupted output rejected, correct output accepted")
    return 0
