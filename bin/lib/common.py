"""Shared machinery of the MathCAT model-based verification driver.

Everything that *judges* is TLA+ evaluated by TLC (spec/*.tla).  This module only moves data:
it builds the Rust harness against /repo's current working tree, runs TLC (design models, M1;
behaviour export, M2; trace validation, M3), runs the harness, reconciles rejected events with
known_findings.json and writes the evidence file.

Exit codes used by checks: 0 = property held on everything explored (possibly with KNOWN-FINDING lines),
1 = VIOLATION (with a replay file), 2 = tool error / time-out / vacuity (never a verdict).
"""
import hashlib
import json
import os
import re
import shutil
import subprocess
import sys
import time

VERIF = os.path.dirname(os.path.dirname(os.path.dirname(os.path.abspath(__file__))))
REPO = os.environ.get("VERIF_REPO", "/repo")
SPEC = os.path.join(VERIF, "spec")
HARNESS = os.path.join(VERIF, "harness")
WORK = os.path.join(VERIF, "work")
EVIDENCE = os.path.join(VERIF, "evidence")
MCV = os.path.join(HARNESS, "target", "debug", "mcv")
NCPU = os.cpu_count() or 4


class ToolError(Exception):
    """Something in the tool chain failed; never to be confused with a verdict."""


def log(*a):
    print(*a, flush=True)


def seed():
    try:
        return int(os.environ.get("VERIF_SEED", "1"))
    except ValueError:
        return 1


def workdir(name):
    d = os.path.join(WORK, name)
    shutil.rmtree(d, ignore_errors=True)
    os.makedirs(d, exist_ok=True)
    return d


# --------------------------------------------------------------------------------------------
# building the harness against the current working tree of /repo
# --------------------------------------------------------------------------------------------
_built = False


def build_harness():
    """cargo build of the harness (path dependency on /repo, hooks on). No-op when nothing changed."""
    global _built
    if _built:
        return
    env = dict(os.environ)
    env["CARGO_NET_OFFLINE"] = "true"
    lock = os.path.join(WORK, "cargo.lock")
    os.makedirs(WORK, exist_ok=True)
    import fcntl
    with open(lock, "w") as lf:
        fcntl.flock(lf, fcntl.LOCK_EX)
        t0 = time.time()
        p = subprocess.run(["cargo", "build", "--offline", "--quiet"], cwd=HARNESS, env=env,
                           stdout=subprocess.PIPE, stderr=subprocess.STDOUT, text=True)
        if p.returncode != 0:
            errs = [l for l in p.stdout.splitlines() if not l.startswith("warning")]
            raise ToolError("harness build failed:\n" + "\n".join(errs[-60:]))
        dt = time.time() - t0
        if dt > 2:
            log(f"[build] harness rebuilt against {REPO} in {dt:.1f}s")
    _built = True


def harness_env():
    home = os.path.join(WORK, "home")
    os.makedirs(os.path.join(home, ".config"), exist_ok=True)
    env = dict(os.environ)
    env["HOME"] = home
    env["XDG_CONFIG_HOME"] = os.path.join(home, ".config")
    env.pop("MathCATRulesDir", None)
    return env


def run_mcv(scripts, wd, name="run", threads=None, timeout_ms=20000, rules=None, stack_mb=8, wall_timeout=3000):
    """Run scripts (list of dicts) through the harness. Returns a list of result dicts aligned with scripts.
    A process crash (abort, stack overflow) is data: the scripts in flight are re-run one per process and the
    one that kills the process gets results [{"r":"crash"}]."""
    build_harness()
    rules = rules or os.path.join(REPO, "Rules")
    threads = threads or NCPU
    inp = os.path.join(wd, f"{name}.scripts.ndjson")
    outp = os.path.join(wd, f"{name}.results.ndjson")
    with open(inp, "w") as f:
        for s in scripts:
            f.write(json.dumps(s, ensure_ascii=False) + "\n")
    scratch = os.path.join(wd, "scratch")
    os.makedirs(scratch, exist_ok=True)

    def once(inp, outp, threads):
        cmd = [MCV, "run", "--rules", rules, "--in", inp, "--out", outp, "--threads", str(threads),
               "--timeout-ms", str(timeout_ms), "--scratch", scratch, "--stack-mb", str(stack_mb)]
        try:
            p = subprocess.run(cmd, env=harness_env(), stdout=subprocess.PIPE, stderr=subprocess.STDOUT,
                               text=True, timeout=wall_timeout)
        except subprocess.TimeoutExpired:
            raise ToolError(f"harness did not finish within {wall_timeout}s")
        res = {}
        if os.path.exists(outp):
            with open(outp) as f:
                for line in f:
                    line = line.strip()
                    if not line:
                        continue
                    try:
                        r = json.loads(line)
                    except json.JSONDecodeError:
                        continue  # a line cut short by a crash
                    res[r["idx"]] = r
        return p.returncode, res, p.stdout

    rc, res, out = once(inp, outp, threads)
    results = [res.get(i) for i in range(len(scripts))]
    missing = [i for i, r in enumerate(results) if r is None]
    if rc != 0 and not missing:
        raise ToolError(f"harness exited {rc}: {out[-2000:]}")
    if missing:
        log(f"[mcv] process died (rc={rc}); re-running {len(missing)} unfinished scripts one per process")
        # scripts that had been started when the process died are the suspects; run them alone first
        started = set()
        try:
            with open(outp + ".started") as f:
                started = {int(x) for x in f.read().split()}
        except OSError:
            pass
        suspects = [i for i in missing if i in started]
        others = [i for i in missing if i not in started]
        for i in suspects:
            si = os.path.join(wd, f"{name}.single.ndjson")
            so = os.path.join(wd, f"{name}.single.out.ndjson")
            with open(si, "w") as f:
                f.write(json.dumps(scripts[i], ensure_ascii=False) + "\n")
            rc1, res1, out1 = once(si, so, 1)
            if 0 in res1:
                r = res1[0]
                r["idx"] = i
                results[i] = r
            else:
                results[i] = {"idx": i, "id": scripts[i].get("id"), "crashed": True, "rc": rc1,
                              "results": [{"r": "crash", "v": f"process died rc={rc1}: {out1[-300:]}", "ms": 0}
                                          for _ in scripts[i]["ops"]]}
        if others:
            sub = run_mcv([scripts[i] for i in others], wd, name=name + "_r", threads=threads,
                          timeout_ms=timeout_ms, rules=rules, stack_mb=stack_mb, wall_timeout=wall_timeout)
            for i, r in zip(others, sub):
                r["idx"] = i
                results[i] = r
    shutil.rmtree(scratch, ignore_errors=True)
    for i, r in enumerate(results):
        if r is None or "harness_error" in r:
            raise ToolError(f"harness produced no result for script {i}: {r}")
        for op, rr in zip(scripts[i]["ops"], r["results"]):
            if rr.get("r") == "harness_error":
                raise ToolError(f"harness error in script {scripts[i].get('id')} op {op}: {rr.get('v')}")
    return results


# --------------------------------------------------------------------------------------------
# TLC
# --------------------------------------------------------------------------------------------
TLA_JAR = "/opt/veriftools/tla/tla2tools.jar"


def _tlc_value_to_py(s):
    """Parse a TLC-printed value made of tuples, strings, ints, booleans, records into Python."""
    import ast
    s = s.replace("<<", "(").replace(">>", ",)")
    s = re.sub(r"\bTRUE\b", "True", s)
    s = re.sub(r"\bFALSE\b", "False", s)
    return ast.literal_eval(s)


def run_tlc(module, cfg, wd, workers=4, timeout=600, env_extra=None, simulate=None, depth=None, seed_=None,
            coverage=True, dfs=False, heap="4g", deadlock=False, extra=None, library=None):
    """Run TLC on spec/<module>.tla with spec/<cfg>. Returns dict with states, distinct, printed tuples, coverage, error."""
    meta = os.path.join(wd, "tlc_" + re.sub(r"\W", "_", cfg))
    shutil.rmtree(meta, ignore_errors=True)
    env = dict(os.environ)
    jopts = f"-Xss1g -Xmx{heap} -Dfile.encoding=UTF-8"
    if dfs:
        jopts += " -Dtlc2.tool.queue.IStateQueue=StateDeque"
    if library:
        jopts += f" -DTLA-Library={library}"
    # (TLC leaves a tlc-<n> directory in java.io.tmpdir behind on every run: keep them out of /tmp and remove them with the run)
    jtmp = os.path.join(wd, "jtmp_" + re.sub(r"\W", "_", cfg))
    shutil.rmtree(jtmp, ignore_errors=True)
    os.makedirs(jtmp, exist_ok=True)
    jopts += f" -Djava.io.tmpdir={jtmp}"
    env["JAVA_TOOL_OPTIONS"] = jopts
    if env_extra:
        env.update(env_extra)
    cmd = ["java", "-XX:+UseParallelGC", "-cp", TLA_JAR + ":/opt/veriftools/tla/CommunityModules-deps.jar", "tlc2.TLC",
           "-workers", str(workers), "-metadir", meta, "-cleanup", "-noGenerateSpecTE",
           "-config", cfg]
    if coverage:
        cmd += ["-coverage", "1"]
    if simulate:
        cmd += ["-simulate", f"num={simulate}"]
        if depth:
            cmd += ["-depth", str(depth)]
    if seed_ is not None:
        cmd += ["-seed", str(seed_)]
    if deadlock:
        cmd += ["-deadlock"]
    if extra:
        cmd += extra
    cmd += [module + ".tla"]
    t0 = time.time()
    try:
        p = subprocess.run(["timeout", str(timeout)] + cmd, cwd=SPEC, env=env, stdout=subprocess.PIPE,
                           stderr=subprocess.STDOUT, text=True)
    except Exception as e:  # pragma: no cover
        raise ToolError(f"cannot run TLC: {e}")
    out = p.stdout
    shutil.rmtree(meta, ignore_errors=True)
    shutil.rmtree(jtmp, ignore_errors=True)
    with open(os.path.join(wd, "tlc_" + re.sub(r"\W", "_", cfg) + ".log"), "w") as f:
        f.write(out)
    res = {"rc": p.returncode, "out": out, "wall_s": time.time() - t0, "states": 0, "distinct": 0,
           "printed": [], "coverage": {}, "violation": None, "error": None}
    if p.returncode == 124:
        raise ToolError(f"TLC timed out after {timeout}s on {module}/{cfg}")
    m = re.findall(r"(\d+) states generated, (\d+) distinct states found", out)
    if m:
        res["states"], res["distinct"] = int(m[-1][0]), int(m[-1][1])
    m = re.search(r"The depth of the complete state graph search is (\d+)", out)
    if m:
        res["diameter"] = int(m.group(1))
    # values printed by PrintT: one tuple per line, or wrapped over several lines by TLC's pretty printer
    buf = None
    for line in out.splitlines():
        if buf is None:
            if not line.startswith("<<"):
                continue
            buf = line
        else:
            buf += " " + line.strip()
        if buf.count("<<") <= buf.count(">>"):
            try:
                res["printed"].append(_tlc_value_to_py(buf))
            except Exception:
                res["printed"].append(("UNPARSED", buf))
            buf = None
        elif len(buf) > 2_000_000:
            res["printed"].append(("UNPARSED", buf[:500]))
            buf = None
    # per-action coverage: lines like "<Move line 50, col 1 to line 60, col 30 of module Nav>: 12:345"
    for m in re.finditer(r"^<(\w+) line \d+, col \d+ to line \d+, col \d+ of module (\w+)>: (\d+):(\d+)", out, re.M):
        name, mod, distinct, total = m.group(1), m.group(2), int(m.group(3)), int(m.group(4))
        key = name
        prev = res["coverage"].get(key, (0, 0))
        res["coverage"][key] = (prev[0] + distinct, prev[1] + total)
    if "Invariant" in out and "is violated" in out:
        m = re.search(r"Invariant (\w+) is violated", out)
        res["violation"] = m.group(1) if m else "invariant"
    elif re.search(r"Action property \w+ is violated|Temporal properties were violated|property .* is violated", out):
        m = re.search(r"Action property (\w+) is violated", out)
        res["violation"] = m.group(1) if m else "property"
    if p.returncode != 0 and res["violation"] is None:
        # errors: parse errors, evaluation errors, assumption failures, postcondition failures
        m = re.search(r"(Error: .*|Assumption .* is false.*|.*POSTCONDITION.*)", out)
        res["error"] = (m.group(1) if m else "TLC failed") + "\n" + "\n".join(out.splitlines()[-25:])
    return res


def tlc_model_check(module, cfg, wd, expect_ok=True, required_actions=(), **kw):
    """M1: run a design model; raise ToolError on spec errors or vacuity; return result."""
    r = run_tlc(module, cfg, wd, **kw)
    if r["error"]:
        raise ToolError(f"TLC error on {module}/{cfg}: {r['error']}")
    if expect_ok and r["violation"]:
        raise ToolError(f"design model {module}/{cfg} (intended configuration) violates {r['violation']} - specification bug\n"
                        + "\n".join(r["out"].splitlines()[-60:]))
    for a in required_actions:
        if r["coverage"].get(a, (0, 0))[1] == 0:
            raise ToolError(f"vacuity: action {a} of {module}/{cfg} never fired (coverage {r['coverage']})")
    if r["distinct"] == 0:
        raise ToolError(f"TLC explored no states on {module}/{cfg}:\n" + r["out"][-1500:])
    return r


def replay_lines(r, tag="REPLAY"):
    """Behaviours exported by a model through PrintT(<<"REPLAY", ToJson(x)>>)."""
    out = []
    for t in r["printed"]:
        if isinstance(t, tuple) and len(t) >= 2 and t[0] == tag:
            v = t[1]
            if isinstance(v, str):
                try:
                    v = json.loads(v)
                except json.JSONDecodeError:
                    pass
            out.append(v)
    return out


def validate_trace(trace_module, cfg, events, wd, name="trace", timeout=900, heap="6g", env_extra=None, library=None):
    """M3: TLC validates the recorded events against spec/<trace_module>.tla.
    The trace specification consumes one event per step and prints <<"REJECT", index, reason>> for every event
    whose property-level guard is false and <<"DRIFT", index, reason>> for refinement-level mismatches; its
    POSTCONDITION demands that every event was consumed (diameter = number of events + 1).
    Returns (rejects, drifts, tlc result)."""
    path = os.path.join(wd, f"{name}.ndjson")
    with open(path, "w") as f:
        for e in events:
            f.write(json.dumps(e, ensure_ascii=True) + "\n")
    if not events:
        raise ToolError("empty trace: nothing to validate (vacuous)")
    env = {"TRACE": path}
    if env_extra:
        env.update(env_extra)
    r = run_tlc(trace_module, cfg, wd, workers=1, timeout=timeout, env_extra=env, coverage=False, dfs=True, heap=heap,
                library=library)
    if r["error"] and "TRACE-NOT-CONSUMED" not in r["out"]:
        raise ToolError(f"TLC error validating {name} with {trace_module}: {r['error']}")
    consumed = None
    rejects, drifts = [], []
    for t in r["printed"]:
        if not isinstance(t, tuple) or not t:
            continue
        if t[0] == "REJECT":
            rejects.append((t[1], t[2] if len(t) > 2 else ""))
        elif t[0] == "DRIFT":
            drifts.append((t[1], t[2] if len(t) > 2 else ""))
        elif t[0] == "CONSUMED":
            consumed = t[1]
        elif t[0] == "UNPARSED":
            raise ToolError(f"cannot parse TLC output line: {t[1][:300]}")
    if consumed != len(events):
        raise ToolError(f"trace {name}: TLC consumed {consumed} of {len(events)} events (trace specification is stuck)\n"
                        + "\n".join(r["out"].splitlines()[-30:]))
    # de-duplicate (TLC may evaluate a Print more than once)
    rejects = sorted(set(rejects))
    drifts = sorted(set(drifts))
    return rejects, drifts, r


# --------------------------------------------------------------------------------------------
# known findings, verdicts, evidence
# --------------------------------------------------------------------------------------------
def load_known_findings():
    p = os.path.join(VERIF, "known_findings.json")
    if not os.path.exists(p):
        return []
    with open(p) as f:
        return json.load(f).get("findings", [])


def fingerprint(obj):
    return hashlib.sha1(json.dumps(obj, sort_keys=True, ensure_ascii=True).encode()).hexdigest()[:16]


class Verdict:
    """Collects rejected cases of one check run, reconciles them with known_findings.json, prints the verdict lines."""

    def __init__(self, pid):
        self.pid = pid
        self.known = [k for k in load_known_findings() if k.get("property") == pid and k.get("status", "open") == "open"]
        self.violations = []   # (key, description, replay object)
        self.known_hit = {}    # finding id -> count
        self.drift = []

    def match_known(self, key, text):
        """A finding matches when its 'key' equals the case key or one of its 'match' regexes matches the case text."""
        for k in self.known:
            if k.get("key") and k["key"] == key:
                return k
            for rx in k.get("match", []):
                if re.search(rx, text, re.S):
                    return k
        return None

    def reject(self, key, description, replay, text=None):
        k = self.match_known(key, text if text is not None else description)
        if k is not None:
            self.known_hit[k["id"]] = self.known_hit.get(k["id"], 0) + 1
        else:
            self.violations.append((key, description, replay))

    def add_drift(self, msg):
        self.drift.append(msg)

    def finish(self, wd):
        for d in self.drift[:20]:
            log(f"MODEL-DRIFT property={self.pid} {d}")
        if len(self.drift) > 20:
            log(f"MODEL-DRIFT property={self.pid} ... {len(self.drift) - 20} more")
        for k in self.known:
            if k["id"] in self.known_hit:
                log(f"KNOWN-FINDING: property={self.pid} {k['id']}: {k['what']} (reproduced {self.known_hit[k['id']]}x in this run)")
        if not self.violations:
            return 0
        rdir = os.path.join(WORK, "replay")
        os.makedirs(rdir, exist_ok=True)
        seen = set()
        n = 0
        for key, desc, replay in self.violations:
            if key in seen:
                continue
            seen.add(key)
            n += 1
            if n > 25:
                continue
            path = os.path.join(rdir, f"{self.pid}_{fingerprint(key)}.json")
            with open(path, "w") as f:
                json.dump({"property": self.pid, "key": key, "what": desc, "replay": replay}, f, ensure_ascii=False, indent=1)
            log(f"VIOLATION property={self.pid} replay={path}")
            log(f"    {desc[:600]}")
        if n > 25:
            log(f"    ... and {n - 25} more distinct violations")
        return 1


def write_evidence(pid, tier, level, coverage, wall_s, violations, assumptions=None):
    os.makedirs(EVIDENCE, exist_ok=True)
    ev = {
        "property_id": pid,
        "tier": tier,
        "seed": seed(),
        "level": level,
        "coverage": coverage,
        "assumptions": assumptions or [],
        "wall_s": round(wall_s, 2),
        "violations": violations,
    }
    tmp = os.path.join(EVIDENCE, f".{pid}.json.tmp")
    with open(tmp, "w") as f:
        json.dump(ev, f, ensure_ascii=False, indent=1)
    os.replace(tmp, os.path.join(EVIDENCE, f"{pid}.json"))


def cps(s):
    """string -> list of code points (what TLC computes on; TLC strings are opaque)."""
    return [ord(c) for c in s]
