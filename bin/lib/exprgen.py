"""Concretisation of ExprGen.tla trees: MathML with a distinct decimal literal at every operand position."""
import common as C


def literals(n, mark):
    # distinct 2-digit . 1-digit decimals; no 0/1 digits that are turned into words ("one half"), no repeated digits patterns
    out = []
    for k in range(n):
        out.append(f"{23 + 2 * k}{mark}{(k % 7) + 2}")
    return out


def int_literals(n):
    # distinct 3-digit integers without 0/1 (braille does not turn integers into words, and integers are what fractions, indices
    # and exponents usually hold)
    return [f"{2 + (k % 7)}{3 + ((k * 3) % 7)}{(k % 8) + 2}" for k in range(n)]


class Builder:
    def __init__(self, mark, integers=False):
        self.mark = mark
        self.k = 0
        self.used = []
        self.integers = integers

    def lit(self):
        v = int_literals(self.k + 1)[-1] if self.integers else f"{23 + 2 * self.k}{self.mark}{(self.k % 7) + 2}"
        self.k += 1
        self.used.append(v)
        return f"<mn>{v}</mn>"

    def build(self, t):
        p = t["p"]
        if p == "lit":
            return self.lit()
        k = [self.build(x) if x["p"] == "lit" else "<mrow>" + self.build(x) + "</mrow>" for x in t["kids"]]
        f = getattr(self, "p_" + p)
        return f(*k)

    def p_sum(self, a, b): return f"{a}<mo>+</mo>{b}"
    def p_diff(self, a, b): return f"{a}<mo>−</mo>{b}"
    def p_product(self, a, b): return f"{a}<mo>·</mo>{b}"
    def p_times(self, a, b): return f"{a}<mo>×</mo>{b}"
    def p_neg(self, a): return f"<mo>−</mo>{a}"
    def p_factorial(self, a): return f"{a}<mo>!</mo>"
    def p_paren(self, a): return f"<mo>(</mo>{a}<mo>)</mo><mo>+</mo><mi>w</mi>"
    def p_frac(self, a, b): return f"<mfrac>{a}{b}</mfrac>"
    def p_sqrt(self, a): return f"<msqrt>{a}</msqrt>"
    def p_root(self, a, b): return f"<mroot>{a}{b}</mroot>"
    def p_sup(self, a, b): return f"<msup>{a}{b}</msup>"
    def p_sub(self, a, b): return f"<msub>{a}{b}</msub>"
    def p_subsup(self, a, b, c): return f"<msubsup>{a}{b}{c}</msubsup>"
    def p_sumlimits(self, a, b, c): return f"<munderover><mo>∑</mo><mrow><mi>i</mi><mo>=</mo>{a}</mrow>{b}</munderover>{c}"
    def p_integral(self, a, b, c): return f"<msubsup><mo>∫</mo>{a}{b}</msubsup>{c}<mo>&#x2062;</mo><mi>d</mi><mi>x</mi>"
    def p_lim(self, a): return f"<munder><mi>lim</mi><mrow><mi>x</mi><mo>→</mo>{a}</mrow></munder><mi>x</mi>"
    def p_sin(self, a): return f"<mi>sin</mi><mo>&#x2061;</mo>{a}"
    def p_log(self, a): return f"<mi>log</mi><mo>&#x2061;</mo>{a}"
    def p_fcall(self, a, b): return f"<mi>f</mi><mo>&#x2061;</mo><mrow><mo>(</mo>{a}<mo>,</mo>{b}<mo>)</mo></mrow>"
    def p_abs(self, a): return f"<mo>|</mo>{a}<mo>|</mo>"
    def p_binomial(self, a, b): return f"<mo>(</mo><mfrac linethickness='0'>{a}{b}</mfrac><mo>)</mo>"
    def p_list(self, a, b, c): return f"{a}<mo>,</mo>{b}<mo>,</mo>{c}"
    def p_table2x2(self, a, b, c, d): return f"<mo>(</mo><mtable><mtr><mtd>{a}</mtd><mtd>{b}</mtd></mtr><mtr><mtd>{c}</mtd><mtd>{d}</mtd></mtr></mtable><mo>)</mo>"
    def p_mixed(self, a, b, c): return f"{a}<mfrac>{b}{c}</mfrac>"
    def p_menclose(self, a): return f"<menclose notation='box'>{a}</menclose>"
    def p_eq(self, a, b): return f"{a}<mo>=</mo>{b}"
    def p_set(self, a, b, c): return f"<mo>{{</mo>{a}<mo>,</mo>{b}<mo>,</mo>{c}<mo>}}</mo>"
    def p_overbar(self, a): return f"<mover>{a}<mo>¯</mo></mover>"
    def p_underbrace(self, a, b): return f"<munder><munder>{a}<mo>⏟</mo></munder>{b}</munder>"
    def p_interval(self, a, b): return f"<mo>(</mo>{a}<mo>,</mo>{b}<mo>)</mo>"
    def p_mfencedlist(self, a, b, c): return f"<mfenced>{a}{b}{c}</mfenced>"
    def p_multiscripts(self, a, b, c, d): return f"<mmultiscripts><mi>X</mi>{a}{b}<mprescripts/>{c}{d}</mmultiscripts>"
    def p_overarrow(self, a): return f"<mover>{a}<mo>→</mo></mover>"
    def p_hat(self, a): return f"<mover accent='true'>{a}<mo>^</mo></mover>"
    def p_cases(self, a, b, c, d): return (f"<mi>g</mi><mo>=</mo><mo>{{</mo><mtable columnalign='left'><mtr><mtd>{a}</mtd><mtd><mtext>if </mtext><mi>t</mi><mo>&lt;</mo>{b}</mtd></mtr>"
                                           f"<mtr><mtd>{c}</mtd><mtd><mtext>if </mtext><mi>t</mi><mo>≥</mo>{d}</mtd></mtr></mtable>")
    def p_det2x2(self, a, b, c, d): return f"<mo>|</mo><mtable><mtr><mtd>{a}</mtd><mtd>{b}</mtd></mtr><mtr><mtd>{c}</mtd><mtd>{d}</mtd></mtr></mtable><mo>|</mo>"
    def p_labeledrow(self, a, b): return f"<mtable><mlabeledtr><mtd><mtext>(7)</mtext></mtd><mtd>{a}<mo>=</mo>{b}</mtd></mlabeledtr></mtable>"
    def p_percent(self, a): return f"{a}<mo>%</mo><mo>+</mo><mi>w</mi>"
    def p_degrees(self, a): return f"<mi>sin</mi><mo>&#x2061;</mo><msup>{a}<mo>°</mo></msup>"
    def p_prime(self, a): return f"<msup><mi>f</mi><mo>′</mo></msup><mo>&#x2061;</mo><mrow><mo>(</mo>{a}<mo>)</mo></mrow>"
    def p_logbase(self, a, b): return f"<msub><mi>log</mi>{a}</msub><mo>&#x2061;</mo>{b}"
    def p_contfrac(self, a, b, c): return f"<mfrac><mn>1</mn><mrow>{a}<mo>+</mo><mfrac><mn>1</mn><mrow>{b}<mo>+</mo><mfrac><mn>1</mn>{c}</mfrac></mrow></mfrac></mrow></mfrac>"
    def p_vector(self, a, b, c): return f"<mo>⟨</mo>{a}<mo>,</mo>{b}<mo>,</mo>{c}<mo>⟩</mo>"
    def p_ratio(self, a, b): return f"{a}<mo>:</mo>{b}"
    def p_mod(self, a, b): return f"{a}<mo>mod</mo>{b}"
    def p_floor(self, a): return f"<mo>⌊</mo>{a}<mo>⌋</mo>"
    def p_norm(self, a): return f"<mo>‖</mo>{a}<mo>‖</mo>"


def concretise(tree, mark=".", integers=False):
    b = Builder(mark, integers)
    body = b.build(tree)
    return f"<math>{body}</math>", b.used


_trees = {}


N_CHAIN3 = {}       # tier -> how many of the trailing 'deep' trees are the exhaustive depth-3 chains


def trees(wd, tier):
    """Abstract trees: every context to depth 2 (TLC, exhaustive) + simulated depth-4 nestings."""
    key = tier
    if key in _trees:
        return _trees[key]
    r = C.run_tlc("ExprGen", "MC_ExprGen_d2.cfg", wd, workers=2, timeout=300, coverage=False)
    if r["error"] or r["violation"]:
        raise C.ToolError(f"ExprGen: {r['error'] or r['violation']}")
    d2 = C.replay_lines(r)
    if len(d2) < 1500:
        raise C.ToolError(f"ExprGen exported only {len(d2)} trees")
    sim = C.run_tlc("ExprGen", "MC_ExprGen_sim.cfg", wd, workers=1, timeout=300, coverage=False, simulate=30 if tier == "quick" else 600, depth=5, seed_=C.seed())
    deep = C.replay_lines(sim)
    seen, dd = set(), []
    import json
    for t in deep:
        k = json.dumps(t, sort_keys=True)
        if k not in seen:
            seen.add(k)
            dd.append(t)
    ch = C.run_tlc("ExprGen", "MC_ExprGen_chain3.cfg", wd, workers=2, timeout=600, coverage=False)
    chain3 = C.replay_lines(ch)
    if ch["error"] or ch["violation"] or len(chain3) < 3000:
        raise C.ToolError(f"ExprGen chain3: {ch['error'] or ch['violation']} ({len(chain3)} trees)")
    N_CHAIN3[key] = len(chain3)
    _trees[key] = (d2, dd[: (150 if tier == "quick" else 4000)] + chain3, {"states": r["distinct"] + ch["distinct"], "transitions": r["states"] + ch["states"]})
    return _trees[key]
