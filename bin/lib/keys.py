"""Key-press entry point: Keys.tla (the two tables of navigate.rs as one function, model-checked over every key code of a byte and
every modifier combination) bound to do_navigate_keypress.

M1  TLC on MC_Keys: no combination reaches a panic! arm, what is executed is in the public vocabulary, refused combinations.
M2  the table TLC exports (one line per key x modifiers) drives the library: every combination is pressed from several start
    states (expression x navigation mode x position with markers set), and the command the table names is executed from the same
    start state (the twin).
M3  Trace_Keys.tla judges every press: it answers and stays inside the expression (property level: C08 / C11); it IS the command of
    the table (refinement level, MODEL-DRIFT)."""
import json
import random

import common as C
import mml

TABLE = ("<math><mrow><mi>A</mi><mo>=</mo><mrow><mo>(</mo><mtable><mtr><mtd><mfrac><mi>a</mi><mn>2</mn></mfrac></mtd><mtd><mi>b</mi></mtd></mtr>"
         "<mtr><mtd><mi>c</mi></mtd><mtd><msup><mi>d</mi><mn>3</mn></msup></mtd></mtr></mtable><mo>)</mo></mrow></mrow></math>")
PLAIN = ("<math><mi>x</mi><mo>=</mo><mfrac><mrow><mo>-</mo><mi>b</mi><mo>&#xB1;</mo><msqrt><msup><mi>b</mi><mn>2</mn></msup><mo>-</mo><mn>4</mn><mi>a</mi><mi>c</mi></msqrt></mrow>"
         "<mrow><mn>2</mn><mi>a</mi></mrow></mfrac></math>")
PRES = {
    "root": [],
    "zoomed": ["ZoomIn", "SetPlacemarker1", "MoveNext", "MoveNext"],
    "leaf": ["ZoomInAll", "SetPlacemarker2", "MoveNext", "SetPlacemarker1", "MoveNext"],
    "cell": ["ZoomIn", "MoveEnd", "ZoomIn", "ZoomIn", "SetPlacemarker0", "MoveNext"],
}
OBS_REASONS = {"C08": ("key-press-no-answer",), "C11": ("position-not-in-expression-after-key-press",)}


def model(wd):
    """-> (TLC result, table {(key, shift, ctrl, alt, meta): (command, class)})"""
    r = C.tlc_model_check("MC_Keys", "MC_Keys.cfg", wd, workers=2, timeout=300, coverage=False)
    table = {}
    for t in r["printed"]:
        if isinstance(t, tuple) and t and t[0] == "KEYMAP":
            table[(t[1], t[2], t[3], t[4], t[5])] = (t[6], t[7])
    if len(table) < 24 * 16 or r["distinct"] != 256 * 16:
        raise C.ToolError(f"Keys.tla: table has {len(table)} entries, {r['distinct']} states")
    if not any(c == "bail" for c, _ in table.values()) or not any(c == "Error" for c, _ in table.values()):
        raise C.ToolError("Keys.tla: no refused / Error combination in the table (vacuous)")
    return r, table


def build(table, tier):
    combos = sorted(table)
    states = [(x, m, p) for x in ("table", "plain") for m in ("Enhanced", "Simple", "Character") for p in PRES]
    if tier == "quick":
        # every combination from four start states (one per position class, modes and expressions rotate) ...
        rs = random.Random(C.seed() * 41)
        pick = [("table", "Enhanced", "cell"), ("plain", "Simple", "leaf"), ("table", "Character", "zoomed"), ("plain", "Enhanced", "root")]
        extra = rs.sample([s for s in states if s not in pick], 2)
        states = pick + extra
    scripts = []
    for (x, mode, pre) in states:
        expr = TABLE if x == "table" else PLAIN
        ops = [{"op": "set_rules_dir", "dir": "$RULES"}, {"op": "set_pref", "name": "Language", "value": "en"}]
        segs = []

        def start():
            # (the toggle commands write NavMode / Overview back: both are set again at every start)
            ops.append({"op": "set_pref", "name": "NavMode", "value": mode})
            ops.append({"op": "set_pref", "name": "Overview", "value": "false"})
            ops.append({"op": "set_mathml", "mathml": expr})
            for c in PRES[pre]:
                ops.append({"op": "nav_cmd", "cmd": c})
            ops.append({"op": "nav_id"})
        for cb in combos:
            cmd = table[cb][0]
            seg = {"combo": cb, "cmd": cmd}
            start()
            seg["set"] = len(ops) - 2 - len(PRES[pre])
            seg["before"] = len(ops) - 1
            ops.append({"op": "nav_key", "key": cb[0], "shift": cb[1], "ctrl": cb[2], "alt": cb[3], "meta": cb[4]})
            seg["press"] = len(ops) - 1
            ops.append({"op": "nav_id"})
            if cmd not in ("bail", "Error"):
                start()
                ops.append({"op": "nav_cmd", "cmd": cmd})
                seg["twin"] = len(ops) - 1
                ops.append({"op": "nav_id"})
            segs.append(seg)
        scripts.append({"id": f"keys:{x}:{mode}:{pre}", "ops": ops, "segs": segs})
    return scripts


def norm(i):
    """every set_mathml draws a new id prefix: a node is named by the running number behind it (the expressions carry no author ids)"""
    return i.rsplit("-", 1)[-1]


def pos(r):
    return [norm(r["v"][0]), r["v"][1]] if r["r"] == "ok" else ["", 0]


def project(s, res):
    rs = res["results"]
    events, back = [], []
    nodes = None
    for seg in s["segs"]:
        if nodes is None:
            r = rs[seg["set"]]
            if r["r"] != "ok":
                return [], []
            t = mml.parse(r["v"], expand=False)
            nodes = [norm(i) for i in mml.ids(t)] if t else []
            events.append({"k": "set", "nodes": nodes})
            back.append(seg)
        cb = seg["combo"]
        p = rs[seg["press"]]
        e = {"k": "key", "key": cb[0], "shift": cb[1], "ctrl": cb[2], "alt": cb[3], "meta": cb[4], "res": p["r"],
             "before": pos(rs[seg["before"]]), "after": pos(rs[seg["press"] + 1]), "say": p["v"] if p["r"] == "ok" else "",
             "twinCmd": seg["cmd"], "twinRes": "", "twinAfter": ["", 0], "twinSay": ""}
        if "twin" in seg:
            t_ = rs[seg["twin"]]
            e["twinRes"], e["twinAfter"], e["twinSay"] = t_["r"], pos(rs[seg["twin"] + 1]), (t_["v"] if t_["r"] == "ok" else "")
        events.append(e)
        back.append(seg)
    return events, back


def stage(pid, wd, tier, verdict):
    m1, table = model(wd)
    scripts = build(table, tier)
    results = C.run_mcv([{"id": s["id"], "ops": s["ops"]} for s in scripts], wd, name="keys", timeout_ms=30000)
    n_ev = n_rej = n_drift = moved = 0
    drift_kinds = {}
    for s, r in zip(scripts, results):
        ev, back = project(s, r)
        if not ev:
            raise C.ToolError(f"key sweep {s['id']}: the start expression was not accepted")
        rej, drifts, _ = C.validate_trace("Trace_Keys", "Trace_Keys.cfg", ev, wd, name="keys_" + s["id"].replace(":", "_"), timeout=600, heap="2g")
        n_ev += len(ev) - 1
        moved += sum(1 for e in ev if e["k"] == "key" and e["after"] != e["before"])
        for idx, reason in rej:
            n_rej += 1
            if not reason.startswith(OBS_REASONS.get(pid, ("\0",))):
                continue
            seg, e = back[idx - 1], ev[idx - 1]
            upto = s["ops"][:2] + s["ops"][seg["set"] - 2:seg["press"] + 1]
            if pid == "C11":     # C11's replay reads a script in which every navigation call is followed by the three observations
                obs = [{"op": "nav_id"}, {"op": "nav_mathml"}, {"op": "nav_state"}]
                upto = [x for o in upto if o["op"] != "nav_id" for x in ([o] + (obs if o["op"] in ("set_mathml", "nav_cmd", "nav_key") else []))]
            verdict.reject(f"key-sweep|{reason}|{e['key']}|{int(e['shift'])}{int(e['ctrl'])}{int(e['alt'])}{int(e['meta'])}",
                           f"{reason}: do_navigate_keypress({e['key']}, shift={e['shift']}, control={e['ctrl']}, alt={e['alt']}, meta={e['meta']}) in {s['id']} "
                           f"(table of Keys.tla: {seg['cmd']}); before={e['before']} after={e['after']}",
                           {"script": upto}, text=json.dumps({"reason": reason, "stage": "key-sweep", "key": e["key"], "cmd": seg["cmd"]}))
        for idx, reason in drifts:
            n_drift += 1
            e = ev[idx - 1]
            k = f"{reason} [{e['twinCmd']}]"
            drift_kinds[k] = drift_kinds.get(k, 0) + 1
    for k, n in sorted(drift_kinds.items())[:40]:
        verdict.add_drift(f"key sweep: {n} press(es): {k}")
    return {"key_table_states_checked": m1["distinct"], "key_presses_executed": n_ev, "key_presses_that_moved": moved, "key_sweep_sessions": len(scripts),
            "key_sweep_rejections_all_properties": n_rej, "key_sweep_drift": n_drift}


def selftest(wd):
    """the binding is real: a recorded sweep is accepted; a corrupted landing position / twin outcome is rejected / reported."""
    _, table = model(wd)
    s = build(table, "quick")[0]
    res = C.run_mcv([{"id": s["id"], "ops": s["ops"]}], wd, name="keys_self")[0]
    ev, _ = project(s, res)
    rej, drifts, _ = C.validate_trace("Trace_Keys", "Trace_Keys.cfg", ev, wd, name="keys_self_ok")
    if rej:
        raise C.ToolError(f"key sweep selftest: unchanged recording rejected: {rej[:3]}")
    bad = json.loads(json.dumps(ev))
    i = next(i for i, e in enumerate(bad) if e["k"] == "key" and e["res"] == "ok" and e["after"] != e["before"])
    bad[i]["after"] = ["no-such-node", 0]
    j = next(j for j, e in enumerate(bad) if j > i and e["k"] == "key" and e["twinRes"] == "ok")
    bad[j]["twinSay"] = bad[j]["twinSay"] + " x"
    rej2, drifts2, _ = C.validate_trace("Trace_Keys", "Trace_Keys.cfg", bad, wd, name="keys_self_bad")
    if [x for x, _ in rej2] != [i + 1] or (j + 1) not in [x for x, _ in drifts2]:
        raise C.ToolError(f"key sweep selftest: corrupted recording not judged as expected: {rej2} {drifts2[:3]}")
    return {"baseline_drift": len(drifts)}
