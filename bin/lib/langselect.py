"""LangSelect.tla (which language's files a session uses, as a function of Language / LanguageAuto / SpeechStyle / set_rules_dir) bound to
the library.

M1  TLC: the intended configuration satisfies FilesFollow; each of the three deviations of the pinned commit is refuted.
M2  every sequence of at most Depth calls of the model (TLC-exported) is executed in a fresh session; the model languages sv / es stand for
    two real languages that rotate with the behaviour.
M3  Trace_LangSelect.tla: same current preference values => same files, across all histories of the run (property level, C10); each step
    is a step of LangSelect!Next (refinement level)."""
import json
import re

import common as C

PROBE = "<math><mfrac><mrow><mi>sin</mi><mi>x</mi></mrow><mn>2</mn></mfrac><mo>+</mo><msup><mi>x</mi><mn>2</mn></msup></math>"
REAL = ["sv", "es", "fi", "id", "vi"]
OBS = [{"op": "set_mathml", "mathml": PROBE}, {"op": "speech"}, {"op": "cache_state"}, {"op": "get_pref", "name": "Language"},
       {"op": "get_pref", "name": "LanguageAuto"}, {"op": "get_pref", "name": "SpeechStyle"}]


def model(wd):
    m = C.tlc_model_check("LangSelect", "MC_LangSelect_intended.cfg", wd, workers=2, timeout=300, coverage=False)
    for dev in ("style", "auto", "repoint"):
        r = C.run_tlc("LangSelect", f"MC_LangSelect_dev_{dev}.cfg", wd, workers=2, timeout=300, coverage=False)
        if r["violation"] != "FilesFollow":
            raise C.ToolError(f"LangSelect.tla: deviation {dev} is not refuted by FilesFollow ({r['violation']}, {r['error']})")
    return m


def lang_of(path):
    m = re.search(r"Languages/([a-z]+)/", path.replace("\\", "/"))
    return m.group(1) if m else "?"


def reference(rs, i):
    """a fresh session that sets the preference values read back after call i, and speaks the probe"""
    lang, la, st = rs[i + 4]["v"], rs[i + 5]["v"], rs[i + 6]["v"]
    ops = [{"op": "set_rules_dir", "dir": "$RULES"}, {"op": "set_pref", "name": "SpeechStyle", "value": st}, {"op": "set_pref", "name": "Language", "value": lang}]
    if lang == "Auto" and la:
        ops.append({"op": "set_pref", "name": "LanguageAuto", "value": la})
    return ops + OBS[:2]


def stage(wd, tier, verdict):
    m1 = model(wd)
    ex = C.run_tlc("MC_LangSelect", "MC_LangSelect_export3.cfg" if tier == "quick" else "MC_LangSelect_export.cfg", wd, workers=2, timeout=600, coverage=False)
    if ex["error"] or ex["violation"]:
        raise C.ToolError(f"LangSelect export: {ex['error'] or ex['violation']}")
    behs = [b for b in C.replay_lines(ex) if b.get("hist")]
    if len(behs) < 300:
        raise C.ToolError(f"LangSelect.tla exported only {len(behs)} behaviours")
    scripts = []
    for bi, b in enumerate(behs):
        a, c = REAL[bi % len(REAL)], REAL[(bi // len(REAL) + 1 + bi) % len(REAL)]
        if a == c:
            c = REAL[(REAL.index(a) + 1) % len(REAL)]
        to_real = {"en": "en", "sv": a, "es": c, "Auto": "Auto"}
        style0 = ["ClearSpeak", "SimpleSpeak"][bi % 2]
        ops = [{"op": "set_rules_dir", "dir": "$RULES"}, {"op": "set_pref", "name": "SpeechStyle", "value": style0}] + OBS
        at = []
        for h in b["hist"]:
            if h["name"] == "set_rules_dir":
                ops.append({"op": "set_rules_dir", "dir": "$RULES"})
            else:
                ops.append({"op": "set_pref", "name": h["name"], "value": to_real.get(h["value"], h["value"])})
            at.append(len(ops) - 1)
            ops += OBS
        scripts.append({"id": f"ls{bi}", "ops": ops, "at": at, "hist": b["hist"], "back": {v: k for k, v in to_real.items()}, "style0": style0})
    results = C.run_mcv([{"id": s["id"], "ops": s["ops"]} for s in scripts], wd, name="langselect", timeout_ms=60000)
    events, back = [], []
    for si, (s, r) in enumerate(zip(scripts, results)):
        rs = r["results"]
        events.append({"k": "session", "style": s["style0"]})
        back.append((si, -1))
        for h, i in zip(s["hist"], s["at"]):
            cs, pl, pa, ps = rs[i + 3], rs[i + 4], rs[i + 5], rs[i + 6]
            if rs[i]["r"] not in ("ok", "err") or cs["r"] != "ok" or not cs["v"] or any(x["r"] != "ok" for x in (pl, pa, ps)):
                break           # (a crash is C08's business; the rest of this session is not judged)
            sp = cs["v"].get("speech", {})
            rf, uf = sp.get("rule_files") or [], sp.get("unicode_short_files") or []
            if not rf or not uf:
                break
            sl, ol = lang_of(rf[0][0]), lang_of(uf[0][0])
            sn = re.search(r"/(\w+)_Rules\.yaml$", rf[0][0].replace("\\", "/"))
            bk = s["back"]
            events.append({"k": "call", "name": h["name"], "value": h["value"], "res": rs[i]["r"], "lang": bk.get(pl["v"], pl["v"]), "langAuto": bk.get(pa["v"], pa["v"]),
                           "style": ps["v"], "obs": [bk.get(sl, sl), sn.group(1) if sn else "?", bk.get(ol, ol)]})
            back.append((si, i))
    if sum(1 for e in events if e["k"] == "call") < len(scripts):
        raise C.ToolError("LangSelect: too few usable recordings")
    rej, drifts, _ = C.validate_trace("Trace_LangSelect", "Trace_LangSelect.cfg", events, wd, name="langselect", timeout=1200, heap="4g")
    for idx, reason in rej:
        si, i = back[idx - 1]
        s, e = scripts[si], events[idx - 1]
        calls = [f"{o.get('name', 'set_rules_dir')}={o.get('value', '')}" for o in s["ops"][:i + 1] if o["op"] in ("set_pref", "set_rules_dir")]
        verdict.reject(f"langselect|{reason}|{e['lang']}|{e['langAuto']}|{e['style']}|{json.dumps(e['obs'])}",
                       f"{reason}: after {calls} the preferences read Language={e['lang']} LanguageAuto={e['langAuto']} SpeechStyle={e['style']} and the speech table holds "
                       f"(style file of, style, Unicode file of) = {e['obs']} - another history with the same preference values showed other files",
                       {"script": s["ops"][:i + 3], "reference_script": reference(results[si]["results"], i)}, text=json.dumps({"reason": reason, "stage": "langselect", "calls": calls, "obs": e["obs"]}))
    kinds = {}
    for idx, reason in drifts:
        kinds[reason] = kinds.get(reason, 0) + 1
    for k, n in sorted(kinds.items()):
        verdict.add_drift(f"language selection: {n} step(s): {k}")
    return {"langselect_model_states": m1["distinct"], "langselect_behaviours_replayed": len(scripts), "langselect_calls_judged": sum(1 for e in events if e["k"] == "call"),
            "langselect_rejections": len(rej), "langselect_drift": len(drifts)}


def selftest(wd):
    model(wd)
    ev = [{"k": "session", "style": "ClearSpeak"},
          {"k": "call", "name": "Language", "value": "sv", "res": "ok", "lang": "sv", "langAuto": "", "style": "ClearSpeak", "obs": ["sv", "ClearSpeak", "sv"]},
          {"k": "call", "name": "Language", "value": "Auto", "res": "ok", "lang": "Auto", "langAuto": "sv", "style": "ClearSpeak", "obs": ["sv", "ClearSpeak", "sv"]},
          {"k": "call", "name": "SpeechStyle", "value": "SimpleSpeak", "res": "ok", "lang": "Auto", "langAuto": "sv", "style": "SimpleSpeak", "obs": ["sv", "SimpleSpeak", "sv"]},
          {"k": "session", "style": "SimpleSpeak"},
          {"k": "call", "name": "Language", "value": "Auto", "res": "ok", "lang": "Auto", "langAuto": "", "style": "SimpleSpeak", "obs": ["en", "SimpleSpeak", "en"]},
          {"k": "call", "name": "LanguageAuto", "value": "sv", "res": "ok", "lang": "Auto", "langAuto": "sv", "style": "SimpleSpeak", "obs": ["sv", "SimpleSpeak", "sv"]}]
    rej, d, _ = C.validate_trace("Trace_LangSelect", "Trace_LangSelect.cfg", ev, wd, name="langselect_self_ok")
    if rej or d:
        raise C.ToolError(f"LangSelect selftest: lawful recording judged: {rej} {d}")
    bad = json.loads(json.dumps(ev))
    bad[3]["obs"] = ["en", "SimpleSpeak", "sv"]          # the style file of the pinned commit
    rej, d, _ = C.validate_trace("Trace_LangSelect", "Trace_LangSelect.cfg", bad, wd, name="langselect_self_bad")
    if [i for i, _ in rej] != [7] or [i for i, _ in d] != [4]:
        raise C.ToolError(f"LangSelect selftest: corrupted recording not judged as expected: {rej} {d}")
