"""Projection of MathML strings into values TLC can compute on, and the corpus harvested from the repository.

The projector does no judging.  A tree is a nested record
    {"tag": str, "kids": [tree...], "cp": [code points of the leaf text], "a": {restricted attributes}}
`cp` is the concatenated character data directly inside the element (for token elements: their text).
"""
import glob
import html
import os
import re
import xml.etree.ElementTree as ET

from common import REPO

KEPT_ATTRS = ("id", "intent", "encoding", "arg", "data-changed", "data-id-added", "mathvariant", "form", "open", "close",
              "separators", "alt", "data-chem-formula-op", "data-previous-space-width", "data-following-space-width",
              "data-empty-in-2D", "data-added", "data-split", "data-function-guess", "width", "notation",
              "data-width", "data-function-likelihood", "data-chem-formula", "data-chem-equation", "data-intent-property")

_entities = None


def entity_table():
    """name -> expansion, harvested from src/entities.in (the library's own table)."""
    global _entities
    if _entities is None:
        _entities = {}
        src = open(os.path.join(REPO, "src", "entities.in"), encoding="utf-8").read()
        for m in re.finditer(r'"([A-Za-z0-9]+)"\s*=>\s*"((?:[^"\\]|\\.)*)"', src):
            _entities[m.group(1)] = rust_unescape(m.group(2))
    return _entities


def rust_unescape(s):
    def rep(m):
        g = m.group(0)
        if g.startswith("\\u{"):
            return chr(int(g[3:-1], 16))
        return {"\\n": "\n", "\\t": "\t", "\\r": "\r", "\\\\": "\\", '\\"': '"', "\\'": "'", "\\0": "\0"}.get(g, g)
    return re.sub(r"\\u\{[0-9a-fA-F]+\}|\\.", rep, s)


def expand_entities(s):
    """Replace named entities (other than the five XML ones) by their expansion so an XML parser accepts the text."""
    tab = entity_table()

    def rep(m):
        n = m.group(1)
        if n in ("amp", "lt", "gt", "quot", "apos"):
            return m.group(0)
        if n in tab:
            v = tab[n]
            return "".join(f"&#x{ord(c):X};" for c in v)
        return m.group(0)
    return re.sub(r"&([A-Za-z][A-Za-z0-9]*);", rep, s)


def strip_ns(tag):
    if not isinstance(tag, str):
        return "#other"
    return tag.split("}", 1)[1] if "}" in tag else tag


TOKEN_TAGS = ("mi", "mn", "mo", "mtext", "ms")


def token_text(el):
    """Character data of a token element in document order; embedded HTML wrappers contribute their text, mglyph its alt."""
    out = el.text or ""
    for k in list(el):
        if isinstance(k.tag, str):
            out += k.attrib.get("alt", "") if strip_ns(k.tag) == "mglyph" else token_text(k)
        out += k.tail or ""
    return out


def project(el):
    if strip_ns(el.tag) in TOKEN_TAGS and len(list(el)) > 0:
        attrs = {strip_ns(k): v for k, v in el.attrib.items() if strip_ns(k) in KEPT_ATTRS}
        return {"tag": strip_ns(el.tag), "kids": [], "cp": [ord(c) for c in token_text(el)], "a": attrs}
    kids = [project(k) for k in list(el) if isinstance(k.tag, str)]
    text = (el.text or "")
    for k in list(el):
        text += (k.tail or "")
    if kids:
        # character data between element children is not content of a container; keep it only if non-blank
        text = text if text.strip() else ""
    attrs = {}
    for k, v in el.attrib.items():
        k = strip_ns(k)
        if k in KEPT_ATTRS:
            attrs[k] = v
    return {"tag": strip_ns(el.tag), "kids": kids, "cp": [ord(c) for c in text], "a": attrs}


def parse(s, expand=True):
    """XML string -> projected tree; None when it is not well-formed XML (for Python's independent parser)."""
    if expand:
        s = expand_entities(s)
    try:
        root = ET.fromstring(s)
    except ET.ParseError:
        return None
    return project(root)


def tree_for_tlc(t):
    """The record handed to TLC (all fields always present; see spec/Canon.tla)."""
    a = t["a"]
    return {
        "tag": t["tag"],
        "kids": [tree_for_tlc(k) for k in t["kids"]],
        "cp": t["cp"],
        "intent": 1 if "intent" in a else 0,
        "open": [ord(c) for c in a["open"]] if "open" in a else [-1],
        "close": [ord(c) for c in a["close"]] if "close" in a else [-1],
        "seps": [ord(c) for c in a["separators"]] if "separators" in a else [-1],
        "alt": [ord(c) for c in a.get("alt", "")],
        "presEnc": 1 if a.get("encoding") == "MathML-Presentation" else 0,
        "id": a.get("id", ""),
        "idAdded": 1 if a.get("data-id-added") == "true" else 0,
    }


def nodes(t):
    yield t
    for k in t["kids"]:
        yield from nodes(k)


def ids(t):
    return [n["a"]["id"] for n in nodes(t) if "id" in n["a"]]


def rename_ids(s):
    """Random element ids (prefix chosen per set_mathml call) -> stable names: M<random>-<n> becomes #<n>."""
    return re.sub(r"\bM[0-9a-z]{6,10}-(\d+)\b", r"#\1", s)


# --------------------------------------------------------------------------------------------
# corpus: every <math>…</math> literal of the repository's own tests
# --------------------------------------------------------------------------------------------
_corpus = None


def corpus():
    global _corpus
    if _corpus is not None:
        return _corpus
    files = sorted(glob.glob(os.path.join(REPO, "tests", "**", "*.rs"), recursive=True)) + \
        sorted(glob.glob(os.path.join(REPO, "src", "*.rs")))
    seen = {}
    for fn in files:
        try:
            src = open(fn, encoding="utf-8").read()
        except OSError:
            continue
        for m in re.finditer(r"<math.*?</math>", src, re.S):
            e = m.group(0)
            # undo Rust string escapes
            e = rust_unescape(e)
            # line continuations inside Rust strings
            e = re.sub(r"\\\n\s*", "", e)
            if e not in seen:
                seen[e] = os.path.relpath(fn, REPO)
    _corpus = [{"mathml": k, "src": v} for k, v in seen.items()]
    return _corpus


def visible_text(t):
    """Plain helper (not an oracle): the characters of all leaves, for sample listings and non-triviality tests."""
    if not t["kids"]:
        return "".join(chr(c) for c in t["cp"])
    return "".join(visible_text(k) for k in t["kids"])
