"""Landing laws of navigation (NavGeom.tla) against recorded sessions: refinement level only (MODEL-DRIFT).

M1  TLC on NavGeom.tla: on every ordered tree of up to 6 nodes the laws imply that sweeps and zoom chains terminate.
M3  Trace_NavGeom.tla: every recorded Move*/Zoom* command of C11's sessions (model behaviours, walks, sweeps) is compared with the law of
    its family, on the preorder geometry of the canonical expression."""
import json

import common as C
import mml


def geometry(tree):
    """id -> [lo, hi]: preorder interval of every element of the canonical tree."""
    geo = {}
    n = [0]

    def walk(t):
        n[0] += 1
        lo = n[0]
        for k in t["kids"]:
            walk(k)
        i = t["a"].get("id", "")
        if i:
            geo[i] = [lo, n[0]]
    walk(tree)
    # navigation starts "on the whole expression": the math element and its only child are one place
    if len(tree["kids"]) == 1 and tree["a"].get("id") in geo and tree["kids"][0]["a"].get("id") in geo:
        geo[tree["a"]["id"]] = list(geo[tree["kids"][0]["a"]["id"]])
    return geo


def model(wd):
    m = C.tlc_model_check("NavGeom", "MC_NavGeom.cfg", wd, workers=2, timeout=300, coverage=False)
    # the observed deviation (a move may land on an ancestor at an edge) must cost the termination argument: refuted by TLC
    e = C.run_tlc("NavGeom", "MC_NavGeom_edge.cfg", wd, workers=2, timeout=300, coverage=False)
    if e["violation"] != "SweepsTerminate":
        raise C.ToolError(f"NavGeom.tla: EdgeZoomOut is not refuted by SweepsTerminate ({e['violation']}, {e['error']})")
    return m


def project(script, res):
    ops, rs = script["ops"], res["results"]
    mode = script.get("prefs", {}).get("NavMode", "?")
    events, before = [], ""
    have = False
    for i, op in enumerate(ops):
        if op["op"] == "set_mathml":
            r = rs[i]
            if r["r"] == "ok":
                t = mml.parse(r["v"], expand=False)
                if t is not None:
                    g = geometry(t)
                    # (ids that are not TLC-friendly record fields are rare: author ids with quotes; skip such expressions)
                    if g and all(isinstance(k, str) and k for k in g):
                        events.append({"k": "set", "geo": g})
                        have = True
                        before = t["a"].get("id", "")
                        continue
            have = False if r["r"] == "ok" else have
        elif op["op"] == "nav_cmd" and have and i + 1 < len(ops) and ops[i + 1]["op"] == "nav_id":
            r, rid = rs[i], rs[i + 1]
            if r["r"] not in ("ok", "err") or rid["r"] != "ok":
                have = False
                continue
            after = rid["v"][0]
            events.append({"k": "cmd", "name": op["cmd"], "res": r["r"], "before": before, "after": after, "mode": mode})
            before = after
        elif op["op"] in ("set_nav_node", "nav_key") and i + 1 < len(ops) and ops[i + 1]["op"] == "nav_id":
            rid = rs[i + 1]
            if rid["r"] == "ok":
                before = rid["v"][0]
            else:
                have = False
    return events


def stage(scripts, results, wd, verdict):
    m1 = model(wd)
    events = []
    for s, r in zip(scripts, results):
        ev = project(s, r)
        if sum(1 for e in ev if e["k"] == "cmd"):
            events += ev
    if not events:
        raise C.ToolError("navigation geometry: no usable recording")
    rej, drifts, _ = C.validate_trace("Trace_NavGeom", "Trace_NavGeom.cfg", events, wd, name="navgeom", timeout=1200, heap="6g")
    judged, broken = {}, {}
    fam = lambda n_: "in" if n_.startswith("ZoomIn") else "out" if n_.startswith("ZoomOut") else "move"
    for e in events:
        if e["k"] == "cmd" and (e["name"].startswith("Move") or e["name"].startswith("Zoom")) and not e["name"].startswith("MoveTo") and e["name"] != "MoveLastLocation":
            judged[e["name"]] = judged.get(e["name"], 0) + 1
    for idx, reason in drifts:
        e = events[idx - 1]
        k = f"{reason} [{e['name']}, {e['mode']}]"
        broken[k] = broken.get(k, 0) + 1
    import os
    if os.environ.get("NAVGEOM_DEBUG"):
        seen = {}
        for idx, reason in drifts:
            e = events[idx - 1]
            k = (reason, e["name"])
            if seen.get(k, 0) < 2:
                seen[k] = seen.get(k, 0) + 1
                g = next(ev["geo"] for ev in reversed(events[:idx]) if ev["k"] == "set")
                C.log(f"  {reason} {e['name']} {e['mode']} res={e['res']}: {e['before']}{g.get(e['before'])} -> {e['after']}{g.get(e['after'])}  prev={[x['name'] for x in events[max(0, idx - 4):idx - 1] if x['k'] == 'cmd']}")
    for k, n_ in sorted(broken.items(), key=lambda x: -x[1])[:30]:
        verdict.add_drift(f"navigation geometry: {n_} step(s): {k}")
    return {"navgeom_model_states": m1["distinct"], "navgeom_commands_judged": sum(judged.values()), "navgeom_commands_by_name": judged,
            "navgeom_steps_outside_the_laws": len(drifts), "navgeom_outside_by_law": broken}


def selftest(wd):
    model(wd)
    good = [{"k": "set", "geo": {"r": [1, 4], "a": [2, 3], "b": [3, 3], "c": [4, 4]}},
            {"k": "cmd", "name": "ZoomIn", "res": "ok", "before": "r", "after": "a", "mode": "Enhanced"},
            {"k": "cmd", "name": "MoveNext", "res": "ok", "before": "a", "after": "c", "mode": "Enhanced"},
            {"k": "cmd", "name": "ZoomOut", "res": "ok", "before": "c", "after": "r", "mode": "Enhanced"}]
    _, d, _ = C.validate_trace("Trace_NavGeom", "Trace_NavGeom.cfg", good, wd, name="navgeom_self_ok")
    if d:
        raise C.ToolError(f"navigation geometry selftest: lawful steps reported: {d}")
    bad = json.loads(json.dumps(good))
    bad[2]["after"] = "r"           # MoveNext that zooms out
    bad[3] = {"k": "cmd", "name": "ZoomOut", "res": "ok", "before": "r", "after": "b", "mode": "Enhanced"}
    _, d, _ = C.validate_trace("Trace_NavGeom", "Trace_NavGeom.cfg", bad, wd, name="navgeom_self_bad")
    if [i for i, _ in d] != [3, 4]:
        raise C.ToolError(f"navigation geometry selftest: unlawful steps not reported as expected: {d}")
