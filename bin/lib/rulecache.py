"""M1/M2 glue for RuleCache.tla (used by C10, C14, C15)."""
import json
import re

import common as C
import session as S

LANG = {"en": "en", "engb": "en-gb", "es": "es"}
MISS_EXPRS = ["<math><mi>ℵ</mi><mo>⨁</mo><mi>x</mi></math>", "<math><mi>x</mi><mo>⩽</mo><mi>ϰ</mi></math>",
              "<math><mo>⦃</mo><mi>a</mi><mo>⦄</mo></math>"]
HIT_EXPRS = ["<math><mi>x</mi><mo>+</mo><mn>2</mn><mo>=</mo><mo>(</mo><mi>y</mi><mo>)</mo></math>",
             "<math><mfrac><mi>a</mi><mi>b</mi></mfrac><mo>&lt;</mo><msup><mi>x</mi><mn>2</mn></msup></math>"]


def model_check(wd, tier, pid):
    if pid == "C10":
        cfg = "MC_RuleCache_c10_quick.cfg" if tier == "quick" else "MC_RuleCache_c10.cfg"
        return C.tlc_model_check("RuleCache", cfg, wd, workers=12, timeout=1500, required_actions=("SetLanguage", "SetMode"))
    cfg = "MC_RuleCache_c14_intended_quick.cfg" if tier == "quick" else "MC_RuleCache_c14_intended.cfg"
    return C.tlc_model_check("RuleCache", cfg, wd, workers=12, timeout=2400, required_actions=("Damage", "Repair", "SetMode"))


def model_histories(wd, tier):
    n = 40 if tier == "quick" else 600
    r = C.run_tlc("MC_RuleCacheSim", "MC_RuleCache_sim.cfg", wd, workers=1, simulate=n, depth=23, seed_=C.seed(), coverage=False, timeout=600)
    if r["error"] or r["violation"]:
        raise C.ToolError(f"RuleCache simulation failed: {r['error'] or r['violation']}")
    seen, out = set(), []
    for h in C.replay_lines(r):
        k = json.dumps(h, sort_keys=True)
        if k not in seen:
            seen.add(k)
            out.append(h)
    if len(out) < 5:
        raise C.ToolError("RuleCache model exported too few histories")
    return out[:n * 3]


def concretise_history(h, exprs, rng):
    """Abstract history of RuleCache.tla -> script with tagged observations (same tags as c10.history)."""
    import c10
    pool = list(exprs)
    n0 = len(pool)
    pool_ext = pool + MISS_EXPRS + HIT_EXPRS        # indices n0.. are the miss/hit expressions
    miss_idx = list(range(n0, n0 + len(MISS_EXPRS)))
    hit_idx = list(range(n0 + len(MISS_EXPRS), len(pool_ext)))
    ops = [{"op": "set_rules_dir", "dir": "$RULES"}, {"op": "def_names", "names": S.pref_names()}]
    tags = [None, None]
    init = h[0]
    ops.append({"op": "set_pref", "name": "Language", "value": LANG[init["arg"]]})
    ops.append({"op": "set_pref", "name": "BrailleCode", "value": init["res"]})
    tags += [None, None]
    cur = None           # index of the current expression
    cur_miss = None

    def set_expr(miss):
        nonlocal cur, cur_miss
        ei = rng.choice(miss_idx if miss else hit_idx + list(range(min(n0, 6))))
        ops.append({"op": "prefs_hash"})
        tags.append(None)
        ops.append({"op": "set_mathml", "mathml": pool_ext[ei]})
        tags.append(("set", ei, "canon"))
        cur, cur_miss = ei, miss

    for a in h[1:]:
        n, arg = a["name"], a["arg"]
        if n == "Language":
            ops.append({"op": "set_pref", "name": "Language", "value": LANG[arg]})
            tags.append(None)
        elif n in ("BrailleCode", "CheckRuleFiles"):
            ops.append({"op": "set_pref", "name": n, "value": arg})
            tags.append(None)
        elif n == "set_mathml":
            set_expr(arg == "miss")
        elif n in ("speech", "overview", "braille"):
            if cur is None or cur_miss != (arg == "miss"):
                set_expr(arg == "miss")
            c10.observe(ops, tags, cur, n)
        elif n == "navigate":
            if cur is None:
                set_expr(arg == "miss")
            ops.append({"op": "nav_cmd", "cmd": rng.choice(["ZoomIn", "MoveNext", "ReadCurrent", "ZoomOut"])})
            tags.append(None)
    return {"ops": ops, "tags": tags, "exprs_ext": pool_ext}
