"""Session-level helpers shared by the history-quantified checks (C08, C10, C12, C14, C15, C20)."""
import glob
import hashlib
import os
import re

import common as C
import mml


def fp(*parts):
    h = hashlib.sha1()
    for p in parts:
        h.update(repr(p).encode("utf-8", "surrogatepass"))
        h.update(b"\x1f")
    return h.hexdigest()[:20]


_names = None


def pref_names():
    """Every preference name known from Rules/prefs.yaml (flattened with '_'), the user defaults and the API defaults."""
    global _names
    if _names is not None:
        return _names
    names = set()
    src = open(os.path.join(C.REPO, "src", "prefs.rs"), encoding="utf-8").read()
    names.update(re.findall(r'prefs\.insert\("(\w+)"\.to_string\(\)', src))
    # prefs.yaml: two-level nesting: Section: {Name: value | Name: {Sub: value}}
    stack = []
    for line in open(os.path.join(C.REPO, "Rules", "prefs.yaml"), encoding="utf-8"):
        if not line.strip() or line.lstrip().startswith("#"):
            continue
        m = re.match(r"^(\s*)([A-Za-z0-9_]+)\s*:\s*(.*)$", line.split(" #")[0].rstrip())
        if not m:
            continue
        indent, key, val = len(m.group(1)), m.group(2), m.group(3).strip()
        while stack and stack[-1][0] >= indent:
            stack.pop()
        if val == "" or val.startswith("#"):
            stack.append((indent, key))
        else:
            path = [k for _, k in stack[1:]] + [key]     # drop the section name (Speech/Navigation/Braille/Other)
            names.add("_".join(path))
    _names = sorted(names)
    return _names


def languages():
    """Language tags present under Rules/Languages (xx and xx-yy)."""
    root = os.path.join(C.REPO, "Rules", "Languages")
    out = []
    for d in sorted(os.listdir(root)):
        p = os.path.join(root, d)
        if not os.path.isdir(p) or len(d) != 2:
            continue
        if glob.glob(os.path.join(p, "*_Rules.yaml")) or glob.glob(os.path.join(p, "*.zip")):
            out.append(d)
        for r in sorted(os.listdir(p)):
            rp = os.path.join(p, r)
            if os.path.isdir(rp) and r not in ("SharedRules",) and (glob.glob(os.path.join(rp, "*.yaml"))):
                out.append(f"{d}-{r}")
    return out


def speech_styles(lang):
    d = os.path.join(C.REPO, "Rules", "Languages", *lang.split("-")[:1])
    return sorted(os.path.basename(f)[:-len("_Rules.yaml")] for f in glob.glob(os.path.join(d, "*_Rules.yaml")))


def braille_codes():
    root = os.path.join(C.REPO, "Rules", "Braille")
    return sorted(d for d in os.listdir(root) if os.path.isdir(os.path.join(root, d)))


def norm_out(v):
    """Outputs with the per-call random id prefix renamed (the properties say: ids stripped)."""
    if isinstance(v, str):
        return mml.rename_ids(v)
    if isinstance(v, list):
        return [norm_out(x) for x in v]
    return v


def static_inventory():
    """Re-derive the 'all session state is thread-local' premise: process-wide mutable statics in src/."""
    hits = []
    for fn in sorted(glob.glob(os.path.join(C.REPO, "src", "*.rs"))):
        src = open(fn, encoding="utf-8").read()
        for m in re.finditer(r"(?m)^\s*(?:pub\s+)?static\s+mut\s+\w+|(?:Mutex|RwLock|Atomic\w+|OnceCell|OnceLock)\s*<|static\s+\w+\s*:\s*(?:Mutex|RwLock|Atomic\w+)", src):
            line = src[:m.start()].count("\n") + 1
            text = src.splitlines()[line - 1].strip()
            if text.startswith("//") or "INIT: Once" in text:
                continue
            hits.append(f"{os.path.basename(fn)}:{line}: {text[:100]}")
    return hits


def definition_words():
    """{relative path of a definitions.yaml: {definition name: set of quoted strings}} (line-based harvest; the files are data)."""
    out = {}
    root = os.path.join(C.REPO, "Rules")
    for f in sorted(glob.glob(os.path.join(root, "**", "definitions.yaml"), recursive=True)):
        cur, defs = None, {}
        for line in open(f, encoding="utf-8"):
            m = re.match(r"^\s*-\s*([A-Za-z_]+)\s*:\s*([\[{])?", line)
            if m and m.group(1) != "include":
                cur = m.group(1)
                defs.setdefault(cur, set())
            if cur:
                for q in re.findall(r'"((?:[^"\\]|\\.)*)"\s*(?::|,|$|\]|\})', line.split(" #")[0]):
                    defs[cur].add(q)
        out[os.path.relpath(f, root)] = defs
    return out


def definition_sensitive_words():
    """words that some definitions.yaml lists and another one (same definition name, or no file at all) does not: where a table
    that outlives a language or code switch would show."""
    dw = definition_words()
    by_name = {}
    for f, defs in dw.items():
        for name, words in defs.items():
            if not name.startswith("Numbers"):
                by_name.setdefault(name, {})[f] = words
    out = set()
    for name, per_file in by_name.items():
        union = set().union(*per_file.values())
        inter = set.intersection(*per_file.values()) if len(per_file) > 1 else set()
        for w in union - inter:
            if 1 < len(w) <= 8 and re.fullmatch(r"[^\W\d_]+", w):
                out.add(w)
    return sorted(out)
