"""Walks over ALL subsystems of one session, validated against the umbrella specification (Session.tla / Trace_Session.tla).

One walk = one fresh thread on a private copy of Rules/: preferences (language, code, highlight style, CheckRuleFiles), expressions
(good and malformed), getters, navigation (moves, undo, place markers, explicit node), routing queries, and the environment
damaging / repairing the rule file of a selection in between.  After every call the complete projected state is recorded (hooks
nav_state, prefs_dump, cache_state; file versions are the modification times this driver sets), so TLC re-binds its state from the
log at every step: one mismatch never derails the rest of the trace.

Property-level reasons belong to several properties; each check that calls stage() is handed its own:
  C08  panic, getter-fails-although-every-rule-file-is-good
  C10  speech/braille-from-a-table-that-is-not-the-current-one
  C11  navigation-state-names-a-node-outside-the-expression
  C20  a-query-changed-a-preference
Refinement-level mismatches (the step is not a step of Session!Next) are MODEL-DRIFT."""
import json
import os
import random
import re

import common as C
import session as S

REASONS = {"C08": ("panic", "getter-fails-although-every-rule-file-is-good"),
           "C10": ("speech-from-a-table-that-is-not-the-current-one", "braille-from-a-table-that-is-not-the-current-one",
                   "answer-differs-for-the-same-expression-and-selection"),
           "C14": ("speech-from-a-table-that-is-not-the-current-one", "braille-from-a-table-that-is-not-the-current-one", "getter-fails-although-every-rule-file-is-good"),
           "C11": ("navigation-state-names-a-node-outside-the-expression",),
           "C20": ("a-query-changed-a-preference",)}
LANGS = ["en", "fi", "sv"]
CODES = ["Nemeth", "UEB"]
EXPRS = ["<math><mi>x</mi><mo>+</mo><mfrac><mn>1</mn><mi>y</mi></mfrac></math>", "<math><msup><mi>a</mi><mn>2</mn></msup><mo>=</mo><msqrt><mi>b</mi></msqrt></math>",
         "<math><mo>(</mo><mi>p</mi><mo>,</mo><mi>q</mi><mo>)</mo></math>", "<math><mi>z</mi></math>"]
BAD_EXPRS = ["<math><mi>x</mi>", "<notmath/>", "<math><mfrac><mi>a</mi></mfrac></math>"]
NAV = ["ZoomIn", "ZoomOut", "MoveNext", "MovePrevious", "MoveStart", "MoveEnd", "MoveLastLocation", "ReadCurrent", "DescribeCurrent", "WhereAmI",
       "SetPlacemarker0", "SetPlacemarker1", "MoveTo0", "MoveTo1", "ReadNext", "ZoomInAll", "ToggleZoomLockUp"]
OPNAME = {"set_rules_dir": "set_rules_dir", "set_pref": "set_preference", "set_mathml": "set_mathml", "speech": "get_spoken_text", "braille": "get_braille",
          "nav_cmd": "do_navigate_command", "set_nav_node": "set_navigation_node", "node_from_braille": "get_navigation_node_from_braille_position"}
BROKEN = "- name: [broken\n  tag: \"*\n"


def speech_path(l):
    return f"Languages/{l}/ClearSpeak_Rules.yaml"


def braille_path(c):
    return f"Braille/{c}/{c}_Rules.yaml"


def walk(rng, n_ops):
    """the operations of one session; observation triples (nav_state, prefs_dump, cache_state) follow every call."""
    ops = [{"op": "fs_clone_rules"}, {"op": "fs_mtime_all", "path": "$RULES", "secs": 1000}]
    plan = []          # (index of the call in ops, kind, detail)

    def call(o, kind, detail=None):
        ops.append(o)
        plan.append((len(ops) - 1, kind, detail))
        ops.extend([{"op": "nav_state"}, {"op": "prefs_dump"}, {"op": "cache_state"}])

    clock = [1000]
    call({"op": "set_rules_dir", "dir": "$RULES"}, "call")
    call({"op": "set_pref", "name": "SpeechStyle", "value": "ClearSpeak"}, "call")
    call({"op": "set_pref", "name": "CheckRuleFiles", "value": rng.choice(["All", "Prefs"])}, "call")
    damaged = set()
    have_expr = False
    for _ in range(n_ops):
        r = rng.random()
        if r < 0.10:
            call({"op": "set_pref", "name": "Language", "value": rng.choice(LANGS)}, "call")
        elif r < 0.17:
            call({"op": "set_pref", "name": "BrailleCode", "value": rng.choice(CODES)}, "call")
        elif r < 0.22:
            call({"op": "set_pref", "name": "BrailleNavHighlight", "value": rng.choice(["Off", "EndPoints", "All", "FirstChar"])}, "call")
        elif r < 0.25:
            call({"op": "set_pref", "name": "CheckRuleFiles", "value": rng.choice(["All", "Prefs"])}, "call")
        elif r < 0.28:
            call({"op": "set_rules_dir", "dir": "$RULES"}, "call")
        elif r < 0.40:
            bad = rng.random() < 0.2
            call({"op": "set_mathml", "mathml": rng.choice(BAD_EXPRS if bad else EXPRS)}, "call")
            have_expr = have_expr or not bad
        elif r < 0.52:
            call({"op": "speech"}, "call")
        elif r < 0.62:
            call({"op": "braille", "id": ""}, "call")
        elif r < 0.80:
            call({"op": "nav_cmd", "cmd": rng.choice(NAV)}, "call")
        elif r < 0.84:
            call({"op": "set_nav_node", "id": rng.choice(["${ID:1}", "${ID:2}", "${ID:3}", "${ID:0}", "no-such-id", "${OLDID:1}"]), "offset": rng.choice([0, 0, 1, 2])}, "call")
        elif r < 0.90:
            call({"op": "node_from_braille", "pos": rng.choice([0, 1, 2, 5, 40])}, "call")
        else:
            # the environment: damage or repair the rule file of some selection
            kind = rng.choice(["speech", "braille"])
            path = speech_path(rng.choice(LANGS)) if kind == "speech" else braille_path(rng.choice(CODES))
            clock[0] += 10
            if path in damaged:
                ops.append({"op": "fs_copy", "from": os.path.join(C.REPO, "Rules", path), "to": "$RULES/" + path})
                damaged.discard(path)
                good = True
            else:
                ops.append({"op": "fs_write", "path": "$RULES/" + path, "content": BROKEN})
                damaged.add(path)
                good = False
            ops.append({"op": "fs_mtime", "path": "$RULES/" + path, "secs": clock[0]})
            plan.append((len(ops) - 1, "env", (kind, path, clock[0], good)))
    return ops, plan


def tlc_walks(wd, tier):
    """M2: behaviours of Session.tla drawn by TLC (-simulate, MC_SessionSim) turned into driver scripts. The behaviour fixes the
    SCHEDULE (which entry point, which preference value, which expression or a rejected one, which rule file is damaged or repaired
    and when, undo / place marker steps, calls before set_rules_dir, calls with no expression); where a move lands is up to the
    navigation rules. The recording is projected and judged by Trace_Session like every other walk."""
    num, depth = (4, 40) if tier == "quick" else (40, 40)
    r = C.run_tlc("MC_SessionSim", "MC_Session_sim.cfg", wd, workers=1, coverage=False, simulate=num, depth=depth, seed_=C.seed(), timeout=600)
    behaviours, seen = [], set()
    for h in C.replay_lines(r):
        key = json.dumps(h[:-1], sort_keys=True)          # TLC evaluates the invariant on every successor of the last state: one per prefix
        if key not in seen:
            seen.add(key)
            behaviours.append(h)
    if len(behaviours) < num // 2:
        raise C.ToolError(f"MC_SessionSim exported only {len(behaviours)} behaviours ({r['error']})")
    scripts, actions = [], {}
    for bi, h in enumerate(behaviours):
        rng = random.Random(C.seed() * 31 + bi)
        ops = [{"op": "fs_clone_rules"}, {"op": "fs_mtime_all", "path": "$RULES", "secs": 1000}]
        plan = []

        def call(o):
            ops.append(o)
            plan.append((len(ops) - 1, "call", None))
            ops.extend([{"op": "nav_state"}, {"op": "prefs_dump"}, {"op": "cache_state"}])
        clock = 1000
        prev = None
        aligned = False
        for st in h:
            op = st["op"]
            actions[op] = actions.get(op, 0) + 1
            if op == "environment":
                for k in ("speech", "braille"):
                    for x, f in st["file"][k].items():
                        if prev is None or prev["file"][k][x] != f:
                            path = speech_path(x) if k == "speech" else braille_path(x)
                            clock += 10
                            if f["good"]:
                                ops.append({"op": "fs_copy", "from": os.path.join(C.REPO, "Rules", path), "to": "$RULES/" + path})
                            else:
                                ops.append({"op": "fs_write", "path": "$RULES/" + path, "content": BROKEN})
                            ops.append({"op": "fs_mtime", "path": "$RULES/" + path, "secs": clock})
                            plan.append((len(ops) - 1, "env", (k, path, clock, f["good"])))
            elif op == "set_rules_dir":
                call({"op": "set_rules_dir", "dir": "$RULES"})
                if not aligned:
                    # the model's initial preference values are arbitrary: make the session agree with them
                    aligned = True
                    call({"op": "set_pref", "name": "SpeechStyle", "value": "ClearSpeak"})
                    call({"op": "set_pref", "name": "Language", "value": st["lang"]})
                    call({"op": "set_pref", "name": "BrailleCode", "value": st["code"]})
                    call({"op": "set_pref", "name": "CheckRuleFiles", "value": "All" if st["checkAll"] else "Prefs"})
            elif op == "set_preference":
                if prev is not None and st["lang"] != prev["lang"]:
                    call({"op": "set_pref", "name": "Language", "value": st["lang"]})
                elif prev is not None and st["code"] != prev["code"]:
                    call({"op": "set_pref", "name": "BrailleCode", "value": st["code"]})
                elif prev is not None and st["highlight"] != prev["highlight"]:
                    call({"op": "set_pref", "name": "BrailleNavHighlight", "value": st["highlight"]})
                elif prev is not None and st["checkAll"] != prev["checkAll"]:
                    call({"op": "set_pref", "name": "CheckRuleFiles", "value": "All" if st["checkAll"] else "Prefs"})
                else:       # a value set to what it already is, or a call before set_rules_dir
                    call({"op": "set_pref", "name": rng.choice(["Language", "BrailleCode"]), "value": st["lang"]} if rng.random() < 0.5 else
                         {"op": "set_pref", "name": "BrailleNavHighlight", "value": st["highlight"]})
            elif op == "set_mathml":
                if st["newExpr"]:
                    call({"op": "set_mathml", "mathml": EXPRS[0 if st["expr"] == "e1" else 1] if rng.random() < 0.7 else rng.choice(EXPRS)})
                else:
                    good_file = st["file"]["speech"][st["lang"]]["good"]
                    call({"op": "set_mathml", "mathml": rng.choice(BAD_EXPRS) if good_file or rng.random() < 0.3 else rng.choice(EXPRS)})
            elif op == "get_spoken_text":
                call({"op": "speech"})
            elif op == "get_braille":
                call({"op": "braille", "id": ""})
            elif op == "do_navigate_command":
                if st["undo"]:
                    cmd = "MoveLastLocation"
                elif st["marked"]:
                    cmd = rng.choice(["SetPlacemarker0", "SetPlacemarker1"])
                elif st["toMarker"]:
                    cmd = rng.choice(["MoveTo0", "MoveTo1"])
                else:
                    cmd = rng.choice([c for c in NAV if not c.startswith(("SetPlacemarker", "MoveTo", "MoveLast"))])
                call({"op": "nav_cmd", "cmd": cmd})
            elif op == "set_navigation_node":
                call({"op": "set_nav_node", "id": rng.choice(["${ID:1}", "${ID:2}", "${ID:0}"]) if st["navNodeKnown"] else rng.choice(["no-such-id", "${OLDID:1}"]), "offset": 0})
            elif op == "get_navigation_node_from_braille_position":
                call({"op": "node_from_braille", "pos": rng.choice([0, 1, 2]) if st["res"] == "ok" else rng.choice([40, 40, 1])})
            prev = st
        scripts.append({"id": f"tlc{bi}", "ops": ops, "plan": plan})
    return scripts, actions


def project(ops, plan, results):
    """-> events for Trace_Session (or None when the recording is unusable)."""
    files = {"speech": {speech_path(l): {"ver": 1000, "good": True} for l in LANGS}, "braille": {braille_path(c): {"ver": 1000, "good": True} for c in CODES}}
    st = {"ready": False, "lang": speech_path("en"), "code": braille_path("Nemeth"), "highlight": "Off", "expr": "#none", "pos": "#nonode", "stack": [], "markers": [],
          "table": {"speech": {"for": "#none", "ver": 0}, "braille": {"for": "#none", "ver": 0}}, "file": files, "checkAll": False,
          "repointVer": {"speech": {p: 0 for p in files["speech"]}, "braille": {p: 0 for p in files["braille"]}}, "nodes": [], "root": "#nonode"}
    st0 = json.loads(json.dumps(st))
    events = []
    n_expr = 0
    cur_text = ""
    rules_dir = None
    for at, kind, detail in plan:
        st = json.loads(json.dumps(st))
        if kind == "env":
            k, path, ver, good = detail
            st["file"][k][path] = {"ver": ver, "good": good}
            events.append({"op": "environment", "res": "ok", "st": st, "at": at})
            continue
        o, r = ops[at], results[at]
        res = r["r"] if r["r"] in ("ok", "err", "panic") else "err"
        nav, prefs, cache = results[at + 1], results[at + 2], results[at + 3]
        if any(x["r"] != "ok" for x in (nav, prefs, cache)):
            return None
        nav, prefs, cache = nav["v"], prefs["v"], cache["v"]
        if o["op"] == "set_rules_dir" and res == "ok":
            st["ready"] = True
            st["repointVer"] = {k: {p: f["ver"] for p, f in st["file"][k].items()} for k in st["file"]}
        rules_dir = prefs.get("rules_dir") or rules_dir
        if st["ready"] and rules_dir:
            fl = prefs.get("files", {})
            if fl.get("speech"):
                st["lang"] = os.path.relpath(fl["speech"], rules_dir)
            if fl.get("braille"):
                st["code"] = os.path.relpath(fl["braille"], rules_dir)

            def pref(name):
                for m in ("api", "user"):
                    if name in prefs.get(m, {}):
                        return str(prefs[m][name][1]).strip('"')
                return None
            st["highlight"] = pref("BrailleNavHighlight") or st["highlight"]
            st["checkAll"] = pref("CheckRuleFiles") == "All"
            for k in ("speech", "braille"):
                rf = cache.get(k, {}).get("rule_files", [])
                st["table"][k] = {"for": os.path.relpath(rf[0][0], rules_dir), "ver": int(rf[0][1])} if rf else {"for": "#none", "ver": 0}
            if st["lang"] not in st["file"]["speech"] or st["code"] not in st["file"]["braille"]:
                return None
        if o["op"] == "set_mathml" and res == "ok":
            n_expr += 1
            ids = re.findall(r"\bid='([^']*)'", r["v"])
            st["expr"] = f"e{n_expr}"
            st["nodes"] = ids
            st["root"] = ids[0] if ids else "#nonode"
        if st["expr"] != "#none":
            p = [x[0] for x in nav.get("pos", [])]
            st["pos"] = p[-1] if p else st["root"]
            st["stack"] = p[:-1]
            st["markers"] = [m[0] for m in nav.get("markers", []) if m and m[0] and not m[0].startswith("!")]
        ev = {"op": OPNAME[o["op"]], "res": res, "st": st, "at": at}
        if o["op"] == "set_mathml" and res == "ok":
            cur_text = S.fp(o["mathml"])
        if o["op"] in ("speech", "braille") and res == "ok" and st["expr"] != "#none":
            ev["out"], ev["text"] = S.fp(S.norm_out(r["v"])), cur_text
        events.append(ev)
    if events:
        events[0]["st0"] = st0
    return events


def stage(pid, wd, tier, verdict):
    """run the walks, let TLC judge them, hand the rejections that belong to property pid to verdict; -> numbers for the evidence."""
    n_walks, n_ops = (10, 70) if tier == "quick" else (120, 160)
    scripts = []
    for wi in range(n_walks):
        ops, plan = walk(random.Random(C.seed() * 977 + wi), n_ops)
        scripts.append({"id": f"walk{wi}", "ops": ops, "plan": plan})
    tlc_scripts, tlc_actions = tlc_walks(wd, tier)
    scripts += tlc_scripts
    n_walks = len(scripts)
    results = C.run_mcv([{"id": s["id"], "ops": s["ops"]} for s in scripts], wd, name="sessionwalk", timeout_ms=120000)
    n_events, n_rej, n_drift, unusable = 0, 0, 0, 0
    drift_ops = {}
    for s, r in zip(scripts, results):
        ev = project(s["ops"], s["plan"], r["results"])
        if not ev:
            unusable += 1
            continue
        rej, drifts, _ = C.validate_trace("Trace_Session", "Trace_Session.cfg", [{k: v for k, v in e.items() if k != "at"} for e in ev], wd, name=f"session_{s['id']}", timeout=900, heap="4g")
        n_events += len(ev)
        n_drift += len(drifts)
        for idx, op in drifts:
            drift_ops[op] = drift_ops.get(op, 0) + 1
        for idx, reason in rej:
            n_rej += 1
            if reason not in REASONS.get(pid, ()):
                continue
            e = ev[idx - 1]
            upto = [o for o in s["ops"][:e["at"] + 1] if o["op"] not in ("nav_state", "prefs_dump", "cache_state")]
            calls = [o.get("cmd") or o.get("value") or o["op"] for o in upto[-8:]]
            verdict.reject(f"session-walk|{reason}|{s['id']}|{idx}", f"{reason} (session walk {s['id']}, call {idx}: {e['op']} -> {e['res']}); last calls {calls}; state after: "
                           f"lang={e['st']['lang']} code={e['st']['code']} highlight={e['st']['highlight']} pos={e['st']['pos']} table={json.dumps(e['st']['table'])}",
                           {"script": upto}, text=json.dumps({"reason": reason, "stage": "session-walk", "op": e["op"], "res": e["res"], "calls": calls}))
    if unusable == n_walks:
        raise C.ToolError("session walks: no usable recording")
    for op, n in sorted(drift_ops.items()):
        verdict.add_drift(f"session walk: {n} step(s) of {op} are not steps of Session!Next")
    return {"session_walks_scheduled_by_tlc": len(tlc_scripts), "session_spec_actions_scheduled": tlc_actions, "session_walks": n_walks - unusable, "session_walk_events": n_events, "session_walk_rejections_all_properties": n_rej, "session_walk_drift": n_drift}


def model_check(wd, tier):
    """Session.tla: the cross-subsystem properties on the model, and the three deviations of the pinned commit refuted."""
    m = C.tlc_model_check("MC_SessionQ", "MC_Session_quick.cfg" if tier == "quick" else "MC_Session_intended.cfg", wd, workers=12, timeout=2400, coverage=False)
    for dev, want in (("NewExprKeepsMarkers", "NavInExpr"), ("RouteLeaksOverrideOnErr", "QueriesKeepPreferences"), ("SameDirKeepsTables", "AnswerIsFresh")):
        r = C.run_tlc("MC_SessionQ", f"MC_Session_dev_{dev}.cfg", wd, workers=4, timeout=600, coverage=False)
        if r["violation"] != want:
            raise C.ToolError(f"Session.tla: deviation {dev} is not refuted by {want} ({r['violation']}, {r['error']})")
    return m


def selftest(wd):
    """the binding is real: a recorded walk is accepted; with one recorded field corrupted it is rejected at that step."""
    ops, plan = walk(random.Random(4242), 60)
    res = C.run_mcv([{"id": "selftest", "ops": ops}], wd, name="sw_self")[0]["results"]
    ev = project(ops, plan, res)
    if not ev:
        raise C.ToolError("session walk selftest: unusable recording")
    strip = lambda evs: [{k: v for k, v in e.items() if k != "at"} for e in evs]
    rej, drifts, _ = C.validate_trace("Trace_Session", "Trace_Session.cfg", strip(ev), wd, name="sw_self_ok")
    if rej:
        raise C.ToolError(f"session walk selftest: the unchanged recording is rejected: {rej[:3]}")
    # (1) a position that names a node of no expression
    i = next(j for j, e in enumerate(ev) if e["st"]["expr"] != "#none" and e["op"] != "environment")
    bad = json.loads(json.dumps(ev))
    bad[i]["st"]["pos"] = "M-of-another-expression-7"
    rej1, _, _ = C.validate_trace("Trace_Session", "Trace_Session.cfg", strip(bad), wd, name="sw_self_pos")
    # (2) a speech answer from a table loaded for another language
    j = next((j for j, e in enumerate(ev) if e["op"] == "get_spoken_text" and e["res"] == "ok" and e["st"]["expr"] != "#none" and j > 0 and ev[j - 1]["st"]["expr"] != "#none"), None)
    rej2 = [(0, "speech-from")]
    if j is not None:
        bad = json.loads(json.dumps(ev))
        other = [p_ for p_ in bad[j]["st"]["file"]["speech"] if p_ != bad[j]["st"]["lang"]][0]
        bad[j]["st"]["table"]["speech"]["for"] = other
        rej2, _, _ = C.validate_trace("Trace_Session", "Trace_Session.cfg", strip(bad), wd, name="sw_self_tab")
    # (3) a query that changes a preference
    k = next((j for j, e in enumerate(ev) if e["op"] in ("get_braille", "get_spoken_text", "do_navigate_command") and j > 0), None)
    bad = json.loads(json.dumps(ev))
    bad[k]["st"]["highlight"] = "All" if bad[k]["st"]["highlight"] != "All" else "Off"
    rej3, _, _ = C.validate_trace("Trace_Session", "Trace_Session.cfg", strip(bad), wd, name="sw_self_pref")
    # (4) an answer that differs from an earlier one for the same expression and selection
    seen, pair = {}, None
    for j4, e4 in enumerate(ev):
        if "out" in e4:
            k4 = (e4["op"], e4["text"], e4["st"]["lang"], e4["st"]["code"])
            if k4 in seen:
                pair = j4
                break
            seen[k4] = j4
    if pair is not None:
        bad = json.loads(json.dumps(ev))
        bad[pair]["out"] = "something-else"
        rej4, _, _ = C.validate_trace("Trace_Session", "Trace_Session.cfg", strip(bad), wd, name="sw_self_memo")
        if not any(idx == pair + 1 and "answer-differs" in r for idx, r in rej4):
            raise C.ToolError(f"session walk selftest: a changed answer is not rejected: {rej4[:3]}")
    ok = (any(idx == i + 1 and "outside-the-expression" in r for idx, r in rej1) and any("table-that-is-not" in r or r == "speech-from" for _, r in rej2)
          and any(idx == k + 1 and "query-changed" in r for idx, r in rej3))
    if not ok:
        raise C.ToolError(f"session walk selftest: corrupted recordings are not rejected where expected: {rej1[:2]} {rej2[:2]} {rej3[:2]}")
    C.log("[session walk] selftest ok (unchanged recording accepted; three corrupted fields rejected at their step)")
