"""Harvest of the Unicode tables and rule files shipped under Rules/ (constants of the C05/C07/C15 oracles)."""
import glob
import os
import re

import common as C

_cache = {}


def _unescape(k):
    def rep(m):
        g = m.group(0)
        if g[1] in "uU":
            return chr(int(g[2:], 16))
        if g[1] == "x":
            return chr(int(g[2:], 16))
        return {"\\n": "\n", "\\t": "\t", '\\"': '"', "\\\\": "\\", "\\'": "'", "\\0": "\0", "\\r": "\r"}.get(g, g[1])
    return re.sub(r"\\u[0-9a-fA-F]{4}|\\U[0-9a-fA-F]{8}|\\x[0-9a-fA-F]{2}|\\.", rep, k)


def keys_of(path):
    """Characters a unicode*.yaml file defines: single-character keys and the members of 'a-z' range keys."""
    if path in _cache:
        return _cache[path]
    out = set()
    try:
        text = open(path, encoding="utf-8").read()
    except OSError:
        _cache[path] = out
        return out
    for m in re.finditer(r'(?m)^\s*-\s*"((?:[^"\\]|\\.)*)"\s*:', text):
        k = _unescape(m.group(1))
        if len(k) == 1:
            out.add(ord(k))
        elif len(k) == 3 and k[1] == "-" and ord(k[0]) < ord(k[2]):
            out.update(range(ord(k[0]), ord(k[2]) + 1))
        else:
            pass  # multi-character keys define strings, not characters
    # keys written with single quotes or without quotes
    for m in re.finditer(r"(?m)^\s*-\s*'((?:[^'])*)'\s*:|^\s*-\s*([^\s\"'\[\]{}:#-][^\s:]*)\s*:", text):
        k = m.group(1) if m.group(1) is not None else m.group(2)
        if k and len(k) == 1:
            out.add(ord(k))
    _cache[path] = out
    return out


def braille_defined(code):
    d = os.path.join(C.REPO, "Rules", "Braille", code)
    return keys_of(os.path.join(d, "unicode.yaml")) | keys_of(os.path.join(d, "unicode-full.yaml"))


def speech_defined(lang):
    parts = lang.split("-")
    d = os.path.join(C.REPO, "Rules", "Languages", parts[0])
    s = keys_of(os.path.join(d, "unicode.yaml")) | keys_of(os.path.join(d, "unicode-full.yaml"))
    if len(parts) > 1:
        r = os.path.join(d, parts[1])
        s |= keys_of(os.path.join(r, "unicode.yaml")) | keys_of(os.path.join(r, "unicode-full.yaml"))
    return s


def eight_dot_cells(code):
    """8-dot cells (dots 7/8) that literally occur in the code's rule and Unicode files (e.g. Nemeth's table row separator)."""
    out = set()
    for f in glob.glob(os.path.join(C.REPO, "Rules", "Braille", code, "*.yaml")) + glob.glob(os.path.join(C.REPO, "Rules", "Braille", "*.yaml")):
        for ch in open(f, encoding="utf-8").read():
            if 0x2840 <= ord(ch) <= 0x28FF:
                out.add(ord(ch))
    return out
