#!/bin/sh
# Run MathCAT's own test suite (guard off) and compare the failing set with the pinned baseline's failing set (by test name).
# exit 0 when no test that passed at baseline fails now.
cd /repo || exit 2
CARGO_NET_OFFLINE=true cargo test --workspace --no-fail-fast --offline 2>&1 | grep -E "^test .* \.\.\. FAILED" | sed 's/^test //; s/ \.\.\. FAILED//' | sort -u > /tmp/fail_now.txt
awk '{print $NF}' /verif/seeded/baseline_fail.txt | sort -u > /tmp/base_names.txt
echo "failing now: $(wc -l < /tmp/fail_now.txt); baseline failing: $(wc -l < /tmp/base_names.txt)"
echo "newly passing:"; comm -13 /tmp/fail_now.txt /tmp/base_names.txt
NEW=$(comm -23 /tmp/fail_now.txt /tmp/base_names.txt)
if [ -n "$NEW" ]; then echo "NEWLY FAILING:"; echo "$NEW"; exit 1; fi
echo "suite ok"
