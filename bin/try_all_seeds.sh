#!/bin/bash
# Apply every seeded regression in turn, run the quick tier of the check of its property, record the outcome in
# seeded/results.txt (one line per seed).  /repo must be clean; it is left clean.
: > /verif/seeded/results.txt
for d in /verif/seeded/C*/; do
  id=$(basename $d); chk=${id%%-*}
  /verif/bin/try_seed.sh $id $chk quick 2>&1 | head -1 | tee -a /verif/seeded/results.txt
done
