#!/bin/bash
# try_seed.sh <seed-id> <check-id> [tier]: apply a seeded change to /repo, run one check, undo the change.
# patch_head.diff (the seed ported to the current HEAD of /repo) is preferred over patch.diff (made against the pinned commit).
ID=$1; CHK=$2; TIER=${3:-quick}
P=/verif/seeded/$ID/patch.diff; [ -f /verif/seeded/$ID/patch_head.diff ] && P=/verif/seeded/$ID/patch_head.diff
cd /repo || exit 2
git diff --quiet || { echo "/repo has uncommitted changes"; exit 2; }
git apply $P 2>/dev/null || patch -p1 --fuzz=3 -s < $P || { git checkout -- .; find . -name '*.rej' -o -name '*.orig' | xargs rm -f; echo "patch does not apply to current /repo"; exit 2; }
find . -name '*.orig' | xargs rm -f
cd /verif && bin/check $CHK --tier $TIER > work/try_${ID}_${CHK}.log 2>&1; rc=$?
git -C /repo checkout -- .
echo "$ID vs $CHK ($TIER): exit=$rc  $(grep -c '^VIOLATION' work/try_${ID}_${CHK}.log) violation lines, $(grep -c 'MODEL-DRIFT' work/try_${ID}_${CHK}.log) drift lines"
grep -A1 '^VIOLATION' work/try_${ID}_${CHK}.log | head -4 | cut -c1-400
exit 0
