//! mcv — the conformance harness that binds the TLA+ specifications to the real MathCAT library.
//!
//! `mcv run --rules DIR --in scripts.ndjson --out results.ndjson [--threads N] [--timeout-ms T] [--scratch DIR]`
//!
//! A *script* is one abstract behaviour made concrete: a list of public API calls (plus environment
//! actions on a private copy of the rules directory and read-only verification hooks).  Every script runs
//! in a fresh thread, i.e. in a fresh MathCAT session (all MathCAT state is thread-local).  Every call is
//! executed inside `catch_unwind`; a panic, an error and a time-out are *data*, recorded in the result
//! line, never a failure of the harness.  The harness does no judging: results go back to the driver,
//! which projects them into trace events that TLC validates against the specifications.
use serde_json::{json, Map, Value};
use std::io::{BufRead, BufWriter, Write};
use std::panic::{catch_unwind, AssertUnwindSafe};
use std::path::{Path, PathBuf};
use std::sync::atomic::{AtomicUsize, Ordering};
use std::sync::{mpsc, Arc, Mutex};
use std::time::{Duration, Instant};

use libmathcat::*;

struct Opts {
    rules: String,
    input: String,
    output: String,
    threads: usize,
    timeout_ms: u64,
    scratch: String,
    stack_mb: usize,
}

fn parse_args() -> Opts {
    let args: Vec<String> = std::env::args().collect();
    let mut o = Opts {
        rules: "/repo/Rules".into(),
        input: String::new(),
        output: String::new(),
        threads: 8,
        timeout_ms: 20_000,
        scratch: "/verif/work/scratch".into(),
        stack_mb: 8,
    };
    let mut i = 2;
    while i < args.len() {
        let v = args.get(i + 1).cloned().unwrap_or_default();
        match args[i].as_str() {
            "--rules" => o.rules = v,
            "--in" => o.input = v,
            "--out" => o.output = v,
            "--threads" => o.threads = v.parse().unwrap(),
            "--timeout-ms" => o.timeout_ms = v.parse().unwrap(),
            "--scratch" => o.scratch = v,
            "--stack-mb" => o.stack_mb = v.parse().unwrap(),
            x => {
                eprintln!("unknown argument {}", x);
                std::process::exit(2);
            }
        }
        i += 2;
    }
    o
}

fn main() {
    let args: Vec<String> = std::env::args().collect();
    if args.len() < 2 || args[1] != "run" {
        eprintln!("usage: mcv run --rules DIR --in scripts.ndjson --out results.ndjson [--threads N]");
        std::process::exit(2);
    }
    // panics of the code under test are data; keep stderr quiet
    // (MCV_PANIC_LOC=1: print where each panic was raised - for diagnosing a replay)
    if std::env::var("MCV_PANIC_LOC").is_ok() {
        std::panic::set_hook(Box::new(|info| {
            if let Some(l) = info.location() {
                eprintln!("PANIC-AT {}:{}", l.file(), l.line());
            }
            if std::env::var("MCV_PANIC_LOC").map(|v| v == "bt").unwrap_or(false) {
                eprintln!("{}", std::backtrace::Backtrace::force_capture());
            }
        }));
    } else {
        std::panic::set_hook(Box::new(|_| {}));
    }
    let opts = Arc::new(parse_args());
    let file = std::fs::File::open(&opts.input).expect("cannot open --in");
    let scripts: Vec<String> = std::io::BufReader::new(file)
        .lines()
        .map(|l| l.unwrap())
        .filter(|l| !l.trim().is_empty())
        .collect();
    let scripts = Arc::new(scripts);
    let out = Arc::new(Mutex::new(BufWriter::new(
        std::fs::File::create(&opts.output).expect("cannot create --out"),
    )));
    // a side file naming the scripts that were started, so the driver can tell which one killed the process
    let started = Arc::new(Mutex::new(
        std::fs::File::create(format!("{}.started", &opts.output)).expect("cannot create started file"),
    ));
    let next = Arc::new(AtomicUsize::new(0));
    let mut workers = Vec::new();
    for _w in 0..opts.threads.max(1) {
        let (scripts, out, next, opts, started) = (scripts.clone(), out.clone(), next.clone(), opts.clone(), started.clone());
        workers.push(std::thread::spawn(move || loop {
            let idx = next.fetch_add(1, Ordering::SeqCst);
            if idx >= scripts.len() {
                break;
            }
            let script: Value = match serde_json::from_str(&scripts[idx]) {
                Ok(v) => v,
                Err(e) => {
                    let mut o = out.lock().unwrap();
                    writeln!(o, "{}", json!({"idx": idx, "harness_error": format!("bad script json: {}", e)})).unwrap();
                    continue;
                }
            };
            {
                let mut s = started.lock().unwrap();
                writeln!(s, "{}", idx).unwrap();
                s.flush().unwrap();
            }
            let line = run_script(idx, &script, &opts);
            let mut o = out.lock().unwrap();
            writeln!(o, "{}", line).unwrap();
            o.flush().unwrap();
        }));
    }
    for w in workers {
        let _ = w.join();
    }
    out.lock().unwrap().flush().unwrap();
    // abandoned (hung) session threads must not keep the process alive
    std::process::exit(0);
}

/// Runs one script; if an op panics and the script asks for isolation, the rest of the script is continued
/// in a new session after re-running the ops marked `"setup": true`.
fn run_script(idx: usize, script: &Value, opts: &Arc<Opts>) -> Value {
    let ops: Vec<Value> = script["ops"].as_array().cloned().unwrap_or_default();
    let isolate = script["isolate_on_panic"].as_bool().unwrap_or(false);
    let mut results: Vec<Value> = vec![Value::Null; ops.len()];
    let mut start = 0usize;
    let mut restarts = 0;
    let t0 = Instant::now();
    while start < ops.len() {
        // ops to run in this session: the setup ops before `start` (results discarded) and everything from `start`
        let mut plan: Vec<(usize, bool)> = Vec::new(); // (op index, record?)
        if start > 0 {
            for (i, op) in ops.iter().enumerate().take(start) {
                if op["setup"].as_bool().unwrap_or(false) {
                    plan.push((i, false));
                }
            }
        }
        for i in start..ops.len() {
            plan.push((i, true));
        }
        let (tx, rx) = mpsc::channel::<(usize, Value)>();
        let ops_c = ops.clone();
        let opts_c = opts.clone();
        let plan_c = plan.clone();
        let session_tag = format!("{}_{}_{}", std::process::id(), idx, restarts);
        let handle = std::thread::Builder::new()
            .stack_size(opts.stack_mb * 1024 * 1024)
            .spawn(move || {
                let mut sess = Session::new(&opts_c, &session_tag);
                for (i, record) in plan_c {
                    let r = sess.exec(&ops_c[i]);
                    let stop = isolate && r["r"] == "panic";
                    if record {
                        if tx.send((i, r)).is_err() {
                            break;
                        }
                        if stop {
                            break;
                        }
                    }
                }
                sess.cleanup();
            })
            .unwrap();
        let mut next_start = ops.len();
        let mut hung = false;
        let n_expected = ops.len() - start;
        let mut got = 0;
        while got < n_expected {
            match rx.recv_timeout(Duration::from_millis(opts.timeout_ms)) {
                Ok((i, r)) => {
                    got += 1;
                    let panicked = r["r"] == "panic";
                    results[i] = r;
                    if isolate && panicked {
                        next_start = i + 1;
                        break;
                    }
                }
                Err(mpsc::RecvTimeoutError::Timeout) => {
                    // the op after the last recorded one is hanging
                    let i = (start..ops.len()).find(|&i| results[i].is_null()).unwrap();
                    results[i] = json!({"r": "hang", "v": format!("no result within {} ms", opts.timeout_ms), "ms": opts.timeout_ms});
                    next_start = i + 1;
                    hung = true;
                    break;
                }
                Err(mpsc::RecvTimeoutError::Disconnected) => {
                    // thread ended without delivering everything (should not happen: panics are caught)
                    if let Some(i) = (start..ops.len()).find(|&i| results[i].is_null()) {
                        results[i] = json!({"r": "panic", "v": "session thread died outside catch_unwind", "ms": 0});
                        next_start = i + 1;
                    }
                    break;
                }
            }
        }
        if !hung {
            let _ = handle.join();
        }
        if next_start >= ops.len() || (!isolate && !hung) {
            break;
        }
        if hung && !isolate {
            break;
        }
        start = next_start;
        restarts += 1;
    }
    for r in results.iter_mut() {
        if r.is_null() {
            *r = json!({"r": "skipped"});
        }
    }
    json!({"idx": idx, "id": script["id"], "results": results, "restarts": restarts, "ms": t0.elapsed().as_millis() as u64})
}

struct Session {
    rules: String,         // value substituted for $RULES
    scratch_root: PathBuf, // where private copies live
    tag: String,
    private_dirs: Vec<PathBuf>,
    vars: Map<String, Value>,
    names: Vec<String>,    // preference names used by prefs_hash / prefs_all (set by def_names)
    ids: Vec<String>,      // ids of the MathML returned by the last successful set_mathml, in document order
    old_ids: Vec<String>,  // ids of the one before
    last_routed: String,   // the id answered by the last successful get_navigation_node_from_braille_position (${ROUTED})
    last_body: String,     // the children of <math> in the MathML the last successful set_mathml returned (${LASTBODY})
}

fn copy_dir(from: &Path, to: &Path) -> std::io::Result<()> {
    std::fs::create_dir_all(to)?;
    for entry in std::fs::read_dir(from)? {
        let entry = entry?;
        let ft = entry.file_type()?;
        let dest = to.join(entry.file_name());
        if ft.is_dir() {
            copy_dir(&entry.path(), &dest)?;
        } else {
            std::fs::copy(entry.path(), &dest)?;
        }
    }
    Ok(())
}

fn res_ok(v: Value) -> (String, Value) {
    ("ok".into(), v)
}

fn res_of<T, F: FnOnce(T) -> Value>(r: std::result::Result<T, errors::Error>, f: F) -> (String, Value) {
    match r {
        Ok(v) => ("ok".into(), f(v)),
        Err(e) => ("err".into(), Value::String(errors_to_string(&e))),
    }
}

impl Session {
    fn new(opts: &Opts, tag: &str) -> Session {
        Session {
            rules: opts.rules.clone(),
            scratch_root: PathBuf::from(&opts.scratch),
            tag: tag.to_string(),
            private_dirs: Vec::new(),
            vars: Map::new(),
            names: Vec::new(),
            ids: Vec::new(),
            old_ids: Vec::new(),
            last_routed: String::new(),
            last_body: String::new(),
        }
    }

    fn cleanup(&mut self) {
        for d in self.private_dirs.drain(..) {
            let _ = std::fs::remove_dir_all(d);
        }
    }

    fn subst(&self, s: &str) -> String {
        let mut out = s.replace("$RULES", &self.rules);
        if out.contains("${LASTBODY}") {
            out = out.replace("${LASTBODY}", &self.last_body);
        }
        if out.contains("${ROUTED}") {
            out = out.replace("${ROUTED}", if self.last_routed.is_empty() { "no-routed-id" } else { &self.last_routed });
        }
        // ${ID:n} / ${OLDID:n}: the n-th id (modulo the number of ids) of the current / previous expression
        for (pat, list) in [("${ID:", &self.ids), ("${OLDID:", &self.old_ids)] {
            while let Some(i) = out.find(pat) {
                let rest = &out[i + pat.len()..];
                let j = rest.find('}').unwrap_or(rest.len());
                let n: usize = rest[..j].parse().unwrap_or(0);
                let rep = if list.is_empty() { "no-such-id".to_string() } else { list[n % list.len()].clone() };
                out = format!("{}{}{}", &out[..i], rep, &rest[(j + 1).min(rest.len())..]);
            }
        }
        for (k, v) in &self.vars {
            if let Some(vs) = v.as_str() {
                out = out.replace(&format!("${{{}}}", k), vs);
            }
        }
        out
    }

    fn s(&self, op: &Value, key: &str) -> String {
        self.subst(op[key].as_str().unwrap_or(""))
    }

    fn exec(&mut self, op: &Value) -> Value {
        let t0 = Instant::now();
        let name = op["op"].as_str().unwrap_or("").to_string();
        let r = catch_unwind(AssertUnwindSafe(|| self.exec_inner(&name, op)));
        let ms = t0.elapsed().as_millis() as u64;
        match r {
            Ok((class, v)) => json!({"r": class, "v": v, "ms": ms}),
            Err(p) => {
                let msg = if let Some(s) = p.downcast_ref::<String>() {
                    s.clone()
                } else if let Some(s) = p.downcast_ref::<&str>() {
                    s.to_string()
                } else {
                    "panic".to_string()
                };
                json!({"r": "panic", "v": msg, "ms": ms})
            }
        }
    }

    fn exec_inner(&mut self, name: &str, op: &Value) -> (String, Value) {
        match name {
            // ---------------- public API ----------------
            "set_rules_dir" => res_of(set_rules_dir(self.s(op, "dir")), |_| Value::Null),
            "get_version" => res_ok(Value::String(get_version())),
            "set_pref" => res_of(set_preference(self.s(op, "name"), self.s(op, "value")), |_| Value::Null),
            "get_pref" => res_of(get_preference(self.s(op, "name")), Value::String),
            "get_prefs" => {
                // read back a list of preferences through the public getter: name -> value | null
                let mut m = Map::new();
                for n in op["names"].as_array().cloned().unwrap_or_default() {
                    let n = n.as_str().unwrap_or("").to_string();
                    let v = match get_preference(n.clone()) {
                        Ok(v) => Value::String(v),
                        Err(_) => Value::Null,
                    };
                    m.insert(n, v);
                }
                res_ok(Value::Object(m))
            }
            "def_names" => {
                self.names = op["names"].as_array().cloned().unwrap_or_default().iter()
                    .map(|n| n.as_str().unwrap_or("").to_string()).collect();
                res_ok(Value::Null)
            }
            // the complete preference assignment as read back through the public getter, as a short fingerprint
            "prefs_hash" => {
                use std::hash::{Hash, Hasher};
                let mut h = std::collections::hash_map::DefaultHasher::new();
                for n in &self.names {
                    n.hash(&mut h);
                    match get_preference(n.clone()) {
                        Ok(v) => v.hash(&mut h),
                        Err(_) => "\u{0}none".hash(&mut h),
                    }
                }
                res_ok(Value::String(format!("{:016x}", h.finish())))
            }
            // ... and in full: name -> value | null
            "prefs_all" => {
                let mut m = Map::new();
                for n in &self.names {
                    let v = match get_preference(n.clone()) {
                        Ok(v) => Value::String(v),
                        Err(_) => Value::Null,
                    };
                    m.insert(n.clone(), v);
                }
                res_ok(Value::Object(m))
            }
            "set_mathml" => {
                let r = set_mathml(self.s(op, "mathml"));
                if let Ok(out) = &r {
                    let mut ids = Vec::new();
                    let mut rest = out.as_str();
                    while let Some(i) = rest.find(" id='") {
                        let tail = &rest[i + 5..];
                        let j = tail.find('\'').unwrap_or(tail.len());
                        ids.push(tail[..j].to_string());
                        rest = &tail[j..];
                    }
                    self.old_ids = std::mem::replace(&mut self.ids, ids);
                    // what an application that edits the expression would send back: the returned elements, ids and all
                    self.last_body = match (out.find("<math").and_then(|i| out[i..].find('>').map(|j| i + j + 1)), out.rfind("</math>")) {
                        (Some(a), Some(b)) if a <= b => out[a..b].to_string(),
                        _ => String::new(),
                    };
                }
                res_of(r, Value::String)
            }
            "speech" => res_of(get_spoken_text(), Value::String),
            "overview" => res_of(get_overview_text(), Value::String),
            "braille" => res_of(get_braille(self.s(op, "id")), Value::String),
            "nav_braille" => res_of(get_navigation_braille(), Value::String),
            "nav_cmd" => res_of(do_navigate_command(self.s(op, "cmd")), Value::String),
            "nav_key" => res_of(
                do_navigate_keypress(
                    op["key"].as_u64().unwrap_or(0) as usize,
                    op["shift"].as_bool().unwrap_or(false),
                    op["ctrl"].as_bool().unwrap_or(false),
                    op["alt"].as_bool().unwrap_or(false),
                    op["meta"].as_bool().unwrap_or(false),
                ),
                Value::String,
            ),
            "set_nav_node" => res_of(
                set_navigation_node(self.s(op, "id"), op["offset"].as_u64().unwrap_or(0) as usize),
                |_| Value::Null,
            ),
            "nav_mathml" => res_of(get_navigation_mathml(), |(s, o)| json!([s, o])),
            "nav_id" => res_of(get_navigation_mathml_id(), |(s, o)| json!([s, o])),
            "braille_pos" => res_of(get_braille_position(), |(s, e)| json!([s, e])),
            "node_from_braille" => {
                let r = get_navigation_node_from_braille_position(op["pos"].as_u64().unwrap_or(0) as usize);
                if let Ok((id, _)) = &r {
                    self.last_routed = id.clone();
                }
                res_of(r, |(s, o)| json!([s, o]))
            }
            // test-support entry used by the repository's own tests to pin "user" preferences
            "set_user_pref" => {
                let (n, v) = (self.s(op, "name"), self.s(op, "value"));
                let r = libmathcat::speech::SPEECH_RULES.with(|rules| {
                    let rules = rules.borrow_mut();
                    let mut prefs = rules.pref_manager.borrow_mut();
                    prefs.set_user_prefs(&n, &v)
                });
                res_of(r, |_| Value::Null)
            }
            // ---------------- verification hooks (read-only) ----------------
            "nav_state" => res_ok(serde_json::from_str(&libmathcat::verif::nav_state()).unwrap_or(Value::Null)),
            "prefs_dump" => res_ok(serde_json::from_str(&libmathcat::verif::prefs_dump()).unwrap_or(Value::Null)),
            "cache_state" => res_ok(serde_json::from_str(&libmathcat::verif::cache_state()).unwrap_or(Value::Null)),
            "events_on" => {
                libmathcat::verif::enable_events(true);
                res_ok(Value::Null)
            }
            "events_off" => {
                libmathcat::verif::enable_events(false);
                res_ok(Value::Null)
            }
            "rules_hit" => {
                let hit: Vec<Value> = libmathcat::verif::drain_rules_hit().into_iter().map(Value::String).collect();
                res_ok(Value::Array(hit))
            }
            "drain" => {
                let evs: Vec<Value> = libmathcat::verif::drain_events()
                    .iter()
                    .map(|s| serde_json::from_str(s).unwrap_or(Value::String(s.clone())))
                    .collect();
                res_ok(Value::Array(evs))
            }
            // ---------------- environment actions (file system) ----------------
            "fs_clone_rules" => {
                // private copy of the rules directory; afterwards $RULES names the copy
                let n = self.private_dirs.len();
                let dest = self.scratch_root.join(format!("rules_{}_{}", self.tag, n));
                let _ = std::fs::remove_dir_all(&dest);
                match copy_dir(Path::new(&self.rules), &dest) {
                    Ok(()) => {
                        let var = op["var"].as_str().unwrap_or("");
                        let dest_s = dest.to_string_lossy().to_string();
                        if var.is_empty() {
                            self.rules = dest_s.clone();
                        } else {
                            self.vars.insert(var.to_string(), Value::String(dest_s.clone()));
                        }
                        self.private_dirs.push(dest);
                        res_ok(Value::String(dest_s))
                    }
                    Err(e) => ("harness_error".into(), Value::String(e.to_string())),
                }
            }
            "fs_write" => io_res(std::fs::write(self.s(op, "path"), self.s(op, "content"))),
            "fs_append" => {
                let p = self.s(op, "path");
                let r = std::fs::read_to_string(&p).and_then(|old| std::fs::write(&p, old + &self.s(op, "content")));
                io_res(r)
            }
            "fs_read" => match std::fs::read_to_string(self.s(op, "path")) {
                Ok(s) => res_ok(Value::String(s)),
                Err(e) => ("harness_error".into(), Value::String(e.to_string())),
            },
            "fs_delete" => io_res(std::fs::remove_file(self.s(op, "path"))),
            "fs_rename" => io_res(std::fs::rename(self.s(op, "from"), self.s(op, "to"))),
            "fs_copy" => io_res(std::fs::copy(self.s(op, "from"), self.s(op, "to")).map(|_| ())),
            "fs_mtime" => {
                // set the modification time explicitly (seconds since the epoch): no wall clock in any guard
                let p = self.s(op, "path");
                let secs = op["secs"].as_u64().unwrap_or(0);
                let r = std::fs::File::options().write(true).open(&p).and_then(|f| {
                    f.set_modified(std::time::UNIX_EPOCH + Duration::from_secs(secs))
                });
                io_res(r)
            }
            "fs_mtime_all" => {
                let secs = op["secs"].as_u64().unwrap_or(0);
                let root = self.s(op, "path");
                let mut stack = vec![PathBuf::from(root)];
                let mut n = 0;
                while let Some(d) = stack.pop() {
                    if let Ok(rd) = std::fs::read_dir(&d) {
                        for e in rd.flatten() {
                            let p = e.path();
                            if p.is_dir() {
                                stack.push(p);
                            } else if let Ok(f) = std::fs::File::options().write(true).open(&p) {
                                let _ = f.set_modified(std::time::UNIX_EPOCH + Duration::from_secs(secs));
                                n += 1;
                            }
                        }
                    }
                }
                res_ok(json!(n))
            }
            "sleep_ms" => {
                std::thread::sleep(Duration::from_millis(op["ms"].as_u64().unwrap_or(0)));
                res_ok(Value::Null)
            }
            "yield" => {
                std::thread::yield_now();
                res_ok(Value::Null)
            }
            _ => ("harness_error".into(), Value::String(format!("unknown op '{}'", name))),
        }
    }
}

fn io_res(r: std::io::Result<()>) -> (String, Value) {
    match r {
        Ok(()) => res_ok(Value::Null),
        Err(e) => ("harness_error".into(), Value::String(e.to_string())),
    }
}
