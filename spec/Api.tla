--------------------------------- MODULE Api ---------------------------------
(***************************************************************************)
(* The public interface of a MathCAT session as a state machine (C08).     *)
(* Every entry point is enabled in every state with every argument class   *)
(* (that is what "for every argument and after every sequence of earlier   *)
(* calls" means); the contract is that each call answers Ok or Err - the   *)
(* session stays alive - and that after an Err the session is still        *)
(* usable.  The model also predicts WHICH calls answer Err from the        *)
(* abstract state (no rules directory, no expression, bad argument); that  *)
(* prediction is refinement level only (MODEL-DRIFT), the contract itself  *)
(* is the property.                                                        *)
(***************************************************************************)
EXTENDS Naturals, Sequences, FiniteSets, TLC, Json

\* entry points with their argument classes
MathMLClasses == {"valid", "valid2", "arity", "notmathml", "notxml", "empty", "entity", "oddmulti", "badintent", "mixed", "huge", "deep",
                  "emptybase", "nomath"}
PrefClasses == {"knownStr:valid", "knownStr:bool", "knownBool:bool", "knownBool:other", "knownNum:num", "knownNum:other", "unknown:any",
                "lang:good", "lang:bad", "knownStr:empty"}
NavClasses == {"move", "zoom", "read", "describe", "where", "toggle", "setmark", "moveto", "undo", "exit", "unknown"}
KeyClasses == {"arrow", "arrow+mod", "digit", "digit+mod", "enter", "other", "huge"}
IdClasses == {"root", "leaf", "inner", "unknown", "stale", "empty"}
PosClasses == {"zero", "inside", "end", "beyond", "huge"}
Calls ==
  {<<"set_rules_dir", c>> : c \in {"good", "missing", "empty", "file"}} \cup
  {<<"set_mathml", c>> : c \in MathMLClasses} \cup
  {<<"set_preference", c>> : c \in PrefClasses} \cup
  {<<"get_preference", c>> : c \in {"known", "unknown"}} \cup
  {<<g, "-">> : g \in {"get_spoken_text", "get_overview_text", "get_navigation_braille", "get_navigation_mathml",
                       "get_navigation_mathml_id", "get_braille_position", "get_version"}} \cup
  {<<"get_braille", c>> : c \in IdClasses} \cup
  {<<"do_navigate_command", c>> : c \in NavClasses} \cup
  {<<"do_navigate_keypress", c>> : c \in KeyClasses} \cup
  {<<"set_navigation_node", c>> : c \in IdClasses \X {"off0", "off1", "offhuge"}} \cup
  {<<"get_navigation_node_from_braille_position", c>> : c \in PosClasses}

VARIABLES rules,      \* a rules directory has been accepted
          expr,       \* an expression has been set successfully
          alive,      \* the host process has not crashed
          last        \* [call, res]
vars == <<rules, expr, alive, last>>
Init == rules = FALSE /\ expr = FALSE /\ alive = TRUE /\ last = [call |-> <<"init", "-">>, res |-> "ok"]

NeedsExpr(c) == c[1] \in {"do_navigate_command", "do_navigate_keypress", "set_navigation_node", "get_navigation_mathml_id",
                          "get_braille_position", "get_navigation_node_from_braille_position"}
\* refinement-level prediction of the result from the abstract state ("either" = not predicted)
Predicted(c) ==
  IF c[1] = "get_version" THEN "ok"
  ELSE IF c[1] = "set_rules_dir" THEN (IF c[2] = "good" THEN "ok" ELSE "err")
  ELSE IF c[1] \in {"get_preference", "set_preference", "get_navigation_mathml"} THEN "either"
  ELSE IF ~rules THEN "err"
  ELSE IF NeedsExpr(c) /\ ~expr THEN "err"
  ELSE IF c[1] = "set_mathml" THEN (IF c[2] \in {"valid", "valid2", "huge", "deep", "emptybase", "badintent", "nomath"} THEN "ok"
                                    ELSE IF c[2] \in {"arity", "notxml", "oddmulti"} THEN "err" ELSE "either")
  ELSE "either"

Call(c) ==
  /\ alive
  /\ \E r \in {"ok", "err"} :                   \* the contract: an answer, never a crash
       /\ (Predicted(c) # "either" => r = Predicted(c))
       /\ last' = [call |-> c, res |-> r]
       /\ rules' = (rules \/ (c[1] = "set_rules_dir" /\ r = "ok"))
       /\ expr' = (expr \/ (c[1] = "set_mathml" /\ r = "ok"))
       /\ alive' = TRUE
Next == \E c \in Calls : Call(c)
Spec == Init /\ [][Next]_vars

Alive == alive
Answered == last.res \in {"ok", "err"}
\* after an error the session is still usable: a valid expression can be set next
Recoverable == [](rules /\ last.res = "err" => ENABLED Call(<<"set_mathml", "valid">>))

\* behaviour export (M2): every sequence of <= MaxLen calls from the four abstract start states is an implementation test
CONSTANT MaxLen
VARIABLE hist
HInit == Init /\ hist = <<>>
HNext == Len(hist) < MaxLen /\ \E c \in Calls : Call(c) /\ hist' = Append(hist, c)
HSpec == HInit /\ [][HNext]_<<vars, hist>>
Export == Len(hist) = MaxLen => PrintT(<<"REPLAY", ToJson(hist)>>)
=============================================================================
