-------------------------------- MODULE Braille --------------------------------
(***************************************************************************)
(* The indicator replacement step of the per-code braille clean-up         *)
(* (braille.rs: REPLACE_INDICATORS regex class and the                     *)
(* <CODE>_INDICATOR_REPLACEMENTS table of nemeth_cleanup, ueb_cleanup,     *)
(* vietnam_cleanup, cmu_cleanup, ...).                                     *)
(* The rule and Unicode files of a cell code emit braille cells mixed with *)
(* ASCII/letter-like INDICATOR characters ("N⠴", "CL⠁"); the clean-up      *)
(* rewrites them and finally replaces every remaining indicator by cells.  *)
(* C07 at design level: every indicator character the files of a code can  *)
(* emit is matched by the class and has a replacement made of cells only   *)
(* (or nothing) - so none can reach the caller.                            *)
(* The constants are harvested from the source and the rule files by the   *)
(* driver (generated module BrailleTables).                                *)
(***************************************************************************)
EXTENDS Naturals, FiniteSets, TLC, BrailleTables
\* BrailleTables defines: Codes, Class(code), TableKeys(code), NonCellKeys(code), Special(code), Emitted(code)
VARIABLES code, ch
Init == code \in Codes /\ ch \in Emitted(code)
Next == UNCHANGED <<code, ch>>
Spec == Init /\ [][Next]_<<code, ch>>
\* every emitted indicator is matched by the regex class ...
Matched == ch \in Class(code)
\* ... has an entry (or is one of the indicators taken from the preferences) ...
HasReplacement == ch \in TableKeys(code) \cup Special(code)
\* ... and that entry consists of braille cells only
ReplacedByCells == ch \notin NonCellKeys(code) \/ ch \in Special(code)
\* refinement level (reported, not required): the class matches nothing but the table's keys
ClassIsTableDomain == \A c \in Codes : Class(c) = TableKeys(c) \cup Special(c)
=============================================================================
