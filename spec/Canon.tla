-------------------------------- MODULE Canon --------------------------------
(***************************************************************************)
(* MathML trees and the oracles of C01, C02 and C09.                       *)
(*                                                                         *)
(* A tree is a nested record                                               *)
(*   [tag, kids, cp, intent, open, close, seps, alt, presEnc, id, idAdded] *)
(* where cp is the character data of a leaf as a sequence of code points   *)
(* (TLC strings are opaque), open/close/seps are the mfenced attributes    *)
(* (<<-1>> = attribute absent) and presEnc = 1 marks an annotation-xml     *)
(* whose encoding is MathML-Presentation.                                  *)
(*                                                                         *)
(*  Visible(t)        what a reader sees: the characters of all token      *)
(*                    leaves in reading order, after the documented        *)
(*                    normalisations (C01: Visible(out) = Visible(in))     *)
(*  WellFormedCanon   the shape canonicalization promises (C02)            *)
(*  Ids predicates    every element has an id, ids are distinct, author    *)
(*                    ids are kept (C09)                                   *)
(***************************************************************************)
EXTENDS Naturals, Integers, Sequences, FiniteSets, TLC

IsLeaf(t) == t.kids = <<>>
Last(s) == s[Len(s)]

RECURSIVE Flat(_)                       \* concatenation of a sequence of sequences
Flat(ss) == IF ss = <<>> THEN <<>> ELSE Head(ss) \o Flat(Tail(ss))

---------------------------------------------------------------------------
\* Character normalisation (the "documented character normalizations" of C01)
InvisibleOps == {8289, 8290, 8291, 8292}                     \* U+2061..U+2064
WhiteSpace == {9, 10, 13, 32, 160, 8239, 8287, 12288, 8203} \cup (8192..8202)

\* inverse of the mathvariant map: a math-alphanumeric character as its base letter
LatinAt(i) == IF i < 26 THEN 65 + i ELSE 97 + (i - 26)
GreekAt(i) == CASE i = 17 -> 1012 [] i < 25 -> 913 + i [] i = 25 -> 8711 [] i < 51 -> 945 + (i - 26)
                [] i = 51 -> 8706 [] i = 52 -> 1013 [] i = 53 -> 977 [] i = 54 -> 1008 [] i = 55 -> 981
                [] i = 56 -> 1009 [] OTHER -> 982
LetterLike(c) ==      \* the letter-like symbols that fill the holes of the math blocks
  CASE c = 8462 -> 104 [] c = 8492 -> 66 [] c = 8496 -> 69 [] c = 8497 -> 70 [] c = 8459 -> 72 [] c = 8464 -> 73
    [] c = 8466 -> 76 [] c = 8499 -> 77 [] c = 8475 -> 82 [] c = 8495 -> 101 [] c = 8458 -> 103 [] c = 8500 -> 111
    [] c = 8493 -> 67 [] c = 8460 -> 72 [] c = 8465 -> 73 [] c = 8476 -> 82 [] c = 8488 -> 90
    [] c = 8450 -> 67 [] c = 8461 -> 72 [] c = 8469 -> 78 [] c = 8473 -> 80 [] c = 8474 -> 81 [] c = 8477 -> 82
    [] c = 8484 -> 90 [] OTHER -> c
Unstyle(c) ==
  IF c >= 119808 /\ c <= 120483 THEN LatinAt((c - 119808) % 52)
  ELSE IF c >= 120488 /\ c <= 120777 THEN GreekAt((c - 120488) % 58)
  ELSE IF c = 120778 THEN 988 ELSE IF c = 120779 THEN 989
  ELSE IF c >= 120782 /\ c <= 120831 THEN 48 + ((c - 120782) % 10)
  ELSE LetterLike(c)

\* ctx: "plain" | "accent" (non-base child of mover/munder/munderover) | "sup" (non-base child of msup/msubsup)
CtxChar(c, ctx) ==
  IF ctx = "accent" THEN
       (CASE c \in {95, 713, 772, 773, 818, 8722, 8254, 175} \cup (8208..8213) -> 175      \* macron family -> U+00AF
          [] c \in {186, 8338, 8408, 8728, 176} -> 176
          [] c = 700 -> 96
          [] c \in {732, 8764, 126} -> 126
          [] c \in {710, 770, 94} -> 94
          [] c = 775 -> 729
          [] c = 776 -> 168
          [] OTHER -> c)
  ELSE IF ctx = "loose" THEN        \* every family merged, whatever the position (used where a token is looked at out of context)
       (CASE c \in {95, 45, 713, 772, 773, 818, 8722, 8254, 175} \cup (8208..8213) -> 175
          [] c = 700 -> 96
          [] c \in {732, 8764, 126} -> 126
          [] c \in {710, 770, 94} -> 94
          [] c = 775 -> 729
          [] c = 776 -> 168
          [] c \in {186, 8338, 8408, 8728, 176} -> 176
          [] c = 449 -> 8214
          [] OTHER -> c)
  \* circle-like -> degree: applied by the code to the scripts of msup/msubsup; whether an element still is an msup when that
  \* happens depends on the empty-base repairs, so a lone ring/degree token is the same character in every position
  ELSE (CASE c \in {713, 772, 773, 175} -> 175
          [] c \in {732, 126, 8764} -> 8764
          [] c = 449 -> 8214
          [] c \in {186, 8338, 8408, 8728, 176} -> 176
          [] OTHER -> c)

NormChar(c0, ctx) ==
  LET c == Unstyle(CtxChar(c0, ctx)) IN
  CASE c \in InvisibleOps \cup WhiteSpace -> <<>>
    [] c = 8722 -> <<45>>                               \* minus sign -> hyphen-minus
    [] c = 39 -> <<8242>>                               \* apostrophe -> prime
    [] c = 8243 -> <<8242, 8242>> [] c = 8244 -> <<8242, 8242, 8242>> [] c = 8279 -> <<8242, 8242, 8242, 8242>>
    [] c = 8230 -> <<46, 46, 46>>                       \* ellipsis = three dots
    [] c = 8214 -> <<124, 124>>                         \* double vertical line = two bars
    [] c = 8212 -> <<45, 45>> [] c = 8213 -> <<45, 45, 45>>   \* dashes
    [] c = 8759 -> <<58, 58>> [] c = 8758 -> <<58>>     \* proportion, ratio
    [] OTHER -> <<c>>

RECURSIVE NormSeq(_, _)
NormSeq(s, ctx) == IF s = <<>> THEN <<>> ELSE NormChar(Head(s), ctx) \o NormSeq(Tail(s), ctx)
\* "----" is canonicalized to the same horizontal bar as "---"
LeafText(t) == IF t.cp = <<45, 45, 45, 45>> THEN <<45, 45, 45>> ELSE t.cp

---------------------------------------------------------------------------
\* Visible
NotRendered == {"mphantom", "annotation", "annotation-xml", "mspace", "malignmark", "maligngroup", "none", "mprescripts"}
Wrappers == {"mrow", "mstyle", "mpadded", "semantics"}
AttrOr(a, dflt) == IF a = <<-1>> THEN dflt ELSE a

RECURSIVE Vis(_, _)
ChildCtx(t, i, ctx) ==
  IF ctx = "loose" THEN "loose"
  ELSE IF t.tag \in {"mover", "munder", "munderover"} THEN (IF i >= 2 THEN "accent" ELSE "plain")
  \* (a script element with an empty base is turned into mmultiscripts before the degree normalisation applies)
  ELSE IF t.tag \in {"msup", "msubsup"} THEN "plain"
  \* a wrapper whose only visible child is lifted into the wrapper's place (siblings that render nothing disappear)
  ELSE IF t.tag \in Wrappers /\ Cardinality({k \in 1..Len(t.kids) : Vis(t.kids[k], "plain") # <<>>}) <= 1 THEN ctx
  ELSE "plain"

PresentationChild(t) ==           \* get_presentation_element
  LET hits == {i \in 1..Len(t.kids) : t.kids[i].presEnc = 1} IN
  IF hits # {} THEN LET i == CHOOSE j \in hits : \A k \in hits : j <= k IN
                    (IF t.kids[i].kids # <<>> THEN t.kids[i].kids[1] ELSE t.kids[i])
  ELSE t.kids[1]
VisKids(t, ctx) == Flat([i \in 1..Len(t.kids) |-> Vis(t.kids[i], ChildCtx(t, i, ctx))])
\* mfenced: open, children separated by the separators (last one repeated, default comma), close
Sep(t, i) == LET s == SelectSeq(AttrOr(t.seps, <<44>>), LAMBDA c : c \notin WhiteSpace) IN
             IF t.seps = <<-1>> THEN <<44>>
             ELSE IF i <= Len(s) THEN <<s[i]>> ELSE <<44>>
FencedVis(t) ==
  LET open == AttrOr(t.open, <<40>>) close == AttrOr(t.close, <<41>>)
      fix(s) == [i \in 1..Len(s) |-> IF s[i] = 60 THEN 10216 ELSE IF s[i] = 62 THEN 10217 ELSE s[i]]   \* WIRIS < > -> angle brackets
  IN NormSeq(fix(open), "plain")
     \o Flat([i \in 1..Len(t.kids) |-> (IF i > 1 THEN NormSeq(Sep(t, i - 1), "plain") ELSE <<>>) \o Vis(t.kids[i], "plain")])
     \o NormSeq(fix(close), "plain")
\* mmultiscripts is read prescripts - base - postscripts
MultiVis(t) ==
  LET n == Len(t.kids)
      pres == {i \in 1..n : t.kids[i].tag = "mprescripts"}
      p == IF pres = {} THEN n + 1 ELSE CHOOSE i \in pres : \A j \in pres : i <= j
  IN Flat([i \in 1..(n - p) |-> Vis(t.kids[p + i], "plain")])
     \o (IF n >= 1 THEN Vis(t.kids[1], "plain") ELSE <<>>)
     \o Flat([i \in 1..(IF p - 2 > 0 THEN p - 2 ELSE 0) |-> Vis(t.kids[1 + i], "plain")])
Vis(t, ctx) ==
  IF t.tag \in NotRendered THEN <<>>
  ELSE IF t.tag = "mglyph" THEN NormSeq(t.alt, "plain")
  ELSE IF t.tag = "semantics" THEN (IF t.kids = <<>> THEN <<>> ELSE Vis(PresentationChild(t), ctx))
  ELSE IF t.tag = "mfenced" THEN FencedVis(t)
  ELSE IF t.tag = "mmultiscripts" THEN MultiVis(t)
  \* the script-position normalisations apply to a token whose whole text is that one character
  ELSE IF IsLeaf(t) THEN NormSeq(LeafText(t), IF Len(t.cp) = 1 THEN ctx ELSE "plain")
  ELSE VisKids(t, ctx)
Visible(t) == Vis(t, "plain")

\* C01
SameVisible(in, out) == Visible(in) = Visible(out)

---------------------------------------------------------------------------
\* C02: well-formed canonical MathML
Forbidden == {"mfenced", "mstyle", "mpadded", "mphantom", "mspace", "semantics", "annotation", "annotation-xml",
              "malignmark", "maligngroup"}
Arity2 == {"mfrac", "mroot", "msub", "msup", "munder", "mover"}
Arity3 == {"msubsup", "munderover"}
Arity1 == {"msqrt", "menclose", "mtd", "merror", "math"}
MayBeEmptyLeaf == {"none", "mprescripts", "msline", "mglyph", "mtable", "mtr", "mlabeledtr", "mstack", "msgroup", "msrow", "mscarries", "mlongdiv"}
Tokens == {"mi", "mn", "mo", "mtext", "ms"}

MultiOK(t) ==
  LET n == Len(t.kids)
      pres == {i \in 1..n : t.kids[i].tag = "mprescripts"}
  IN /\ n >= 1 /\ t.kids[1].tag # "mprescripts"
     /\ Cardinality(pres) <= 1
     /\ IF pres = {} THEN (n - 1) % 2 = 0
        ELSE LET p == CHOOSE i \in pres : TRUE IN (p - 2) % 2 = 0 /\ (n - p) % 2 = 0

NodeOK(t) ==
  /\ t.tag \notin Forbidden
  /\ (t.tag \in Arity2 => Len(t.kids) = 2)
  /\ (t.tag \in Arity3 => Len(t.kids) = 3)
  /\ (t.tag \in Arity1 => Len(t.kids) = 1)
  /\ (t.tag = "mmultiscripts" => MultiOK(t))
  /\ (t.tag \in Tokens => t.cp # <<>> /\ t.kids = <<>>)                 \* no token element is empty
  /\ (t.tag = "mrow" => (Len(t.kids) >= 2 \/ t.intent = 1))               \* no redundant row
WhyNot(t) ==
  IF t.tag \in Forbidden THEN "wrapper-not-removed"
  ELSE IF (t.tag \in Arity2 /\ Len(t.kids) # 2) \/ (t.tag \in Arity3 /\ Len(t.kids) # 3) \/ (t.tag \in Arity1 /\ Len(t.kids) # 1)
       THEN "wrong-arity"
  ELSE IF t.tag = "mmultiscripts" /\ ~MultiOK(t) THEN "unpaired-multiscripts"
  ELSE IF t.tag \in Tokens /\ (t.cp = <<>> \/ t.kids # <<>>) THEN "empty-token"
  ELSE IF t.tag = "mrow" /\ Len(t.kids) < 2 /\ t.intent = 0 THEN "redundant-mrow"
  ELSE "ok"
RECURSIVE FirstBad(_)
FirstBadKid(ks) == LET bad == {i \in 1..Len(ks) : FirstBad(ks[i]) # "ok"} IN
                   IF bad = {} THEN "ok" ELSE FirstBad(ks[CHOOSE i \in bad : \A j \in bad : i <= j])
FirstBad(t) == IF WhyNot(t) # "ok" THEN WhyNot(t) ELSE FirstBadKid(t.kids)
WellFormedCanon(t) == t.tag = "math" /\ FirstBad(t) = "ok"

---------------------------------------------------------------------------
\* C09: ids
RECURSIVE IdSeq(_)
IdSeq(t) == <<t.id>> \o Flat([i \in 1..Len(t.kids) |-> IdSeq(t.kids[i])])
ToSet(s) == {s[i] : i \in 1..Len(s)}
Distinct(s) == Cardinality(ToSet(s)) = Len(s)
AllHaveIds(t) == "" \notin ToSet(IdSeq(t))
\* author ids of the input: ids on elements of the input tree
RECURSIVE AuthorIds(_)
AuthorIds(t) == (IF t.id # "" THEN <<t.id>> ELSE <<>>) \o Flat([i \in 1..Len(t.kids) |-> AuthorIds(t.kids[i])])
\* library ids (data-id-added) are pairwise distinct and distinct from all other ids of the tree
RECURSIVE AddedIds(_)
AddedIds(t) == (IF t.idAdded = 1 THEN <<t.id>> ELSE <<>>) \o Flat([i \in 1..Len(t.kids) |-> AddedIds(t.kids[i])])
LibraryIdsFresh(out) == LET added == AddedIds(out) all == IdSeq(out) IN
  /\ Distinct(added)
  /\ \A a \in ToSet(added) : Cardinality({i \in 1..Len(all) : all[i] = a}) = 1
\* an author id on a token element stays on an element whose visible text contains that token's text
RECURSIVE TokensWithIds(_)
TokensWithIds(t) ==        \* only tokens that are rendered: not below mphantom/annotation, only the presentation child of semantics
  IF t.tag \in NotRendered THEN <<>>
  ELSE IF t.tag = "semantics" THEN (IF t.kids = <<>> THEN <<>> ELSE TokensWithIds(PresentationChild(t)))
  ELSE (IF t.id # "" /\ t.tag \in Tokens /\ Visible(t) # <<>> THEN <<t>> ELSE <<>>)
       \o Flat([i \in 1..Len(t.kids) |-> TokensWithIds(t.kids[i])])
RECURSIVE NodesWithId(_, _)
NodesWithId(t, id) == (IF t.id = id THEN <<t>> ELSE <<>>) \o Flat([i \in 1..Len(t.kids) |-> NodesWithId(t.kids[i], id)])
Contains(big, small) == \E k \in 0..(Len(big) - Len(small)) : SubSeq(big, k + 1, k + Len(small)) = small
VisL(t) == Vis(t, "loose")             \* a token looked at on its own: position-dependent normalisations merged
\* (the raw text counts as well: '_' merged with a following blank is '_ ', whose loose reading differs from that of a lone '_')
AuthorIdKept(out, tok) == \E n \in ToSet(NodesWithId(out, tok.id)) : Contains(VisL(n), VisL(tok)) \/ (tok.cp # <<>> /\ Contains(n.cp, tok.cp))
\* the clause is asserted for tokens whose text survives inside ONE token of the output; a token that canonicalization
\* splits into several tokens (-2 -> - 2, NaCl -> Na Cl, x' -> x ') has no single "element carrying that token's text"
RECURSIVE Leaves(_)
Leaves(t) == IF IsLeaf(t) THEN <<t>> ELSE Flat([i \in 1..Len(t.kids) |-> Leaves(t.kids[i])])
\* ... and a token merged with its neighbours (number blocks, primes, dots) survives only as part of a longer token,
\* which keeps the id of one of the merged tokens; both cases are outside the asserted clause.
\* Which output token IS the input token is decided by its text, so the text must not be ambiguous: when another token of the
\* same (loosely normalised) text was merged or split away - '_' '_' -> '__' next to a '-' - the one that is left need not be this one.
\* The clause is asserted when the output has at least as many tokens of this text as the input.
\* (a token whose loose visible text is empty - a lone '_' or dash-like mark - cannot be told from any other such token by its text)
SameText(n, tok) == VisL(tok) # <<>> /\ VisL(n) = VisL(tok) /\ Len(n.cp) = Len(tok.cp)
CountSame(t, tok) == Len(SelectSeq(Leaves(t), LAMBDA n : SameText(n, tok)))
\* (input tokens are counted by their loose text alone: '- ' with a trailing blank and '_' read the same loosely, and the '-' that comes
\*  out of the first must not be taken for the second, which was merged into a neighbour)
CountLoose(t, tok) == Len(SelectSeq(Leaves(t), LAMBDA n : VisL(n) = VisL(tok)))
SurvivesInOneToken(out, tok, inp) == CountSame(out, tok) >= 1 /\ CountSame(out, tok) >= CountLoose(inp, tok)
=============================================================================
