-------------------------------- MODULE Chem --------------------------------
(***************************************************************************)
(* The protocol between the two parses of canonicalize() and the chemistry *)
(* scan (canonicalize.rs::canonicalize, chemistry.rs::scan_and_mark_       *)
(* chemistry).  The first parse adds rows (mrow data-changed='added') and  *)
(* leaves tentative chemistry marks.  The scan decides; where it decides   *)
(* "not chemistry" it removes the marks AND the rows the parse added there *)
(* (tokens were split or merged for chemistry, so the place has to be      *)
(* parsed again) and says so; canonicalize() then parses a second time.    *)
(* The scan has a quick exit: with no mark left anywhere nothing can have  *)
(* been removed, so no second parse.                                       *)
(*                                                                         *)
(* Regions: the top-level row and the cells of a table the equation scan   *)
(* walks into.  A region is parsed (its added rows are there) or not.      *)
(* What is owed: when canonicalize() returns, every region is parsed.      *)
(*                                                                         *)
(* The deviation of the pinned commit: the table branch of the scan        *)
(* unmarks a non-chemistry cell on the spot and DROPS the answer "changed" *)
(* - no mark is left, the quick exit is taken (9b2141d).                   *)
(***************************************************************************)
EXTENDS Naturals, FiniteSets, TLC
CONSTANTS Cells,                    \* cells of the table (model values or strings)
          CellUnmarkDropsChange     \* TRUE: pinned commit; FALSE: the table keeps a mark when a cell was changed
VARIABLES pc,            \* "parsed1" | "scanned" | "done"
          topMarked,     \* tentative marks on the top-level row (outside the table)
          topChem,       \* the scan decided: the top-level row is chemistry
          cellMarked,    \* cell -> tentative marks inside it
          cellRows,      \* cell -> the first parse added rows inside it
          cellParsed,    \* cell -> its added rows are (still / again) there
          topParsed,
          tableMark,     \* the mark the repaired code leaves on the table
          walked,        \* the equation scan walked into the table
          reparse        \* what scan_and_mark_chemistry answered (negated): a second parse is asked for
vars == <<pc, topMarked, topChem, cellMarked, cellRows, cellParsed, topParsed, tableMark, walked, reparse>>

Init == /\ pc = "parsed1"
        /\ topMarked \in BOOLEAN /\ topChem = FALSE
        /\ cellMarked \in [Cells -> BOOLEAN] /\ cellRows \in [Cells -> BOOLEAN]
        /\ cellParsed = [c \in Cells |-> TRUE] /\ topParsed = TRUE
        /\ tableMark = FALSE /\ walked = FALSE /\ reparse = FALSE

(* likely_chem_formula / likely_chem_equation on the top-level row.  A table is never chemistry (NOT_CHEMISTRY), so a row that
   holds one is not either: the top level can only be decided chemistry when the scan did not walk into a table. *)
Scan ==
  /\ pc = "parsed1"
  /\ \E w \in BOOLEAN, chem \in [Cells -> BOOLEAN] :
       /\ walked' = w
       /\ topChem' \in (IF w \/ ~topMarked THEN {FALSE} ELSE BOOLEAN)
       /\ IF w
          THEN \* per cell: chemistry stays marked; the others are unmarked on the spot, which removes the rows added there
               /\ cellMarked' = [c \in Cells |-> cellMarked[c] /\ chem[c]]
               /\ cellParsed' = [c \in Cells |-> IF ~chem[c] /\ cellMarked[c] /\ cellRows[c] THEN FALSE ELSE cellParsed[c]]
               /\ tableMark' = (~CellUnmarkDropsChange /\ \E c \in Cells : ~chem[c] /\ cellMarked[c] /\ cellRows[c])
          ELSE UNCHANGED <<cellMarked, cellParsed, tableMark>>
  /\ pc' = "scanned"
  /\ UNCHANGED <<topMarked, cellRows, topParsed, reparse>>

AnyMark == topMarked \/ tableMark \/ \E c \in Cells : cellMarked[c]
(* the end of scan_and_mark_chemistry *)
Decide ==
  /\ pc = "scanned"
  /\ IF topChem THEN reparse' = FALSE /\ UNCHANGED <<topParsed, cellParsed, topMarked, cellMarked, tableMark>>
     ELSE IF ~AnyMark THEN reparse' = FALSE /\ UNCHANGED <<topParsed, cellParsed, topMarked, cellMarked, tableMark>>      \* the quick exit
     ELSE \* is_changed_after_unmarking_chemistry(math): every mark goes, with the rows added where it was; a table cell (mtd)
          \* on the way answers "changed" by itself
          /\ topMarked' = FALSE /\ tableMark' = FALSE /\ cellMarked' = [c \in Cells |-> FALSE]
          /\ topParsed' \in (IF topMarked THEN BOOLEAN ELSE {topParsed})
          /\ cellParsed' = cellParsed
          /\ reparse' = (Cells # {} \/ ~topParsed')
  /\ pc' = "decided"
  /\ UNCHANGED <<topChem, cellRows, walked>>
(* canonicalize(): the second parse, if asked for *)
Finish ==
  /\ pc = "decided"
  /\ IF reparse THEN topParsed' = TRUE /\ cellParsed' = [c \in Cells |-> TRUE] ELSE UNCHANGED <<topParsed, cellParsed>>
  /\ pc' = "done"
  /\ UNCHANGED <<topMarked, topChem, cellMarked, cellRows, tableMark, walked, reparse>>
Next == Scan \/ Decide \/ Finish \/ (pc = "done" /\ UNCHANGED vars)
Spec == Init /\ [][Next]_vars

TypeOK == pc \in {"parsed1", "scanned", "decided", "done"}
\* what is owed: nothing that the first parse built is missing at the end
ParsedAtEnd == pc = "done" => topParsed /\ \A c \in Cells : cellParsed[c]
\* the same, as the trace specification sees it: rows went away during the scan => the scan asks for the second parse
RowsLostImpliesReparse == pc = "decided" => ((~topParsed \/ \E c \in Cells : ~cellParsed[c]) => reparse)
=============================================================================
