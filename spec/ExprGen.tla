------------------------------- MODULE ExprGen -------------------------------
(***************************************************************************)
(* Generator of the textbook grammar for C04 / C06: an expression with an  *)
(* operand at every position, so that a distinct numeric literal can be    *)
(* planted at each.  TLC enumerates every context Ctx(P, i, Q): production *)
(* P whose i-th operand is production Q (all other operands are literals), *)
(* and, by simulation, deeper nestings.  An abstract tree is               *)
(*   [p |-> production, kids |-> <<tree...>>]   with p = "lit" for leaves. *)
(***************************************************************************)
EXTENDS Naturals, Sequences, TLC, Json
CONSTANT MaxDepth
Productions == {"sum", "diff", "product", "times", "neg", "factorial", "paren", "frac", "sqrt", "root", "sup", "sub", "subsup",
                "sumlimits", "integral", "lim", "sin", "log", "fcall", "abs", "binomial", "list", "table2x2", "mixed", "menclose",
                "eq", "set", "overbar", "underbrace", "interval", "mfencedlist",
                \* second batch: scripts on both sides, accents, piecewise and labelled tables, determinants, units and signs after
                \* a number, a function's prime and base, continued fractions, vectors, ratios, floors and norms
                "multiscripts", "overarrow", "hat", "cases", "det2x2", "labeledrow", "percent", "degrees", "prime", "logbase",
                "contfrac", "vector", "ratio", "mod", "floor", "norm"}
Arity(p) == CASE p \in {"neg", "factorial", "paren", "sqrt", "sin", "log", "abs", "menclose", "overbar", "lim",
                         "overarrow", "hat", "percent", "degrees", "prime", "floor", "norm"} -> 1
              [] p \in {"sum", "diff", "product", "times", "frac", "root", "sup", "sub", "fcall", "binomial", "eq", "underbrace", "interval",
                         "labeledrow", "logbase", "ratio", "mod"} -> 2
              [] p \in {"subsup", "sumlimits", "integral", "list", "mixed", "set", "mfencedlist", "contfrac", "vector"} -> 3
              [] p \in {"table2x2", "multiscripts", "cases", "det2x2"} -> 4
Lit == [p |-> "lit", kids |-> <<>>]
Mk(p, i, t) == [p |-> p, kids |-> [k \in 1..Arity(p) |-> IF k = i THEN t ELSE Lit]]
VARIABLES tree, depth
Init == depth = 1 /\ tree \in {Mk(p, 0, Lit) : p \in Productions}
Wrap(p, i) == depth < MaxDepth /\ tree' = Mk(p, i, tree) /\ depth' = depth + 1
Next == \E p \in Productions : \E i \in 1..Arity(p) : Wrap(p, i)
Spec == Init /\ [][Next]_<<tree, depth>>
(* Three levels along one path, for the shapes where structure is lost between passes (9b2141d: a set in a script in a cell of a
   determinant): a row with several operands, inside a scripted construct, inside a two-dimensional container - exhaustively. *)
Rows == {"sum", "diff", "product", "times", "list", "set", "fcall", "interval", "eq", "mfencedlist", "vector", "ratio", "mixed", "mod"}
Scripted == {"sup", "sub", "subsup", "multiscripts", "sumlimits", "integral", "underbrace", "lim", "logbase", "overbar", "root"}
Containers == {"table2x2", "det2x2", "cases", "labeledrow", "frac", "sqrt", "abs", "norm", "binomial", "menclose"}
ChainInit == depth = 1 /\ tree \in {Mk(p, 0, Lit) : p \in Rows}
ChainNext == \/ depth = 1 /\ \E p \in Scripted : \E i \in 1..Arity(p) : Wrap(p, i)
             \/ depth = 2 /\ \E p \in Containers : \E i \in 1..Arity(p) : Wrap(p, i)
ChainSpec == ChainInit /\ [][ChainNext]_<<tree, depth>>
ExportChain == depth = 3 => PrintT(<<"REPLAY", ToJson(tree)>>)
Export == PrintT(<<"REPLAY", ToJson(tree)>>)
ExportDeep == depth = MaxDepth => PrintT(<<"REPLAY", ToJson(tree)>>)
=============================================================================
