------------------------------- MODULE Intent -------------------------------
(***************************************************************************)
(* C19: the value of an intent attribute as a string of character classes, *)
(* the lexer of infer_intent.rs (LexState: terminals, PROPERTY, ARG_REF,   *)
(* CONCEPT_OR_LITERAL, NUMBER, in that order) and the grammar written in   *)
(* its comments.  Two readings of the grammar are kept apart: with and     *)
(* without an empty argument list 'f()'; the properties speak only about   *)
(* values on which both agree.                                             *)
(*                                                                         *)
(* classes: ns  a character a name may start with (letters, _, >= U+C0)    *)
(*          dg  digit   mi '-'   dt '.'   co ':'   dl '$'                  *)
(*          lp '('  cm ','  rp ')'  sp white space  ot anything else       *)
(***************************************************************************)
EXTENDS Naturals, Sequences, FiniteSets, TLC, Json
Classes == {"ns", "dg", "mi", "dt", "co", "dl", "lp", "cm", "rp", "sp", "ot"}
NameChar(c) == c \in {"ns", "dg", "mi", "dt"}

RECURSIVE NameEnd(_, _)
NameEnd(s, i) == IF i <= Len(s) /\ NameChar(s[i]) THEN NameEnd(s, i + 1) ELSE i        \* first position after the name characters
RECURSIVE Digits(_, _)
Digits(s, i) == IF i <= Len(s) /\ s[i] = "dg" THEN Digits(s, i + 1) ELSE i
RECURSIVE SkipSp(_, _)
SkipSp(s, i) == IF i <= Len(s) /\ s[i] = "sp" THEN SkipSp(s, i + 1) ELSE i
\* the token that starts at i (no white space at i): <<kind, next position>>
TokenAt(s, i) ==
  LET c == s[i] IN
  IF c \in {"lp", "cm", "rp"} THEN <<c, i + 1>>
  ELSE IF c = "co" /\ i < Len(s) /\ s[i + 1] = "ns" THEN <<"prop", NameEnd(s, i + 1)>>
  ELSE IF c = "dl" /\ i < Len(s) /\ s[i + 1] = "ns" THEN <<"ref", NameEnd(s, i + 1)>>
  ELSE IF c = "ns" THEN <<"name", NameEnd(s, i)>>
  ELSE LET j == IF c = "mi" THEN i + 1 ELSE i
           k == Digits(s, j)
       IN IF k > j THEN (IF k < Len(s) /\ s[k] = "dt" /\ Digits(s, k + 1) > k + 1 THEN <<"num", Digits(s, k + 1)>> ELSE <<"num", k>>)
          ELSE <<"ERR", i + 1>>
RECURSIVE Lex(_, _)
Lex(s, i) == LET j == SkipSp(s, i) IN
             IF j > Len(s) THEN <<>>
             ELSE LET t == TokenAt(s, j) IN IF t[1] = "ERR" THEN <<"ERR">> ELSE <<t[1]>> \o Lex(s, t[2])

\* the grammar of the comments; emptyArgs: is 'f()' an application?  Result: position after the expression, 0 = no parse
RECURSIVE Expr(_, _, _), ArgList(_, _, _), Props(_, _), Apps(_, _, _)
Props(t, i) == IF i <= Len(t) /\ t[i] = "prop" THEN Props(t, i + 1) ELSE i
Apps(t, i, emptyArgs) ==          \* zero or more argument lists
  IF i > Len(t) \/ t[i] # "lp" THEN i
  ELSE IF i < Len(t) /\ t[i + 1] = "rp" THEN (IF emptyArgs THEN Apps(t, i + 2, emptyArgs) ELSE 0)
  ELSE LET j == ArgList(t, i + 1, emptyArgs) IN IF j = 0 \/ j > Len(t) \/ t[j] # "rp" THEN 0 ELSE Apps(t, j + 1, emptyArgs)
ArgList(t, i, emptyArgs) ==       \* expression (',' expression)*, returns the position of what follows
  LET j == Expr(t, i, emptyArgs) IN
  IF j = 0 THEN 0 ELSE IF j <= Len(t) /\ t[j] = "cm" THEN ArgList(t, j + 1, emptyArgs) ELSE j
Expr(t, i, emptyArgs) ==
  IF i > Len(t) \/ t[i] \notin {"name", "num", "ref"} THEN 0
  ELSE Apps(t, Props(t, i + 1), emptyArgs)
Legal(s, emptyArgs) ==
  LET t == Lex(s, 1) IN
  /\ t # <<>> /\ t[Len(t)] # "ERR" /\ (\A i \in 1..Len(t) : t[i] # "ERR")
  /\ \/ (\A i \in 1..Len(t) : t[i] = "prop")                    \* self-property-list
     \/ Expr(t, 1, emptyArgs) = Len(t) + 1

(***************************************************************************)
(* The two classes the property speaks about, defined on the characters    *)
(* (not by the parser): clearly illegal, clearly legal and simple.         *)
(***************************************************************************)
NoSp(s) == SelectSeq(s, LAMBDA c : c # "sp")
RECURSIVE Depth(_, _, _)
Depth(s, i, d) == IF i > Len(s) THEN d ELSE IF d < 0 THEN d
                  ELSE Depth(s, i + 1, IF s[i] = "lp" THEN d + 1 ELSE IF s[i] = "rp" THEN d - 1 ELSE d)
ClearlyIllegal(s) ==
  LET u == NoSp(s) IN
  \/ Depth(s, 1, 0) # 0                                                          \* unbalanced or stray parentheses
  \/ \E i \in 1..(Len(u) - 1) : <<u[i], u[i + 1]>> \in {<<"lp", "cm">>, <<"cm", "cm">>, <<"cm", "rp">>}     \* an empty argument
  \/ \E i \in 1..(Len(u) - 1) : u[i] = "rp" /\ u[i + 1] \in {"ns", "dg", "dl"}    \* text after a closing parenthesis
  \/ \E i \in 1..Len(s) : s[i] = "ot"                                            \* a character no token may start with or contain
  \/ \E i \in 1..Len(s) : s[i] \in {"co", "dl"} /\ (i = Len(s) \/ s[i + 1] # "ns")  \* ':' or '$' without a name
  \/ (u # <<>> /\ u[1] \in {"lp", "cm", "rp"})                                    \* starts with a terminal (no head)
\* name ( $ref , $ref ... )
RECURSIVE RefList(_, _)
RefList(t, i) == i + 1 <= Len(t) /\ t[i] = "ref" /\ ((t[i + 1] = "rp" /\ i + 1 = Len(t)) \/ (t[i + 1] = "cm" /\ RefList(t, i + 2)))
ClearlyLegalSimple(s) == LET t == Lex(s, 1) IN Len(t) >= 4 /\ t[1] = "name" /\ t[2] = "lp" /\ RefList(t, 3)
\* name ( $ref ) ( $ref ) ... : the head of an application may itself be an application (intent := ... | intent '(' args ')');
\* a chain of two or more one-argument applications of a name is as clearly legal as name(args) - and owed the same
ClearlyLegalChain(s) ==
  LET t == Lex(s, 1) IN
    /\ Len(t) >= 7 /\ (Len(t) - 1) % 3 = 0 /\ t[1] = "name"
    /\ \A j \in 0..((Len(t) - 1) \div 3 - 1) : t[2 + 3 * j] = "lp" /\ t[3 + 3 * j] = "ref" /\ t[4 + 3 * j] = "rp"

(***************************************************************************)
(* Which arg a reference reaches (find_arg): the search goes down from the *)
(* element that carries the intent through elements that have neither an   *)
(* arg nor an intent of their own; an arg below ANOTHER arg or below        *)
(* another intent belongs to that one - the reference is dangling.          *)
(***************************************************************************)
Placements == {"child", "below-plain", "below-other-arg", "below-other-intent", "absent"}
InScope(p) == p \in {"child", "below-plain"}

\* (chains are longer than the bound of the exhaustive configurations: the class is checked against the grammar on examples, at start-up)
Link == <<"lp", "dl", "ns", "rp">>
ChainExamples == {<<"ns">> \o Link \o Link, <<"ns", "ns">> \o Link \o Link \o Link, <<"ns">> \o Link \o Link \o Link \o Link}
ASSUME \A s \in ChainExamples : ClearlyLegalChain(s) /\ Legal(s, TRUE) /\ Legal(s, FALSE) /\ ~ClearlyIllegal(s) /\ ~ClearlyLegalSimple(s)
ASSUME ~ClearlyLegalChain(<<"ns">> \o Link) /\ ~ClearlyLegalChain(<<"ns", "lp", "dl", "ns", "cm", "dl", "ns", "rp">> \o Link) /\ ~ClearlyLegalChain(<<"dl", "ns">> \o Link \o Link)

CONSTANTS MaxLen
VARIABLES str
Init == str = <<>>
Next == Len(str) < MaxLen /\ \E c \in Classes : str' = Append(str, c)
Spec == Init /\ [][Next]_str
\* design: the classes are consistent with the grammar under both readings
IllegalIsIllegal == ClearlyIllegal(str) => ~Legal(str, TRUE) /\ ~Legal(str, FALSE)
ChainIsLegal == ClearlyLegalChain(str) => Legal(str, TRUE) /\ Legal(str, FALSE) /\ ~ClearlyIllegal(str) /\ ~ClearlyLegalSimple(str)
SimpleIsLegal == ClearlyLegalSimple(str) => Legal(str, TRUE) /\ Legal(str, FALSE) /\ ~ClearlyIllegal(str)
ReadingsDifferOnlyOnEmptyArgs == (Legal(str, TRUE) # Legal(str, FALSE)) =>
    \E i \in 1..(Len(NoSp(str)) - 1) : NoSp(str)[i] = "lp" /\ NoSp(str)[i + 1] = "rp"
Emit == Len(str) > 0 /\ (Legal(str, TRUE) \/ ClearlyIllegal(str) \/ Len(str) <= 3)
        => PrintT(<<"REPLAY", ToJson([s |-> str, illegal |-> ClearlyIllegal(str), simple |-> ClearlyLegalSimple(str), legal |-> Legal(str, FALSE)])>>)
=============================================================================
