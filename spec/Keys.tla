-------------------------------- MODULE Keys --------------------------------
(***************************************************************************)
(* The key-press entry point of navigation (navigate.rs:                   *)
(* key_press_to_command_and_param, choose_command / choose_param,          *)
(* navigation_command_string, do_mathml_navigate_key_press).               *)
(*                                                                         *)
(* do_navigate_keypress(key, shift, control, alt, meta) is a two-stage     *)
(* table: (key, modifiers) -> (command, param) -> command string, and the  *)
(* string is then executed like do_navigate_command's argument.  The       *)
(* second stage has `panic!` arms for pairs the first stage must never     *)
(* produce; that they are unreachable is a property of the two tables      *)
(* together (two cooperating sites), which TLC checks over every key code  *)
(* of a byte and every modifier combination.                               *)
(*                                                                         *)
(* As-built details kept on purpose: alt+control+arrow is control+arrow    *)
(* (issue 105), any other alt/meta combination is refused, ReadTo and the  *)
(* pairs with the command Last become the command string "Error" - which is executed   *)
(* without the vocabulary test of do_navigate_command.                     *)
(***************************************************************************)
EXTENDS Naturals, Sequences, FiniteSets, TLC

VK_LEFT == 37  VK_UP == 38  VK_RIGHT == 39  VK_DOWN == 40
VK_RETURN == 13  VK_SPACE == 32  VK_HOME == 36  VK_END == 35  VK_BACK == 8  VK_ESCAPE == 27
Digits == 48..57
Arrows == {VK_LEFT, VK_RIGHT, VK_UP, VK_DOWN}
NamedKeys == Arrows \cup {VK_RETURN, VK_SPACE, VK_HOME, VK_END, VK_BACK, VK_ESCAPE} \cup Digits

Mods == [shift : BOOLEAN, ctrl : BOOLEAN, alt : BOOLEAN, meta : BOOLEAN]

\* choose_command / choose_param: <<none, shift, control, shift+control>>
Choose(m, four) == IF m.shift /\ m.ctrl THEN four[4] ELSE IF m.ctrl THEN four[3] ELSE IF m.shift THEN four[2] ELSE four[1]

ChooseP(m, four) == <<Choose(m, four), 0>>
Bail == <<"bail", <<"bail", 0>>>>
PM(k) == <<"Placemarker", k - 48>>

\* stage 1: key_press_to_command_and_param
Stage1(key, m) ==
  LET alt == IF m.alt /\ m.ctrl /\ key \in Arrows THEN FALSE ELSE m.alt IN
  IF alt \/ m.meta THEN Bail
  ELSE IF key = VK_LEFT  THEN <<Choose(m, <<"Move", "Read", "Move", "Describe">>), ChooseP(m, <<"Previous", "Previous", "CellPrevious", "Previous">>)>>
  ELSE IF key = VK_RIGHT THEN <<Choose(m, <<"Move", "Read", "Move", "Describe">>), ChooseP(m, <<"Next", "Next", "CellNext", "Next">>)>>
  ELSE IF key = VK_UP    THEN <<Choose(m, <<"Zoom", "ChangeNavMode", "Move", "Zoom">>), ChooseP(m, <<"Previous", "Previous", "CellUp", "Start">>)>>
  ELSE IF key = VK_DOWN  THEN <<Choose(m, <<"Zoom", "ChangeNavMode", "Move", "Zoom">>), ChooseP(m, <<"Next", "Next", "CellDown", "End">>)>>
  ELSE IF key = VK_RETURN THEN <<Choose(m, <<"Locate", "Last", "Locate", "Last">>), ChooseP(m, <<"Previous", "Last", "Last", "Last">>)>>
  ELSE IF key = VK_SPACE THEN <<Choose(m, <<"Read", "ToggleSpeakMode", "Read", "Describe">>), ChooseP(m, <<"Current", "Last", "CellCurrent", "Current">>)>>
  ELSE IF key = VK_HOME  THEN <<Choose(m, <<"Move", "Move", "Move", "ReadTo">>), ChooseP(m, <<"Start", "ColStart", "LineStart", "Start">>)>>
  ELSE IF key = VK_END   THEN <<Choose(m, <<"Move", "Move", "Move", "ReadTo">>), ChooseP(m, <<"End", "ColEnd", "LineEnd", "End">>)>>
  ELSE IF key = VK_BACK  THEN <<"MoveLastLocation", <<"Last", 0>>>>
  ELSE IF key = VK_ESCAPE THEN <<"Exit", <<"Last", 0>>>>
  ELSE IF key \in Digits THEN <<Choose(m, <<"Move", "Read", "SetPlacemarker", "Describe">>), PM(key)>>
  ELSE Bail

IsPM(p) == p[1] = "Placemarker"     \* a param is a pair <<name, n>>; n is the marker number (0 for the others)
Digit(i) == <<"0", "1", "2", "3", "4", "5", "6", "7", "8", "9">>[i + 1]
Panic == "PANIC"

\* stage 2: navigation_command_string
MoveNames == [Previous |-> "MovePrevious", Next |-> "MoveNext", Start |-> "MoveStart", End |-> "MoveEnd", LineStart |-> "MoveLineStart",
              LineEnd |-> "MoveLineEnd", CellPrevious |-> "MoveCellPrevious", CellNext |-> "MoveCellNext", CellUp |-> "MoveCellUp",
              CellDown |-> "MoveCellDown", ColStart |-> "MoveColumnStart", ColEnd |-> "MoveColumnEnd"]
ReadNames == [Previous |-> "ReadPrevious", Next |-> "ReadNext", Current |-> "ReadCurrent", CellCurrent |-> "ReadCellCurrent", Start |-> "ReadStart",
              End |-> "ReadEnd", LineStart |-> "ReadLineStart", LineEnd |-> "ReadLineEnd"]
DescribeNames == [Previous |-> "DescribePrevious", Next |-> "DescribeNext", Current |-> "DescribeCurrent"]
ZoomNames == [Next |-> "ZoomIn", Previous |-> "ZoomOut", Start |-> "ZoomOutAll", End |-> "ZoomInAll"]

Named(tbl, p, prefix) ==
  IF IsPM(p) THEN prefix \o Digit(p[2])
  ELSE IF p[1] \in DOMAIN tbl THEN tbl[p[1]] ELSE Panic

Stage2(c, p) ==
  IF c = "Move" THEN Named(MoveNames, p, "MoveTo")
  ELSE IF c = "Zoom" THEN (IF p[1] \in DOMAIN ZoomNames THEN ZoomNames[p[1]] ELSE Panic)
  ELSE IF c = "MoveLastLocation" THEN "MoveLastLocation"
  ELSE IF c = "Read" THEN Named(ReadNames, p, "Read")
  ELSE IF c = "Describe" THEN Named(DescribeNames, p, "Describe")
  ELSE IF c = "ReadTo" THEN "Error"
  ELSE IF c = "Locate" THEN (IF p[1] = "Previous" THEN "WhereAmI" ELSE IF p[1] = "Last" THEN "WhereAmIAll" ELSE "Error")
  ELSE IF c = "ChangeNavMode" THEN (IF p[1] = "Previous" THEN "ToggleZoomLockUp" ELSE IF p[1] = "Next" THEN "ToggleZoomLockDown" ELSE "Error")
  ELSE IF c = "ToggleSpeakMode" THEN "ToggleSpeakMode"
  ELSE IF c = "SetPlacemarker" THEN (IF IsPM(p) THEN "SetPlacemarker" \o Digit(p[2]) ELSE Panic)
  ELSE IF c = "Exit" THEN "Exit"
  ELSE "Error"

\* the whole entry point: "bail" (an Err before anything is executed), "PANIC", "Error" (executed as an unknown command) or a command
KeyCommand(key, m) == LET s == Stage1(key, m) IN IF s = Bail THEN "bail" ELSE Stage2(s[1], s[2])

\* the vocabulary of do_navigate_command (NAV_COMMANDS of navigate.rs)
PlacemarkerCommands == {pre \o Digit(i) : pre \in {"MoveTo", "Read", "Describe", "SetPlacemarker"}, i \in 0..9}
Vocabulary ==
  {"MovePrevious", "MoveNext", "MoveStart", "MoveEnd", "MoveLineStart", "MoveLineEnd", "MoveCellPrevious", "MoveCellNext", "MoveCellUp",
   "MoveCellDown", "MoveColumnStart", "MoveColumnEnd", "ZoomIn", "ZoomOut", "ZoomOutAll", "ZoomInAll", "MoveLastLocation", "ReadPrevious",
   "ReadNext", "ReadCurrent", "ReadCellCurrent", "ReadStart", "ReadEnd", "ReadLineStart", "ReadLineEnd", "DescribePrevious", "DescribeNext",
   "DescribeCurrent", "WhereAmI", "WhereAmIAll", "ToggleZoomLockUp", "ToggleZoomLockDown", "ToggleSpeakMode", "Exit"} \cup PlacemarkerCommands

\* what a command may do to the position (the classes of Nav.tla)
Class(cmd) ==
  IF cmd = "MoveLastLocation" THEN "MoveLastLocation"
  ELSE IF cmd \in {"MoveTo" \o Digit(i) : i \in 0..9} THEN "MoveTo"
  ELSE IF cmd \in {"SetPlacemarker" \o Digit(i) : i \in 0..9} THEN "SetPlacemarker"
  ELSE IF cmd \in {MoveNames[p] : p \in DOMAIN MoveNames} THEN "Move"
  ELSE IF cmd \in {ZoomNames[p] : p \in DOMAIN ZoomNames} THEN "Zoom"
  ELSE IF cmd \in {ReadNames[p] : p \in DOMAIN ReadNames} \cup {"Read" \o Digit(i) : i \in 0..9} THEN "Read"
  ELSE IF cmd \in {DescribeNames[p] : p \in DOMAIN DescribeNames} \cup {"Describe" \o Digit(i) : i \in 0..9} THEN "Describe"
  ELSE IF cmd \in {"WhereAmI", "WhereAmIAll"} THEN "WhereAmI"
  ELSE IF cmd = "ToggleSpeakMode" THEN "ToggleSpeak"
  ELSE IF cmd \in {"ToggleZoomLockUp", "ToggleZoomLockDown"} THEN "Toggle"
  ELSE IF cmd = "Exit" THEN "Exit"
  ELSE "Unknown"

-----------------------------------------------------------------------------
\* TLC enumerates the table as the set of initial states: one state per key press.
CONSTANT KeyUniverse         \* key codes explored (0..255 in the registered configuration)
VARIABLES key, mods, out
kvars == <<key, mods, out>>
Init == key \in KeyUniverse /\ mods \in Mods /\ out = KeyCommand(key, mods)
Next == UNCHANGED kvars
Spec == Init /\ [][Next]_kvars

\* ---- properties of the two tables together -------------------------------------------------------------
NeverPanics == out # Panic                                       \* C08: no key press reaches a panic! arm of stage 2
InVocabulary == out \in Vocabulary \cup {"bail", "Error"} \* what is executed is a command the public vocabulary knows
UnnamedKeysBail == (key \notin NamedKeys) => out = "bail"
AltMetaBail == ((mods.meta \/ (mods.alt /\ ~(mods.ctrl /\ key \in Arrows)))) => out = "bail"
\* the plain (unmodified) digit moves to the marker that control+digit sets; shift reads it, shift+control describes it
DigitsPairUp ==
  \A d \in Digits \cap KeyUniverse : \A a, me \in {FALSE} :
     LET M(s, c) == [shift |-> s, ctrl |-> c, alt |-> a, meta |-> me] IN
       /\ KeyCommand(d, M(FALSE, FALSE)) = "MoveTo" \o Digit(d - 48)
       /\ KeyCommand(d, M(FALSE, TRUE)) = "SetPlacemarker" \o Digit(d - 48)
       /\ KeyCommand(d, M(TRUE, FALSE)) = "Read" \o Digit(d - 48)
       /\ KeyCommand(d, M(TRUE, TRUE)) = "Describe" \o Digit(d - 48)
\* shift never moves: a shifted key without control is a read / toggle / refused key, except Home/End (column start/end)
ShiftReads ==
  (mods.shift /\ ~mods.ctrl /\ key \notin {VK_HOME, VK_END, VK_BACK, VK_ESCAPE})
     => Class(out) \in {"Read", "Toggle", "ToggleSpeak", "Unknown"}

\* export of the table for the driver (one line per (key, modifiers) of the named keys and a few others)
Export == ((key \in NamedKeys \/ key \in {0, 65, 112, 255})) =>
            PrintT(<<"KEYMAP", key, mods.shift, mods.ctrl, mods.alt, mods.meta, out, Class(out)>>)
=============================================================================
