----------------------------- MODULE LangSelect -----------------------------
(***************************************************************************)
(* Which language's files a session uses (prefs.rs: set_string_pref,       *)
(* reset_files_from_preference_change, set_all_files, set_speech_files,    *)
(* set_style_file) as a function of the calls that set Language,           *)
(* LanguageAuto and SpeechStyle and of set_rules_dir.                      *)
(*                                                                         *)
(* Language = "Auto" means: the language is the one LanguageAuto names     *)
(* (what a screen reader sets from the voice in use).  The language files  *)
(* fall into two groups that are switched by different code: the style     *)
(* file (<lang>/<style>_Rules.yaml) and everything else (intent, overview, *)
(* navigation, Unicode, definitions).                                      *)
(*                                                                         *)
(* Deviations of the pinned commit, each a boolean constant, each refuted  *)
(* by TLC with FilesFollow, each reproduced in the library and repaired:   *)
(*   StyleUnderAutoIsEn   a SpeechStyle change under Auto took "en"        *)
(*   AutoRecordsEn        switching to Auto recorded "en" as LanguageAuto  *)
(*                        (Language is a user preference, the code looked  *)
(*                        in the API map), so a later LanguageAuto = en    *)
(*                        was "unchanged" and ignored                      *)
(*   RepointUnderAutoIsEn set_rules_dir under Auto selected "en"           *)
(***************************************************************************)
EXTENDS Naturals, Sequences, FiniteSets, TLC

CONSTANTS Langs, Styles, StyleUnderAutoIsEn, AutoRecordsEn, RepointUnderAutoIsEn
ASSUME "en" \in Langs /\ "Auto" \notin Langs /\ "" \notin Langs

VARIABLES lang,      \* preference Language: a language or "Auto"
          langAuto,  \* preference LanguageAuto: a language, or "" when never set
          style,     \* preference SpeechStyle
          files,     \* [styleLang, styleName, otherLang]: which files the session has selected
          act        \* last call (observation)
lvars == <<lang, langAuto, style, files, act>>

Effective(l, la) == IF l = "Auto" THEN (IF la = "" THEN "en" ELSE la) ELSE l
Files(sl, sn, ol) == [styleLang |-> sl, styleName |-> sn, otherLang |-> ol]

\* (the shipped prefs.yaml says Language: Auto; nobody has set LanguageAuto yet, so the language is English)
Init == /\ lang = "Auto" /\ langAuto = "" /\ style \in Styles
        /\ files = Files("en", style, "en") /\ act = <<"init", "">>

\* set_preference("Language", v): nothing happens when the value is the one it has
SetLanguage(v) ==
  /\ act' = <<"Language", v>>
  /\ IF v = lang THEN UNCHANGED <<lang, langAuto, style, files>>
     ELSE IF v = "Auto"
     THEN /\ langAuto' = IF AutoRecordsEn THEN "en" ELSE lang       \* "so the (probable) next change to LanguageAuto works well"
          /\ lang' = v /\ UNCHANGED <<style, files>>
     ELSE /\ lang' = v /\ files' = Files(v, style, v) /\ UNCHANGED <<langAuto, style>>
\* set_preference("LanguageAuto", v): by contract only while Language is Auto
SetLanguageAuto(v) ==
  /\ lang = "Auto"
  /\ act' = <<"LanguageAuto", v>>
  /\ IF v = langAuto THEN UNCHANGED <<lang, langAuto, style, files>>
     ELSE langAuto' = v /\ files' = Files(v, style, v) /\ UNCHANGED <<lang, style>>
\* set_preference("SpeechStyle", s): only the style file is selected again
SetStyle(s) ==
  /\ act' = <<"SpeechStyle", s>>
  /\ IF s = style THEN UNCHANGED <<lang, langAuto, style, files>>
     ELSE LET l == IF lang = "Auto" /\ StyleUnderAutoIsEn THEN "en" ELSE Effective(lang, langAuto) IN
          style' = s /\ files' = [files EXCEPT !.styleLang = l, !.styleName = s] /\ UNCHANGED <<lang, langAuto>>
\* set_rules_dir(the same directory again): every file is selected again
Repoint ==
  /\ act' = <<"set_rules_dir", "">>
  /\ LET l == IF lang = "Auto" /\ RepointUnderAutoIsEn THEN "en" ELSE Effective(lang, langAuto) IN
       files' = Files(l, style, l)
  /\ UNCHANGED <<lang, langAuto, style>>

Next == \/ \E v \in Langs \cup {"Auto"} : SetLanguage(v)
        \/ \E v \in Langs : SetLanguageAuto(v)
        \/ \E s \in Styles : SetStyle(s)
        \/ Repoint
Spec == Init /\ [][Next]_lvars

\* the files in use are a function of the CURRENT values of the three preferences (C10), namely those of the effective language
FilesFollow == files = Files(Effective(lang, langAuto), style, Effective(lang, langAuto))
TypeOK == lang \in Langs \cup {"Auto"} /\ langAuto \in Langs \cup {""} /\ style \in Styles
=============================================================================
