------------------------------- MODULE Locate -------------------------------
(***************************************************************************)
(* How a session finds its rule files (prefs.rs: set_all_files,           *)
(* set_speech_files, set_braille_files, find_file, get_language_dir).     *)
(*                                                                         *)
(* A path is a sequence of names relative to the rules directory (<<>> is  *)
(* the rules directory itself).  The directory tree is state: the model    *)
(* checker explores every tree over a small universe (MC_Locate) and the   *)
(* real Rules/ listing (RulesTree.tla, generated) is one more tree.        *)
(*                                                                         *)
(* One action per preference change that re-resolves files:                *)
(*   SetLanguage(tag)  SetStyle(s)  SetCode(c)                             *)
(* A tag is the preference value split at '-' (en-gb = <<"en","gb">>).     *)
(***************************************************************************)
EXTENDS LocateOps

CONSTANTS Tags,          \* language tags a user may select (sequences of names)
          Styles,        \* speech style names
          Codes,         \* braille codes: records [name |-> "ASCIIMath-fi", parts |-> <<"ASCIIMath", "fi">>] (parts = the name split at '-')
          StyleFileOf,   \* style or code name -> file name  (ClearSpeak -> ClearSpeak_Rules.yaml)
          DefaultLang,   \* <<"en">>
          DefaultCode    \* [name |-> "UEB", parts |-> <<"UEB">>]

VARIABLES dirs, files,   \* the tree: sets of paths
          lang, style, code,
          res            \* what the session resolved: kind -> set of acceptable paths ({} = error)

vars == <<dirs, files, lang, style, code, res>>

Resolve(D, F, l, s, c) == ResolveF(D, F, l, StyleFileOf[s], c, StyleFileOf[c.name], DefaultLang, DefaultCode)

(***************************************************************************)
(* Trees.  MC_Locate supplies Universe (candidate files) and the part that *)
(* is always present (a complete default language and default code).       *)
(***************************************************************************)
CONSTANTS AlwaysFiles, OptionalFiles, ExtraDirs
DirsOf(F) == UNION {{Prefix(q, k) : k \in 0..(Len(q) - 1)} : q \in F}
Init == /\ \E opt \in SUBSET OptionalFiles, xd \in SUBSET ExtraDirs :
              /\ files = AlwaysFiles \cup opt
              /\ dirs = DirsOf(AlwaysFiles \cup opt) \cup xd \cup UNION {{Prefix(q, k) : k \in 0..Len(q)} : q \in xd}
        /\ lang = DefaultLang /\ style \in Styles /\ code = DefaultCode
        /\ res = Resolve(dirs, files, lang, style, code)

SetLanguage(t) == /\ lang' = t /\ res' = Resolve(dirs, files, t, style, code) /\ UNCHANGED <<dirs, files, style, code>>
SetStyle(s) == /\ style' = s /\ res' = Resolve(dirs, files, lang, s, code) /\ UNCHANGED <<dirs, files, lang, code>>
SetCode(c) == /\ code' = c /\ res' = Resolve(dirs, files, lang, style, c) /\ UNCHANGED <<dirs, files, lang, style>>
Next == (\E t \in Tags : SetLanguage(t)) \/ (\E s \in Styles : SetStyle(s)) \/ (\E c \in Codes : SetCode(c))
Spec == Init /\ [][Next]_vars

(***************************************************************************)
(* Properties (C15's fallback clauses, and what makes them true).          *)
(***************************************************************************)
\* with a complete default language and code in the tree, every selection resolves every file
AlwaysResolves == \A k \in DOMAIN res : res[k] # {}
\* whatever was resolved exists
ResolvedExists == \A k \in DOMAIN res : res[k] \subseteq files
\* a regional variant without a directory of its own resolves exactly like the language
RegionFallsBack ==
  (Len(lang) = 2 /\ ~IsLangDir(dirs, files, LangRoot \o lang)) =>
      \A k \in SpeechKinds \cup {"speech"} : res[k] = Resolve(dirs, files, <<lang[1]>>, style, code)[k]
\* an unknown language resolves exactly like the default language
UnknownFallsBack ==
  (\A j \in 1..Len(lang) : ~IsLangDir(dirs, files, LangRoot \o Prefix(lang, j))) =>
      \A k \in SpeechKinds \cup {"speech"} : res[k] = Resolve(dirs, files, DefaultLang, style, code)[k]
\* language is kept when possible: a file the language (or its region) has is never taken from the default language
KeepsLanguage ==
  \A k \in SpeechKinds :
     LET own == {p \in files : /\ p[Len(p)] = FileOfKind[k]
                               /\ \E j \in 1..Len(lang) : p = (LangRoot \o Prefix(lang, j)) \o <<FileOfKind[k]>>}
     IN own # {} => res[k] \subseteq own
\* the style file is one of the language when the language has any style file
KeepsLanguageStyle ==
  LET ownDirs == {LangRoot \o Prefix(lang, j) : j \in 1..Len(lang)}
      has == \E d \in ownDirs : StyleFilesIn(files, d) # {}
  IN has => \A p \in res["speech"] : Prefix(p, Len(p) - 1) \in ownDirs
\* a braille code that has a directory of its own is served from that directory
CodeDirIsUsed ==
  LET literal == CodeRoot \o <<code.name>> IN
  (literal \in dirs /\ StyleFilesIn(files, literal) # {}) => \A p \in res["braille"] : Prefix(p, Len(p) - 1) = literal
=============================================================================
