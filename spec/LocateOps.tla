----------------------------- MODULE LocateOps -----------------------------
(***************************************************************************)
(* The file search of prefs.rs (get_language_dir, find_file) as operators  *)
(* over an explicit directory tree.  A path is a sequence of names         *)
(* relative to the rules directory (<<>> is the rules directory itself).   *)
(***************************************************************************)
EXTENDS Naturals, Sequences, FiniteSets, TLC
CONSTANTS StyleFiles,          \* every file name that ends with _Rules.yaml
          CodeTakenLiterally,  \* TRUE: a directory named exactly like the selection wins (intended); FALSE: as built ('-' always splits)
          EmptyDirIsNoLanguage \* TRUE: a directory without rule files of its own is not a language directory (intended, and the code
                               \* since the fix); FALSE: pinned commit - any directory is, and selecting it then fails in unzip_files

Prefix(p, k) == SubSeq(p, 1, k)
NoPath == <<"#none">>
LangRoot == <<"Languages">>
CodeRoot == <<"Braille">>
SpeechKinds == {"intent", "overview", "navigation", "speech_unicode", "speech_unicode_full", "speech_defs"}
BrailleKinds == {"braille_unicode", "braille_unicode_full", "braille_defs"}
FileOfKind == [intent |-> "intent.yaml", overview |-> "overview.yaml", navigation |-> "navigate.yaml",
               speech_unicode |-> "unicode.yaml", speech_unicode_full |-> "unicode-full.yaml", speech_defs |-> "definitions.yaml",
               braille_unicode |-> "unicode.yaml", braille_unicode_full |-> "unicode-full.yaml", braille_defs |-> "definitions.yaml"]

(* get_language_dir without the default: the deepest existing directory of root/parts[1]/parts[2].. below root.
   A selection is a record [name, parts]; languages never have a directory with '-' in its name, braille codes do. *)
Sel(parts) == [name |-> "", parts |-> parts]
HasRules(F, d) == \E p \in F : Len(p) = Len(d) + 1 /\ Prefix(p, Len(d)) = d      \* a .yaml file directly in d
IsLangDir(D, F, d) == d \in D /\ (EmptyDirIsNoLanguage => HasRules(F, d))
OwnDir(D, F, root, sel) ==
  LET full == root \o sel.parts
      ks == {k \in (Len(root) + 1)..Len(full) : IsLangDir(D, F, Prefix(full, k))}
  IN IF CodeTakenLiterally /\ Len(sel.parts) > 1 /\ IsLangDir(D, F, root \o <<sel.name>>) THEN root \o <<sel.name>>
     ELSE IF ks = {} THEN NoPath ELSE Prefix(full, CHOOSE k \in ks : \A j \in ks : j <= k)

LangDir(D, F, root, sel, default) ==
  IF OwnDir(D, F, root, sel) # NoPath THEN OwnDir(D, F, root, sel)
  ELSE IF default.parts # <<>> THEN OwnDir(D, F, root, default) ELSE NoPath

(* unzip_files: the directory found for the selection must hold <name>.zip or some .yaml file; a selection with '-' is tried
   again as its first part.  (No tree here has zip files.) *)
UnzipOk(D, F, root, sel, default) ==
  LET d == LangDir(D, F, root, sel, default)
      base == [name |-> sel.parts[1], parts |-> <<sel.parts[1]>>]
      d2 == LangDir(D, F, root, base, default)
  IN \/ d # NoPath /\ HasRules(F, d)
     \/ Len(sel.parts) > 1 /\ d2 # NoPath /\ HasRules(F, d2)

StyleFilesIn(F, d) == {n \in StyleFiles : (d \o <<n>>) \in F}

(* the loop of find_file over lang_dir.ancestors(), deepest first, ending at the rules directory *)
FindIn(F, d, name) ==
  LET chain == [i \in 1..(Len(d) + 1) |-> Prefix(d, Len(d) + 1 - i)]
      hits == {i \in DOMAIN chain : (chain[i] \o <<name>>) \in F /\ ~(name = "definitions.yaml" /\ chain[i] = <<>>)}
      alts == {i \in DOMAIN chain : StyleFilesIn(F, chain[i]) # {}}
      first(S) == CHOOSE i \in S : \A j \in S : i <= j
  IN IF hits # {} THEN {chain[first(hits)] \o <<name>>}
     ELSE IF name \in StyleFiles /\ alts # {}
          THEN {chain[first(alts)] \o <<n>> : n \in StyleFilesIn(F, chain[first(alts)])}   \* "any style file": directory order decides
     ELSE {}

FindFile(D, F, root, sel, default, name) ==
  LET d == LangDir(D, F, root, sel, default) IN
  IF d = NoPath \/ ~UnzipOk(D, F, root, sel, default) THEN {}
  ELSE IF FindIn(F, d, name) # {} THEN FindIn(F, d, name)
  ELSE IF default.parts # <<>> /\ OwnDir(D, F, root, default) # NoPath THEN FindIn(F, OwnDir(D, F, root, default), name)
  ELSE {}

(* all files of a session; sf / cf are the style and code rule file names *)
ResolveF(D, F, l, sf, c, cf, dl, dc) ==
  [k \in SpeechKinds \cup BrailleKinds \cup {"speech", "braille"} |->
     IF k \in SpeechKinds THEN FindFile(D, F, LangRoot, Sel(l), Sel(dl), FileOfKind[k])
     ELSE IF k = "speech" THEN FindFile(D, F, LangRoot, Sel(l), Sel(dl), sf)
     ELSE IF k \in BrailleKinds THEN FindFile(D, F, CodeRoot, c, dc, FileOfKind[k])
     ELSE FindFile(D, F, CodeRoot, c, dc, cf)]
=============================================================================
