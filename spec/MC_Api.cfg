SPECIFICATION HSpec
CONSTANT MaxLen = 2
INVARIANTS Alive Answered Export
CHECK_DEADLOCK FALSE
