SPECIFICATION HSpec
CONSTANT MaxLen = 7
INVARIANTS Alive Answered Export
CHECK_DEADLOCK FALSE
