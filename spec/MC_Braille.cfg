SPECIFICATION Spec
INVARIANTS Matched HasReplacement ReplacedByCells
CHECK_DEADLOCK FALSE
