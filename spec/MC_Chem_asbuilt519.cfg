SPECIFICATION Spec
CONSTANTS
  Cells = {"c1", "c2"}
  CellUnmarkDropsChange = TRUE
INVARIANTS TypeOK ParsedAtEnd
CHECK_DEADLOCK FALSE
