SPECIFICATION Spec
CONSTANTS
  Cells = {"c1", "c2"}
  CellUnmarkDropsChange = FALSE
INVARIANTS TypeOK ParsedAtEnd RowsLostImpliesReparse
CHECK_DEADLOCK FALSE
