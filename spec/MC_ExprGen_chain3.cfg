SPECIFICATION ChainSpec
CONSTANT MaxDepth = 3
INVARIANT ExportChain
CHECK_DEADLOCK FALSE
