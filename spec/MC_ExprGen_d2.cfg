SPECIFICATION Spec
CONSTANT MaxDepth = 2
INVARIANT Export
CHECK_DEADLOCK FALSE
