SPECIFICATION Spec
CONSTANT MaxDepth = 4
INVARIANT ExportDeep
CHECK_DEADLOCK FALSE
