SPECIFICATION Spec
CONSTANTS MaxLen = 6
INVARIANTS IllegalIsIllegal SimpleIsLegal ChainIsLegal ReadingsDifferOnlyOnEmptyArgs
CHECK_DEADLOCK FALSE
