SPECIFICATION Spec
CONSTANTS MaxLen = 6
INVARIANTS IllegalIsIllegal SimpleIsLegal ReadingsDifferOnlyOnEmptyArgs
CHECK_DEADLOCK FALSE
