SPECIFICATION Spec
CONSTANTS MaxLen = 5
INVARIANTS Emit
CHECK_DEADLOCK FALSE
