SPECIFICATION Spec
CONSTANTS MaxLen = 5
INVARIANTS IllegalIsIllegal SimpleIsLegal ReadingsDifferOnlyOnEmptyArgs
CHECK_DEADLOCK FALSE
