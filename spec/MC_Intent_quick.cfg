SPECIFICATION Spec
CONSTANTS MaxLen = 5
INVARIANTS IllegalIsIllegal SimpleIsLegal ChainIsLegal ReadingsDifferOnlyOnEmptyArgs
CHECK_DEADLOCK FALSE
