SPECIFICATION Spec
CONSTANT KeyUniverse <- KU
INVARIANTS NeverPanics InVocabulary UnnamedKeysBail AltMetaBail DigitsPairUp ShiftReads Export
CHECK_DEADLOCK FALSE
