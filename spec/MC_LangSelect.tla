---------------------------- MODULE MC_LangSelect ----------------------------
EXTENDS LangSelect, Json
\* behaviours for replay in the library: every sequence of at most Depth calls (history variable, exported at full length)
CONSTANT Depth
VARIABLE hist
HInit == Init /\ hist = <<>>
HNext == Len(hist) < Depth /\ Next /\ hist' = Append(hist, [name |-> act'[1], value |-> act'[2]])
HSpec == HInit /\ [][HNext]_<<lvars, hist>>
Export == Len(hist) = Depth => PrintT(<<"REPLAY", ToJson([style0 |-> IF hist = <<>> THEN style ELSE "", hist |-> hist])>>)
=============================================================================
