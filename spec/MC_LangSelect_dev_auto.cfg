SPECIFICATION Spec
CONSTANTS
  Langs = {"en", "sv", "es"}
  Styles = {"ClearSpeak", "SimpleSpeak"}
  StyleUnderAutoIsEn = FALSE
  AutoRecordsEn = TRUE
  RepointUnderAutoIsEn = FALSE
INVARIANTS TypeOK FilesFollow
CHECK_DEADLOCK FALSE
