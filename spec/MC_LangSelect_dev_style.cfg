SPECIFICATION Spec
CONSTANTS
  Langs = {"en", "sv", "es"}
  Styles = {"ClearSpeak", "SimpleSpeak"}
  StyleUnderAutoIsEn = TRUE
  AutoRecordsEn = FALSE
  RepointUnderAutoIsEn = FALSE
INVARIANTS TypeOK FilesFollow
CHECK_DEADLOCK FALSE
