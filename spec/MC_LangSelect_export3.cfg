SPECIFICATION HSpec
CONSTANTS
  Langs = {"en", "sv", "es"}
  Styles = {"ClearSpeak", "SimpleSpeak"}
  StyleUnderAutoIsEn = FALSE
  AutoRecordsEn = FALSE
  RepointUnderAutoIsEn = FALSE
  Depth = 3
INVARIANTS TypeOK FilesFollow Export
CHECK_DEADLOCK FALSE
