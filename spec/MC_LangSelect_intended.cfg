SPECIFICATION Spec
CONSTANTS
  Langs = {"en", "sv", "es"}
  Styles = {"ClearSpeak", "SimpleSpeak"}
  StyleUnderAutoIsEn = FALSE
  AutoRecordsEn = FALSE
  RepointUnderAutoIsEn = FALSE
INVARIANTS TypeOK FilesFollow
CHECK_DEADLOCK FALSE
