----------------------------- MODULE MC_Locate -----------------------------
(* Every directory tree over a small universe: a complete default language "en" and default code "UEB" are always there;
   a second language "xx" with a region "yy", an empty language directory "qq", a second code "B2" and a code whose
   directory name has a hyphen ("B2-r") have any subset of their files. *)
EXTENDS Locate, Json
L == <<"Languages">>
B == <<"Braille">>
MC_Tags == {<<"en">>, <<"xx">>, <<"xx", "yy">>, <<"xx", "zz">>, <<"qq">>, <<"qq", "yy">>, <<"en", "yy">>, <<"nn">>}
MC_Styles == {"ClearSpeak", "SimpleSpeak", "Other"}
C(n, p) == [name |-> n, parts |-> p]
MC_Codes == {C("UEB", <<"UEB">>), C("B2", <<"B2">>), C("B2-r", <<"B2", "r">>), C("Nope", <<"Nope">>)}
MC_StyleFileOf == [ClearSpeak |-> "ClearSpeak_Rules.yaml", SimpleSpeak |-> "SimpleSpeak_Rules.yaml", Other |-> "Other_Rules.yaml",
                   UEB |-> "UEB_Rules.yaml", B2 |-> "B2_Rules.yaml", Nope |-> "Nope_Rules.yaml"] @@ ("B2-r" :> "B2-r_Rules.yaml")
MC_StyleFiles == {"ClearSpeak_Rules.yaml", "SimpleSpeak_Rules.yaml", "Other_Rules.yaml", "UEB_Rules.yaml", "B2_Rules.yaml", "Nope_Rules.yaml", "B2-r_Rules.yaml"}
MC_DefaultLang == <<"en">>
MC_DefaultCode == C("UEB", <<"UEB">>)
MC_AlwaysFiles ==
  {<<"intent.yaml">>, <<"definitions.yaml">>} \cup
  {L \o <<"en", f>> : f \in {"overview.yaml", "navigate.yaml", "unicode.yaml", "unicode-full.yaml", "definitions.yaml", "ClearSpeak_Rules.yaml", "SimpleSpeak_Rules.yaml"}} \cup
  {B \o <<"UEB", f>> : f \in {"UEB_Rules.yaml", "unicode.yaml", "unicode-full.yaml", "definitions.yaml"}}
MC_OptionalFiles ==
  {L \o <<"xx", f>> : f \in {"navigate.yaml", "unicode.yaml", "definitions.yaml", "SimpleSpeak_Rules.yaml"}} \cup
  {L \o <<"xx", "yy", f>> : f \in {"unicode.yaml", "ClearSpeak_Rules.yaml"}} \cup
  {B \o <<"B2", f>> : f \in {"B2_Rules.yaml", "unicode.yaml"}} \cup
  {B \o <<"B2-r", f>> : f \in {"B2_Rules.yaml", "unicode.yaml"}}
MC_ExtraDirs == {L \o <<"qq">>, L \o <<"xx">>}
MC_OptionalFilesQuick ==
  {L \o <<"xx", f>> : f \in {"unicode.yaml", "SimpleSpeak_Rules.yaml"}} \cup
  {L \o <<"xx", "yy", f>> : f \in {"unicode.yaml", "ClearSpeak_Rules.yaml"}} \cup
  {B \o <<"B2", f>> : f \in {"B2_Rules.yaml"}} \cup
  {B \o <<"B2-r", f>> : f \in {"B2_Rules.yaml"}}
\* behaviours for the replay in the real library (simulation mode): one line per state
Export == PrintT(<<"REPLAY", ToJson([files |-> files, dirs |-> dirs, lang |-> lang, style |-> style, code |-> code, res |-> res])>>)
=============================================================================
