SPECIFICATION Spec
CONSTANTS
  Tags <- MC_Tags
  Styles <- MC_Styles
  Codes <- MC_Codes
  StyleFileOf <- MC_StyleFileOf
  StyleFiles <- MC_StyleFiles
  DefaultLang <- MC_DefaultLang
  DefaultCode <- MC_DefaultCode
  AlwaysFiles <- MC_AlwaysFiles
  OptionalFiles <- MC_OptionalFiles
  ExtraDirs <- MC_ExtraDirs
  EmptyDirIsNoLanguage = TRUE
  CodeTakenLiterally = FALSE
INVARIANTS Export
CHECK_DEADLOCK FALSE
