SPECIFICATION Spec
INVARIANT MatchesRef
INVARIANT Assigned
INVARIANT Injective
INVARIANT Export
CHECK_DEADLOCK FALSE
