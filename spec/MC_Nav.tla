------------------------------- MODULE MC_Nav -------------------------------
EXTENDS Nav
MCExprs == {"e1", "e2"}
CONSTANT Big
MCNodesOf == [e \in MCExprs |-> IF e = "e1" THEN {"a0", "a1", "a2"}
                                ELSE IF Big THEN {"b0", "b1", "b2", "b3"} ELSE {"b0", "b1", "b2"}]
MCRootOf == [e \in MCExprs |-> IF e = "e1" THEN "a0" ELSE "b0"]
MCMarkers == IF Big THEN {0, 1} ELSE {0}

=============================================================================
