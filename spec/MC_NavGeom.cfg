SPECIFICATION Spec
CONSTANT MaxN = 6
CONSTANT EdgeZoomOut = FALSE
INVARIANTS InTree SweepsTerminate StartEndTerminate ZoomChainsTerminate ZoomOutBoundedByDepth
CHECK_DEADLOCK FALSE
