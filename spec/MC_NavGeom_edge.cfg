SPECIFICATION Spec
CONSTANT MaxN = 5
CONSTANT EdgeZoomOut = TRUE
INVARIANTS InTree SweepsTerminate
CHECK_DEADLOCK FALSE
