------------------------------ MODULE MC_NavSim ------------------------------
EXTENDS MC_Nav, Json
\* ---- behaviour export for replay in the real library (M2): simulation mode with a history variable ----
VARIABLE hist
HInit == Init /\ hist = <<>>
HNext == Next /\ hist' = Append(hist, [name |-> act'.name, arg |-> act'.arg])
HSpec == HInit /\ [][HNext]_<<vars, hist>>
ExportLen == 24
Export == Len(hist) = ExportLen => PrintT(<<"REPLAY", ToJson(hist)>>)
=============================================================================
