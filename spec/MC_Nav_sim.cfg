SPECIFICATION HSpec
CONSTANTS
  Exprs <- MCExprs
  NodesOf <- MCNodesOf
  RootOf <- MCRootOf
  Markers <- MCMarkers
  Big = TRUE
  MaxStack = 8
  ResetKeepsMarkers = FALSE
  IterMayNotPush = TRUE
  PopStackByCount = FALSE
  MoveCmds = {"Move", "Zoom"}
  ReadCmds = {"Read", "Describe", "WhereAmI", "Toggle"}
INVARIANTS TypeOK PosInExpr Export
CHECK_DEADLOCK FALSE
