SPECIFICATION Spec
CONSTANTS
  Exprs <- MCExprs
  NodesOf <- MCNodesOf
  RootOf <- MCRootOf
  Markers <- MCMarkers
  Big = TRUE
  MaxStack = 3
  ResetKeepsMarkers = FALSE
  IterMayNotPush = TRUE
  PopStackByCount = FALSE
  MoveCmds = {"Move", "Zoom"}
  ReadCmds = {"Read", "Toggle"}
VIEW View
INVARIANTS TypeOK PosInExpr StackInExpr BottomIsNone MarkersInExpr NoPanic
PROPERTIES SetMathMLResets ReadOnlyStays MarkerReturns UndoReturns
CHECK_DEADLOCK FALSE
