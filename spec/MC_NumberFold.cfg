SPECIFICATION Spec
CONSTANTS MaxLen = 9
INVARIANTS Partition RequiredIsNumber ForbiddenIsNotNumber NumberXorNot Emit
CHECK_DEADLOCK FALSE
