SPECIFICATION Spec
CONSTANTS MaxLen = 7
INVARIANTS Partition RequiredIsNumber ForbiddenIsNotNumber NumberXorNot Emit
CHECK_DEADLOCK FALSE
