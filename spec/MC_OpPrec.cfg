SPECIFICATION Spec
CONSTANTS
  MaxLen = 5
  Syms = {"=", "<", "+", "-", "x", ",", "~", "!", "!!", "(", ")", "?", ";", "|"}
  PlusS = "+"
  MinusS = "-"
  TimesS = "x"
  ItS = "it"
  FenceS = "$"
  NoneS = "#none"
  DefaultS = "#default"
  OpenTestAsPrefix = TRUE
  BarSyms = {"|", "||"}
  LooksPastNextOperator = FALSE
INVARIANTS OneFrame Rebracketing RowsOk
CHECK_DEADLOCK FALSE
