SPECIFICATION Spec
CONSTANTS
  MaxLen = 5
  Syms = {"=", "<", "+", "-", "x", ",", "~", "!", "!!", "(", ")", "?", ";", "|"}
  PlusS = "+"
  MinusS = "-"
  TimesS = "x"
  ItS = "it"
  FenceS = "$"
  NoneS = "#none"
  DefaultS = "#default"
  OpenTestAsPrefix = TRUE
  BarSyms = {"|", "||"}
  LooksPastNextOperator = FALSE
INVARIANTS Emit
CHECK_DEADLOCK FALSE
