SPECIFICATION Spec
CONSTANTS TypedDispatch = FALSE NavWritesBack = {"userString"}
INVARIANTS NoPanic ReadBack UnknownRejected WrongKindRejected KindsStable NothingCreated
PROPERTIES ErrChangesNothing OthersUntouched PersistsAcrossSetMathML
CHECK_DEADLOCK FALSE
