SPECIFICATION Spec
CONSTANT TypedDispatch = TRUE
INVARIANTS NoPanic ReadBack UnknownRejected WrongKindRejected KindsStable NothingCreated
PROPERTIES ErrChangesNothing OthersUntouched PersistsAcrossSetMathML
CHECK_DEADLOCK FALSE
