SPECIFICATION Spec
CONSTANTS TypedDispatch = TRUE NavWritesBack = {"userString"}
INVARIANTS NoPanic ReadBack UnknownRejected WrongKindRejected KindsStable NothingCreated
PROPERTIES ErrChangesNothing OthersUntouched PersistsAcrossSetMathML NavigationTouchesOnlyItsOwn
CHECK_DEADLOCK FALSE
