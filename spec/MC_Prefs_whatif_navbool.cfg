SPECIFICATION Spec
CONSTANTS TypedDispatch = TRUE NavWritesBack = {"userString", "userBool"}
INVARIANTS KindsStable
CHECK_DEADLOCK FALSE
