SPECIFICATION Spec
CONSTANTS
  Styles = {"Off", "FirstChar", "EndPoints", "All"}
  MaxProbes = 3
  EarlyReturnSkipsRestore = TRUE
INVARIANTS PrefRestored ProbesBounded
CHECK_DEADLOCK FALSE
