SPECIFICATION Spec
CONSTANTS
  Styles = {"Off", "FirstChar", "EndPoints", "All"}
  MaxProbes = 3
  EarlyReturnSkipsRestore = FALSE
INVARIANTS PrefRestored ProbesBounded
CHECK_DEADLOCK FALSE
