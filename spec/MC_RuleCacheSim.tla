--------------------------- MODULE MC_RuleCacheSim ---------------------------
EXTENDS RuleCache, Json
VARIABLE hist
HInit == Init /\ hist = <<[name |-> "init", arg |-> lang, res |-> code, stale |-> FALSE]>>
HNext == Next /\ hist' = Append(hist, act')
HSpec == HInit /\ [][HNext]_<<vars, hist>>
ExportLen == 22
Export == Len(hist) = ExportLen => PrintT(<<"REPLAY", ToJson(hist)>>)
=============================================================================
