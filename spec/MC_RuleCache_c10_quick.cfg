SPECIFICATION Spec
CONSTANTS
  Langs = {"en", "engb", "es"}
  Codes = {"Nemeth"}
  MaxClock = 4
  RegionSharesRules = TRUE
  Faults = FALSE
  MaxDamage = 0
  FullFlagInverted = FALSE
INVARIANTS TypeOK Fresh
CHECK_DEADLOCK FALSE
