SPECIFICATION Spec
CONSTANTS
  Langs = {"en", "engb", "es"}
  Codes = {"Nemeth"}
  MaxClock = 4
  RegionSharesRules = TRUE
  Faults = FALSE
  MaxDamage = 0
  FailedLoadKeepsRecord = FALSE
  RepointKeepsTables = FALSE
  FullFlagInverted = FALSE
INVARIANTS TypeOK Fresh
CHECK_DEADLOCK FALSE
