SPECIFICATION Spec
CONSTANTS
  Langs = {"en"}
  Codes = {"Nemeth"}
  MaxClock = 3
  RegionSharesRules = TRUE
  Faults = TRUE
  MaxDamage = 1
  FailedLoadKeepsRecord = FALSE
  RepointKeepsTables = FALSE
  FullFlagInverted = TRUE
INVARIANTS TypeOK RecoveredUnderAll NoErrorWhenAllGood RecoveredAfterRepoint
CHECK_DEADLOCK FALSE
