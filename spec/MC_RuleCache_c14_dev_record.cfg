SPECIFICATION Spec
CONSTANTS
  Langs = {"en", "es"}
  Codes = {"Nemeth"}
  MaxClock = 3
  RegionSharesRules = TRUE
  Faults = TRUE
  MaxDamage = 1
  FailedLoadKeepsRecord = TRUE
  RepointKeepsTables = FALSE
  FullFlagInverted = FALSE
INVARIANTS TypeOK RecoveredUnderAll NoErrorWhenAllGood RecoveredAfterRepoint
CHECK_DEADLOCK FALSE
