SPECIFICATION Spec
CONSTANTS
  Langs = {"en", "es"}
  Codes = {"Nemeth"}
  MaxClock = 3
  RegionSharesRules = TRUE
  Faults = TRUE
  MaxDamage = 1
  FullFlagInverted = FALSE
INVARIANTS TypeOK RecoveredUnderAll NoErrorWhenAllGood
CHECK_DEADLOCK FALSE
