SPECIFICATION Spec
CONSTANTS AutoGuardOnBothBranches = TRUE
INVARIANTS ExplicitMarkWins AutoFollowsLanguage
PROPERTIES LastValueWins
CHECK_DEADLOCK FALSE
