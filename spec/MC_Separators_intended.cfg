SPECIFICATION Spec
CONSTANTS AutoGuardOnBothBranches = FALSE
INVARIANTS ExplicitMarkWins AutoFollowsLanguage
PROPERTIES LastValueWins
CHECK_DEADLOCK FALSE
