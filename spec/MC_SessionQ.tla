----------------------------- MODULE MC_SessionQ -----------------------------
EXTENDS Session
MC_Exprs == {"e1", "e2"}
MC_NodesOf == [e \in MC_Exprs |-> IF e = "e1" THEN {"a0", "a1"} ELSE {"b0", "b1"}]
MC_RootOf == [e \in MC_Exprs |-> IF e = "e1" THEN "a0" ELSE "b0"]
=============================================================================
