---------------------------- MODULE MC_SessionSim ----------------------------
(***************************************************************************)
(* M2 for the umbrella specification: behaviours of Session.tla drawn by   *)
(* TLC (-simulate) become the SCHEDULES of real sessions.  A history       *)
(* variable records, per step, what the step was as far as a driver can    *)
(* reproduce it: the entry point and its answer, the preference values,    *)
(* which expression, the rule files on disk, whether the step undid a move *)
(* or set / went to a place marker.  Where a move lands is data of the     *)
(* navigation rules - the driver sends SOME command and the recording is   *)
(* judged by Trace_Session like every other walk.  History is only used    *)
(* with -simulate (it would multiply the states of an exhaustive run).     *)
(***************************************************************************)
EXTENDS Session, Json
VARIABLE hist
MC_Exprs == {"e1", "e2"}
MC_NodesOf == [e \in MC_Exprs |-> IF e = "e1" THEN {"a0", "a1", "a2"} ELSE {"b0", "b1"}]
MC_RootOf == [e \in MC_Exprs |-> IF e = "e1" THEN "a0" ELSE "b0"]
Depth == 40
Step == [op |-> IF file' # file THEN "environment" ELSE last'.op, res |-> last'.res,
         lang |-> lang', code |-> code', highlight |-> highlight', checkAll |-> checkAll', expr |-> expr', pos |-> pos',
         newExpr |-> (last'.op = "set_mathml" /\ last'.res = "ok"),
         undo |-> (Len(stack') < Len(stack) /\ last'.op = "do_navigate_command"),
         marked |-> (markers' # markers), toMarker |-> (last'.op = "do_navigate_command" /\ pos' \in markers /\ pos' # pos),
         navNodeKnown |-> (last'.op = "set_navigation_node" /\ last'.res = "ok"),
         file |-> file']
SimInit == Init /\ hist = <<>>
SimNext == Next /\ hist' = Append(hist, Step)
SimSpec == SimInit /\ [][SimNext]_<<vars, hist>>
Emit == Len(hist) < Depth \/ PrintT(<<"REPLAY", ToJson(hist)>>)
=============================================================================
