SPECIFICATION Spec
CONSTANTS
  Exprs <- MC_Exprs
  NodesOf <- MC_NodesOf
  RootOf <- MC_RootOf
  Langs = {"en", "fi"}
  Codes = {"Nemeth"}
  MaxStack = 1
  MaxVer = 2
  NewExprKeepsMarkers = TRUE
  RouteLeaksOverrideOnErr = FALSE
  SameDirKeepsTables = FALSE
INVARIANTS TypeOK NavInExpr
PROPERTIES AnswerIsFresh AnswerIsFreshBraille QueriesKeepPreferences RecoversAfterRepair
CHECK_DEADLOCK FALSE
