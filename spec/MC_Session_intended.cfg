SPECIFICATION Spec
CONSTANTS
  Exprs <- MC_Exprs
  NodesOf <- MC_NodesOf
  RootOf <- MC_RootOf
  Langs = {"en", "fi"}
  Codes = {"Nemeth", "UEB"}
  MaxStack = 1
  MaxVer = 2
  NewExprKeepsMarkers = FALSE
  RouteLeaksOverrideOnErr = FALSE
  SameDirKeepsTables = FALSE
INVARIANTS TypeOK NavInExpr
PROPERTIES AnswerIsFresh AnswerIsFreshBraille QueriesKeepPreferences RecoversAfterRepair
CHECK_DEADLOCK FALSE
