SPECIFICATION SimSpec
CONSTANTS
  Exprs <- MC_Exprs
  NodesOf <- MC_NodesOf
  RootOf <- MC_RootOf
  Langs = {"en", "fi", "sv"}
  Codes = {"Nemeth", "UEB"}
  MaxStack = 3
  MaxVer = 8
  NewExprKeepsMarkers = FALSE
  RouteLeaksOverrideOnErr = FALSE
  SameDirKeepsTables = FALSE
INVARIANTS Emit
CHECK_DEADLOCK FALSE
