SPECIFICATION Spec
CONSTANTS
  IsRepetitiveAsBuilt = TRUE
  MaxLen = 3
INVARIANTS OperandsKept NoMarkers
CHECK_DEADLOCK FALSE
