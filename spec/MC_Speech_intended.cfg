SPECIFICATION Spec
CONSTANTS
  IsRepetitiveAsBuilt = FALSE
  MaxLen = 3
INVARIANTS OperandsKept NoMarkers
CHECK_DEADLOCK FALSE
