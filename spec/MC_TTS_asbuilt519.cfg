SPECIFICATION Spec
CONSTANT Sapi5EndTagsAsBuilt = TRUE
INVARIANTS WellNested OnlyEngineTags WordsUnchanged NoMarkupWithoutEngine
CHECK_DEADLOCK FALSE
