SPECIFICATION Spec
CONSTANT Sapi5EndTagsAsBuilt = FALSE
INVARIANTS WellNested OnlyEngineTags WordsUnchanged NoMarkupWithoutEngine
CHECK_DEADLOCK FALSE
