SPECIFICATION Spec
CONSTANT MaxDepth = 5
INVARIANT ExportDeep
CHECK_DEADLOCK FALSE
