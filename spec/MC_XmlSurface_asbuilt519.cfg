SPECIFICATION Spec
CONSTANTS EntityRegexAllowsDigits = FALSE FirstDeclarationBecomesDefault = TRUE
INVARIANTS KnownNamesResolve
CHECK_DEADLOCK FALSE
