SPECIFICATION Spec
CONSTANTS EntityRegexAllowsDigits = FALSE
INVARIANTS KnownNamesResolve
CHECK_DEADLOCK FALSE
