SPECIFICATION Spec
CONSTANTS EntityRegexAllowsDigits = TRUE FirstDeclarationBecomesDefault = TRUE
INVARIANTS KnownNamesResolve
CHECK_DEADLOCK FALSE
