SPECIFICATION Spec
CONSTANTS EntityRegexAllowsDigits = TRUE FirstDeclarationBecomesDefault = FALSE
INVARIANTS KnownNamesResolve UnknownNameIsReported SameResult Emit
CHECK_DEADLOCK FALSE
