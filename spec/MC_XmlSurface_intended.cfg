SPECIFICATION Spec
CONSTANTS EntityRegexAllowsDigits = TRUE
INVARIANTS KnownNamesResolve UnknownNameIsReported SameResult Emit
CHECK_DEADLOCK FALSE
