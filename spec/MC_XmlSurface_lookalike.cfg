SPECIFICATION Spec
CONSTANTS EntityRegexAllowsDigits = TRUE FirstDeclarationBecomesDefault = FALSE
INVARIANTS TextIsKept
CHECK_DEADLOCK FALSE
