SPECIFICATION Spec
CONSTANTS EntityRegexAllowsDigits = TRUE
INVARIANTS TextIsKept
CHECK_DEADLOCK FALSE
