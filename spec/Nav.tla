-------------------------------- MODULE Nav --------------------------------
(***************************************************************************)
(* Navigation state machine of a MathCAT session (navigate.rs:              *)
(* NavigationState, do_navigate_command_string, apply_navigation_rules,    *)
(* pop_stack, set_navigation_node_from_id; interface.rs: set_mathml).      *)
(*                                                                         *)
(* One action per public call.  WHERE a Move/Zoom command lands is decided *)
(* by 1 800 lines of navigate.yaml and is left nondeterministic on purpose *)
(* (C11 only says: within the expression); the stack discipline around it  *)
(* is modelled literally: the initial push, the pop before                 *)
(* MoveLastLocation, the <= 3-iteration retry loop that pushes             *)
(* intermediate positions, pop_stack(count) removing them again, "push only*)
(* if Move*/Zoom* and the node changed and is not the illegal id".         *)
(* Deviations of the code from the intended design are boolean CONSTANTS.  *)
(***************************************************************************)
EXTENDS Naturals, Sequences, FiniteSets, TLC

CONSTANTS Exprs,              \* expression names
          NodesOf,            \* [Exprs -> set of node ids]; ids of different expressions are disjoint
          RootOf,             \* [Exprs -> node id]
          Markers,            \* set of place-marker indices
          MaxStack,           \* bound on stack depth (model only)
          ResetKeepsMarkers,  \* as built at 519253d: NavigationState::reset() does not clear place_markers
          IterMayNotPush,     \* environment assumption about the rules: a retried iteration may leave the stack alone
          PopStackByCount,    \* as built at 519253d: pop_stack(count) pops `count` entries below the top whoever pushed them
          MoveCmds,           \* subset of {"Move", "Zoom"}: command classes that push (model size knob)
          ReadCmds            \* subset of {"Read", "Describe", "WhereAmI", "Toggle"}: classes that never move

NotSet == "!not set"          \* ILLEGAL_NODE_ID
ASSUME \A e \in Exprs : RootOf[e] \in NodesOf[e] /\ NotSet \notin NodesOf[e]

VARIABLES expr,       \* current expression (or "none" before the first set_mathml)
          pstack,     \* position stack: sequence of node ids
          cstack,     \* command stack: sequence of command names (kept in step with pstack)
          marker,     \* [Markers -> node id or NotSet]
          act         \* what the last action was and observed: [name, from, arg]  (observation, hidden by the VIEW)
vars == <<expr, pstack, cstack, marker, act>>
View == <<expr, pstack, cstack, marker, act.name, act.from>>

NoExpr == "none"
AllNodes == UNION {NodesOf[e] : e \in Exprs}
Nodes == IF expr = NoExpr THEN {} ELSE NodesOf[expr]
Root == RootOf[expr]
\* the position every getter reports: top of the stack, or the root when the stack is empty
Pos == IF pstack = <<>> THEN Root ELSE pstack[Len(pstack)]
IsMoveCmd(c) == c \in {"Move", "Zoom", "MoveTo"}     \* starts_with("Move"|"Zoom") and not MoveLastLocation

Act(n, f, a) == [name |-> n, from |-> f, arg |-> a]

Init == /\ expr = NoExpr /\ pstack = <<>> /\ cstack = <<>>
        /\ marker = [m \in Markers |-> NotSet]
        /\ act = Act("init", NotSet, NotSet)

\* set_mathml: NAVIGATION_STATE.reset() and a new tree
SetMathML(e) ==
  /\ expr' = e /\ pstack' = <<>> /\ cstack' = <<>>
  /\ marker' = IF ResetKeepsMarkers THEN marker ELSE [m \in Markers |-> NotSet]
  /\ act' = Act("SetMathML", NotSet, e)

\* every command starts by pushing the root when the stack is empty
Started(ps, cs) == IF ps = <<>> THEN <<<<Root>>, <<"None">>>> ELSE <<ps, cs>>

Push(st, n, c) == <<Append(st[1], n), Append(st[2], c)>>
PopSt(st) == <<SubSeq(st[1], 1, Len(st[1]) - 1), SubSeq(st[2], 1, Len(st[2]) - 1)>>
TopN(st) == st[1][Len(st[1])]
TopC(st) == st[2][Len(st[2])]

\* one iteration of apply_navigation_rules for a Move*/Zoom* command whose rule sets NavNode to n
IterPush(st, n, c) == IF n # TopN(st) /\ n # NotSet THEN Push(st, n, c) ELSE st

\* pop_stack(count): keep the top, drop `count` entries below it if they are Move/Zoom entries
RECURSIVE DropBelow(_, _)
DropBelow(st, k) == IF k = 0 \/ st[1] = <<>> THEN st      \* (the code would panic on an empty stack: UnwrapNone below)
                    ELSE DropBelow(IF IsMoveCmd(TopC(st)) THEN PopSt(st) ELSE st, k - 1)
\* pop_stack calls top().unwrap() `count` times after its own pop: None when the stack ran empty
RECURSIVE UnwrapNone(_, _)
UnwrapNone(st, k) == IF k = 0 THEN FALSE
                     ELSE IF st[1] = <<>> THEN TRUE
                     ELSE UnwrapNone(IF IsMoveCmd(TopC(st)) THEN PopSt(st) ELSE st, k - 1)
PopStack(st, count) == IF count = 0 THEN st
                       ELSE LET tn == TopN(st) tc == TopC(st) IN Push(DropBelow(PopSt(st), count), tn, tc)

\* A Move*/Zoom* command (not MoveLastLocation, not MoveTo<n>): 1..3 iterations, targets chosen by the rules
Move(c) ==
  /\ expr # NoExpr /\ c \in MoveCmds
  /\ \E k \in 1..3 : \E t \in [1..k -> Nodes] :
       LET st0 == Started(pstack, cstack)
           st1 == IterPush(st0, t[1], c)
           st2 == IF k >= 2 THEN IterPush(st1, t[2], c) ELSE st1
           st3 == IF k >= 3 THEN IterPush(st2, t[3], c) ELSE st2
           \* assumption about the rules (IterMayNotPush = FALSE): when the loop retries, every iteration moved on and
           \* pushed; pop_stack(count) pops `count` entries below the top *whether or not* the iterations pushed them, so
           \* with IterMayNotPush = TRUE it eats entries of earlier commands (TLC: UndoReturns is then violated)
           pushedEach == (k >= 2 => (st1 # st0 /\ st2 # st1)) /\ (k >= 3 => st3 # st2)
           \* after the fix only the positions pushed by THIS command (above the stack length at its start) are intermediate
           own == Len(st0[1])
           fin == IF PopStackByCount THEN PopStack(st3, k - 1)
                  ELSE IF k = 1 \/ Len(st3[1]) <= own + 1 THEN st3
                  ELSE Push(<<SubSeq(st3[1], 1, own), SubSeq(st3[2], 1, own)>>, TopN(st3), TopC(st3))
       IN /\ (IterMayNotPush \/ pushedEach)
          /\ Len(fin[1]) <= MaxStack
          /\ pstack' = fin[1] /\ cstack' = fin[2]
          /\ act' = Act(IF PopStackByCount /\ k > 1 /\ UnwrapNone(PopSt(st3), k - 1) THEN "panic" ELSE c, Pos, t[k])
  /\ UNCHANGED <<expr, marker>>

\* MoveTo<m>: the rule sets NavNode to the marker; pushed like any Move (guarded by the illegal-id test)
MoveTo(m) ==
  /\ expr # NoExpr
  /\ LET st0 == Started(pstack, cstack)
         fin == IterPush(st0, marker[m], "MoveTo")
     IN /\ Len(fin[1]) <= MaxStack
        /\ pstack' = fin[1] /\ cstack' = fin[2]
        /\ act' = Act("MoveTo", Pos, m)
  /\ UNCHANGED <<expr, marker>>

\* MoveLastLocation: pop first, then the rule re-reads the (new) top; nothing is pushed
Undo ==
  /\ expr # NoExpr
  /\ LET st0 == Started(pstack, cstack)
         fin == PopSt(st0)
     IN pstack' = fin[1] /\ cstack' = fin[2]
  /\ act' = Act("MoveLastLocation", Pos, NotSet)
  /\ UNCHANGED <<expr, marker>>

\* Read*, Describe*, WhereAmI*, Toggle*, Exit, unknown: never push; only the initial push may happen
ReadOnly(c) ==
  /\ expr # NoExpr /\ c \in ReadCmds
  /\ LET st0 == Started(pstack, cstack) IN pstack' = st0[1] /\ cstack' = st0[2]
  /\ act' = Act(c, Pos, NotSet)
  /\ UNCHANGED <<expr, marker>>

SetPlacemarker(m) ==
  /\ expr # NoExpr
  /\ LET st0 == Started(pstack, cstack) IN pstack' = st0[1] /\ cstack' = st0[2]
  /\ marker' = [marker EXCEPT ![m] = Pos]
  /\ act' = Act("SetPlacemarker", Pos, m)
  /\ UNCHANGED expr

\* set_navigation_node(id): Err and no change for an id that is not in the expression
SetNavNode(n) ==
  /\ expr # NoExpr
  /\ IF n \in Nodes THEN pstack' = <<n>> /\ cstack' = <<"None">> ELSE UNCHANGED <<pstack, cstack>>
  /\ act' = Act("SetNavNode", Pos, n)
  /\ UNCHANGED <<expr, marker>>

Next == \/ \E e \in Exprs : SetMathML(e)
        \/ \E c \in MoveCmds : Move(c)
        \/ \E m \in Markers : MoveTo(m) \/ SetPlacemarker(m)
        \/ Undo
        \/ \E c \in ReadCmds : ReadOnly(c)
        \/ \E n \in AllNodes : SetNavNode(n)
Spec == Init /\ [][Next]_vars

---------------------------------------------------------------------------
\* C11, on the design model
TypeOK == /\ expr \in Exprs \cup {NoExpr}
          /\ Len(pstack) = Len(cstack)                       \* "these two stacks should be kept in sync"
PosInExpr == expr # NoExpr => Pos \in Nodes                  \* navigation rests on a node of the current expression
StackInExpr == expr # NoExpr => \A i \in 1..Len(pstack) : pstack[i] \in Nodes
BottomIsNone == pstack # <<>> => cstack[1] = "None"          \* pop_stack's top().unwrap() can never hit an empty stack
NoPanic == act.name # "panic"                                \* no Option::unwrap() on None in pop_stack
MarkersInExpr == expr # NoExpr => \A m \in Markers : marker[m] = NotSet \/ marker[m] \in Nodes

SetMathMLResets == [][act'.name = "SetMathML" => (Pos' = Root' /\ pstack' = <<>>)]_vars
ReadOnlyStays == [][act'.name \in {"Read", "Describe", "WhereAmI", "Toggle", "SetPlacemarker"} => Pos' = act'.from]_vars
MarkerReturns == [][(act'.name = "MoveTo" /\ marker[act'.arg] # NotSet) => Pos' = marker[act'.arg]]_vars
\* undoing the last move returns to the node that was current before that move
UndoReturns == [][(act'.name = "MoveLastLocation" /\ act.name \in {"Move", "Zoom", "MoveTo"} /\ Pos # act.from)
                    => Pos' = act.from]_vars
=============================================================================
