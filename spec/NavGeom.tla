------------------------------ MODULE NavGeom ------------------------------
(***************************************************************************)
(* Geometry of navigation: WHERE the commands may land, as laws over the   *)
(* tree of the expression (Nav.tla leaves the landing node open; this      *)
(* module says what every mode's rules in navigate.yaml have in common).   *)
(*                                                                         *)
(* A tree is given by preorder intervals: node i (1..N in document order)  *)
(* spans lo = i .. hi[i]; j is inside i iff i <= j /\ hi[j] <= hi[i].      *)
(* Laws (one action per command family):                                   *)
(*   ZoomIn, ZoomInAll      land inside the current node (or stay)         *)
(*   ZoomOut, ZoomOutAll    land on a node that contains the current one   *)
(*   MoveNext, MoveEnd ...  stay, or land on a node that starts after the  *)
(*                          START of the current one and is not one of its *)
(*                          ancestors (no backward step, no zoom out)      *)
(*   MovePrevious ...       the mirror image                               *)
(*   MoveStart, MoveLineStart   stay, or land on a node that is not an     *)
(*                          ancestor and does not start behind the current *)
(*                          node's end (the first place IN a container, or *)
(*                          an earlier place); MoveEnd ... the mirror image*)
(* Consequences TLC checks on every ordered tree of up to MaxN nodes: a    *)
(* sweep of forward (backward) moves changes the position at most N - 1    *)
(* times, a chain of ZoomOut at most Depth times - the loops a screen      *)
(* reader runs over an expression terminate.                               *)
(***************************************************************************)
EXTENDS Naturals, FiniteSets, TLC

CONSTANTS MaxN,
          EdgeZoomOut   \* as observed in the shipped rules (19 of 5 089 recorded moves): at the edge of a 2-D structure a move may land on an
                        \* ancestor of the current node.  With it the laws no longer imply that sweeps terminate (TLC: SweepsTerminate is violated -
                        \* out to the ancestor, in again, along, out ...); termination then rests on the mode's rules, not on geometry
VARIABLES n,      \* number of nodes of the expression
          hi,     \* [1..n -> 1..n]: last node of the subtree of i
          pos,    \* current node
          run,    \* [kind, len]: how many times in a row commands of one direction have changed the position
          last    \* the last command family (observation)
gvars == <<n, hi, pos, run, last>>

IsTree(m, h) == /\ h[1] = m
                /\ \A i \in 1..m : h[i] >= i /\ \A j \in (i + 1)..h[i] : h[j] <= h[i]
Inside(h, a, b) == b <= a /\ h[a] <= h[b]                 \* a is b or a descendant of b
Depth(h, a) == Cardinality({b \in 1..a : Inside(h, a, b)}) - 1
\* the landing laws, as predicates on (tree, before, after)
LandsInside(h, b, a) == Inside(h, a, b)
LandsOutside(h, b, a) == Inside(h, b, a)
LandsForward(h, b, a) == a = b \/ (a > b /\ ~Inside(h, b, a))      \* starts later; (a > b already excludes ancestors: they start earlier)
LandsBackward(h, b, a) == a = b \/ (a < b /\ ~Inside(h, b, a))     \* starts earlier and is not an ancestor
LandsAtStart(h, b, a) == a = b \/ (~Inside(h, b, a) /\ a <= h[b])  \* inside the current node or before it, never an ancestor
LandsAtEnd(h, b, a) == a = b \/ (~Inside(h, b, a) /\ h[a] >= b)    \* inside the current node or behind it, never an ancestor

Init == /\ n \in 1..MaxN
        /\ hi \in [1..n -> 1..n] /\ IsTree(n, hi)
        /\ pos = 1 /\ run = <<"none", 0>> /\ last = "init"
Step(kind, law(_, _, _)) ==
  \E a \in 1..n : /\ (law(hi, pos, a) \/ (EdgeZoomOut /\ kind \notin {"in", "out"} /\ Inside(hi, pos, a)))
                  /\ pos' = a /\ last' = kind
                  /\ run' = IF a = pos THEN run ELSE IF run[1] = kind THEN <<kind, run[2] + 1>> ELSE <<kind, 1>>
                  /\ UNCHANGED <<n, hi>>
ZoomIn == Step("in", LandsInside)
ZoomOut == Step("out", LandsOutside)
Forward == Step("fwd", LandsForward)
Backward == Step("bwd", LandsBackward)
ToStart == Step("start", LandsAtStart)
ToEnd == Step("end", LandsAtEnd)
Next == ZoomIn \/ ZoomOut \/ Forward \/ Backward \/ ToStart \/ ToEnd
Spec == Init /\ [][Next]_gvars

InTree == pos \in 1..n
SweepsTerminate == (run[1] \in {"fwd", "bwd"} => run[2] <= n - 1)
\* (a start / end command may first step into the current node and then along it: twice the bound)
StartEndTerminate == (run[1] \in {"start", "end"} => run[2] <= 2 * (n - 1))
ZoomChainsTerminate == (run[1] \in {"in", "out"} => run[2] <= n - 1)
\* zooming out k times in a row from a node of depth d: k <= d
ZoomOutBoundedByDepth == (run[1] = "out" => Depth(hi, pos) + run[2] <= n - 1)
=============================================================================
