----------------------------- MODULE NumberFold -----------------------------
(***************************************************************************)
(* C16: which token sequences are one number of the locale, and what the   *)
(* canonical form owes them.                                               *)
(*                                                                         *)
(* A written number is a sequence over  d (a digit)  b (a digit-group      *)
(* separator of the locale)  m (the locale's decimal mark).  A generator   *)
(* may cut it at its separators: sep[i] = "own" (the separator is a token  *)
(* of its own, mo or mtext) or "glued" (it stays inside the mn with its    *)
(* neighbours).  The case also names the surrounding context.              *)
(*                                                                         *)
(*  Required   the written number is in the locale grammar and the context *)
(*             does not make it a list: the canonical MathML (and hence    *)
(*             speech and braille) equals that of the same number written  *)
(*             as one mn.                                                  *)
(*  Forbidden  clearly not one number (a group of 1-2 digits after a block *)
(*             separator, two decimal marks, adjacent separators), or a    *)
(*             comma-separated sequence directly inside fences: no mn of   *)
(*             the canonical form may contain a separator that was a token *)
(*             of its own.                                                 *)
(*  Unspecified everything else (recorded, judged by no one).              *)
(***************************************************************************)
EXTENDS Naturals, Sequences, FiniteSets, TLC, Json

Contexts == {"alone", "sum-right", "sum-left", "argument", "exponent", "numerator", "denominator", "sentence-end",
             "in-parens", "in-set", "two-arguments", "expression-end",
             "sum-after-open-fence", "sum-before-close-fence"}       \* ( N + x )  and  ( x + N ): a summand next to ONE fence is no list
FencedList == {"in-parens", "in-set", "two-arguments"}
StartsRow == {"alone", "sum-left", "exponent", "numerator", "denominator"}          \* the number is the first thing of its row

IsD(c) == c = "d"
\* the positions of the separators
Seps(w) == {i \in 1..Len(w) : w[i] # "d"}
RECURSIVE DigitRun(_, _)
DigitRun(w, i) == IF i > Len(w) \/ w[i] # "d" THEN 0 ELSE 1 + DigitRun(w, i + 1)     \* digits from position i on

(* the integer part: digits only, or a lead group of 1-3 digits followed by groups of exactly 3 *)
RECURSIVE Groups(_, _)
Groups(w, i) ==       \* w[i] is expected to be b followed by exactly three digits, repeatedly, to the end of w
  IF i > Len(w) THEN TRUE
  ELSE w[i] = "b" /\ DigitRun(w, i + 1) = 3 /\ Groups(w, i + 4)
IntegerPart(w) == \/ (Len(w) > 0 /\ \A i \in 1..Len(w) : w[i] = "d")
                  \/ (DigitRun(w, 1) \in 1..3 /\ Len(w) > DigitRun(w, 1) /\ Groups(w, DigitRun(w, 1) + 1))
(* the fraction: digits only *)
FractionPart(w) == \A i \in 1..Len(w) : w[i] = "d"
Marks(w) == {i \in 1..Len(w) : w[i] = "m"}
\* one number of the locale grammar
InGrammar(w) ==
  /\ Cardinality(Marks(w)) <= 1
  /\ IF Marks(w) = {} THEN IntegerPart(w)
     ELSE LET k == CHOOSE i \in Marks(w) : TRUE
              int == SubSeq(w, 1, k - 1) frac == SubSeq(w, k + 1, Len(w))
          IN /\ (int = <<>> \/ IntegerPart(int))
             /\ FractionPart(frac)
             /\ (int # <<>> \/ frac # <<>>)
\* clearly not one number
NotANumber(w) ==
  \/ Cardinality(Marks(w)) >= 2
  \/ \E i \in 1..(Len(w) - 1) : w[i] # "d" /\ w[i + 1] # "d"
  \/ \E i \in 1..Len(w) : w[i] = "b" /\ DigitRun(w, i + 1) \in {1, 2} /\ (i + DigitRun(w, i + 1) = Len(w) \/ w[i + DigitRun(w, i + 1) + 1] = "b")
                          /\ \A j \in 1..i : w[j] # "m"
\* (a group separator inside the fraction is neither: the statement's grammar has no grouped fraction, the as-built patterns
\*  accept blocks of 3-5 digits there - Unspecified)

Class(c) ==
  LET w == c.w
      ownSeps == {i \in Seps(w) : c.sep[i] = "own"}
      \* the commas that are tokens of their own: they may as well separate list items or end a clause
      commaOwn == \E i \in ownSeps : (w[i] = "b" /\ c.blockIsComma) \/ (w[i] = "m" /\ c.markIsComma)
      edgeCommaOwn == \E i \in ownSeps : i \in {1, Len(w)} /\ ((w[i] = "b" /\ c.blockIsComma) \/ (w[i] = "m" /\ c.markIsComma))
      trailingMarkOwn == w[Len(w)] = "m" /\ Len(w) \in ownSeps
      \* the statement's grammar has an optional LEADING decimal mark; as a token of its own a leading comma is only unambiguous
      \* where nothing stands in front of it in its row, and it is the only own comma
      leadingMarkStartsRow == /\ w[1] = "m" /\ 1 \in ownSeps /\ c.markIsComma /\ c.ctx \in StartsRow
                              /\ \A i \in ownSeps \ {1} : ~((w[i] = "b" /\ c.blockIsComma) \/ (w[i] = "m" /\ c.markIsComma))
  IN
  IF ownSeps = {} THEN "Unspecified"                                       \* nothing was split
  ELSE IF NotANumber(w) THEN "Forbidden"
  ELSE IF c.ctx \in FencedList /\ commaOwn THEN "Forbidden"               \* a comma-separated list inside fences is left as a list
  ELSE IF c.ctx \in FencedList THEN "Unspecified"
  ELSE IF c.ctx = "argument" /\ commaOwn THEN "Unspecified"              \* f(x, 1,234): which commas separate arguments?
  ELSE IF ~InGrammar(w) THEN "Unspecified"
  ELSE IF trailingMarkOwn THEN "Unspecified"                              \* '5' '.': a number with a trailing mark, or 5 and a full stop?
  ELSE IF edgeCommaOwn /\ ~leadingMarkStartsRow THEN "Unspecified"        \* ', 5': punctuation or a decimal comma?
                                                                          \* (at the start of its row it is the number's: ',5 + x')
  ELSE "Required"

(***************************************************************************)
(* Enumeration for TLC: all written forms up to MaxLen, all cuts, all      *)
(* contexts.                                                               *)
(***************************************************************************)
CONSTANTS MaxLen
VARIABLES w, done
Init == w = <<>> /\ done = FALSE
Extend == ~done /\ Len(w) < MaxLen /\ \E ch \in {"d", "b", "m"} : w' = Append(w, ch) /\ done' = FALSE
Stop == ~done /\ Len(w) >= 2 /\ w[1] # "b" /\ w[Len(w)] # "b" /\ Seps(w) # {} /\ done' = TRUE /\ w' = w
Next == Extend \/ Stop
Spec == Init /\ [][Next]_<<w, done>>

Cuts(v) == [Seps(v) -> {"own", "glued"}]
Cases(v) == {[w |-> v, sep |-> s, ctx |-> x, blockIsComma |-> bc, markIsComma |-> mc] :
                 s \in Cuts(v), x \in Contexts, bc \in BOOLEAN, mc \in BOOLEAN}
\* design-level sanity: the three classes are a partition, Required implies the written form is a number, Forbidden implies it is
\* not one or sits in a fenced comma list, and each class is inhabited at this bound
Partition == done => \A c \in Cases(w) : Class(c) \in {"Required", "Forbidden", "Unspecified"}
RequiredIsNumber == done => \A c \in Cases(w) : Class(c) = "Required" => InGrammar(c.w) /\ ~NotANumber(c.w)
ForbiddenIsNotNumber == done => \A c \in Cases(w) : Class(c) = "Forbidden" => NotANumber(c.w) \/ (c.ctx \in FencedList /\ (c.blockIsComma \/ c.markIsComma))
NumberXorNot == done => ~(InGrammar(w) /\ NotANumber(w))
Emit == done => PrintT(<<"REPLAY", ToJson([w |-> w, number |-> InGrammar(w), notNumber |-> NotANumber(w)])>>)
=============================================================================
