------------------------------- MODULE OpPrec -------------------------------
(* C03, design level: the parser of OpPrecOps on EVERY token sequence up to MaxLen over a class alphabet with a
   representative dictionary (real entries of operator-info.in): the parse is a re-bracketing of the input, ends with one stack
   frame, and - for well-formed sequences - satisfies the row invariants of the property. *)
EXTENDS OpPrecOps, Json
CONSTANTS MaxLen, Syms,
          LooksPastNextOperator   \* TRUE: the property as stated (every well-formed row); FALSE: as built - rows in which an operator
                                  \* whose form depends on what follows is followed by another operator are outside the class
E(f, p) == [form |-> f, prio |-> p]
Dict == [s \in Syms |->
          CASE s = "=" -> <<E("infix", 260)>>
            [] s = "<" -> <<E("infix", 260)>>
            [] s = "+" -> <<E("infix", 280), E("prefix", 690)>>
            [] s = "-" -> <<E("infix", 280), E("prefix", 690)>>
            [] s = "x" -> <<E("infix", 390)>>                 \* the times sign
            [] s = "," -> <<E("infix", 40)>>
            [] s = ";" -> <<E("infix", 30), E("postfix", 30)>>
            [] s = "^" -> <<E("infix", 380)>>                 \* logical and
            [] s = "~" -> <<E("prefix", 230)>>                \* logical not
            [] s = "!" -> <<E("prefix", 230), E("postfix", 810)>>
            [] s = "!!" -> <<E("postfix", 810)>>
            [] s = "|" -> <<E("infix", 70), E("lfence", 20), E("rfence", 20)>>
            [] s = "||" -> <<E("lfence", 20), E("rfence", 20)>>       \* U+2016
            [] s = "(" -> <<E("lfence", 20)>>
            [] s = ")" -> <<E("rfence", 20)>>
            [] s = "?" -> <<>>                                \* not in the dictionary
            [] s = "??" -> <<>>
            [] OTHER -> <<E("infix", 260)>> ]
T(s) == IF s = "a" THEN [k |-> "x"] ELSE [k |-> "o", s |-> s, chain |-> Dict[s]]
VARIABLE toks
Init == toks = <<>>
Next == /\ Len(toks) < MaxLen /\ \E s \in Syms \cup {"a"} : toks' = Append(toks, s)
Spec == Init /\ [][Next]_toks
Toks == [i \in 1..Len(toks) |-> T(toks[i])]
Tree == Parse(Toks)
WellFormed == WellFormedToks(Toks, ~LooksPastNextOperator)
OneFrame == Len(toks) > 0 => Tree.t # "STACK"
\* the parse only adds brackets and invisible times: the leaves are the tokens in order
Rebracketing == Len(toks) > 0 /\ Tree.t # "STACK" =>
    LET lv == SelectSeq(Leaves(Tree), LAMBDA n : ~(n.t = "o" /\ n.s = ItS)) IN
    /\ Len(lv) = Len(toks)
    /\ \A i \in 1..Len(toks) : IF toks[i] = "a" THEN lv[i].t = "x" ELSE lv[i].t = "o" /\ lv[i].s = toks[i]
RowsOk == WellFormed => WellBracketed(Tree)
Emit == Len(toks) > 0 => PrintT(<<"REPLAY", ToJson([toks |-> toks, wf |-> WellFormed, tree |-> Strip(Tree)])>>)
=============================================================================
