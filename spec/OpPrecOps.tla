----------------------------- MODULE OpPrecOps -----------------------------
(***************************************************************************)
(* The shift/reduce operator-precedence parser of canonicalize.rs          *)
(* (canonicalize_mrows_in_mrow, find_operator, compute_type_from_position, *)
(* find_operator_info, is_nary, shift_stack, reduce_stack,                 *)
(* reduce_stack_one_time, add_child_to_mrow) on plain rows: a row is a     *)
(* sequence of tokens, each an operand or an mo.                           *)
(*                                                                         *)
(* token     [k |-> "x"]                                operand            *)
(*           [k |-> "o", s |-> sym, chain |-> <<e1, ..>>] mo; chain = its   *)
(*                 operator-dictionary entries in order (<<>>: not listed)  *)
(* entry     [form |-> "prefix"|"infix"|"postfix"|"lfence"|"rfence", prio]  *)
(* tree      [t |-> "x"] | [t |-> "o", s |-> sym] | [t |-> "r", kids |-> <<tree..>>] *)
(***************************************************************************)
EXTENDS Naturals, Sequences, FiniteSets, TLC
CONSTANTS PlusS, MinusS, TimesS, ItS,       \* the symbols of + - x and U+2062 in the representation of the tokens
          FenceS, NoneS, DefaultS,          \* three values of the same kind that are no symbol (ids of the fencepost, "no operator", unlisted)
          BarSyms,                          \* AMBIGUOUS_OPERATORS: the symbols of | U+2225 U+2016
          OpenTestAsPrefix                  \* TRUE: when a closing fence arrives, "did this row start with an opening fence?" looks the
                                            \* first mo up as a prefix (the code since the fix); FALSE: pinned commit - as an infix, so a row
                                            \* opened by | is not recognised and the stack keeps a frame too many (assertion at the end)

Op(id, f, p) == [id |-> id, form |-> f, prio |-> p]
ItOp == Op(<<ItS, 1>>, "infix", 390)                         \* IMPLIED_TIMES = OPERATORS[U+2062]
Fencepost == Op(<<FenceS, 0>>, "lfence", 0)                     \* LEFT_FENCEPOST
NoOp == Op(<<NoneS, 0>>, "none", 999)                           \* ILLEGAL_OPERATOR_INFO: "this child is an operand"

IsPrefix(o)  == o.form \in {"prefix", "lfence"}              \* LEFT_FENCE = PREFIX | FENCE
IsPostfix(o) == o.form \in {"postfix", "rfence"}             \* RIGHT_FENCE = POSTFIX | FENCE
IsInfix(o)   == o.form = "infix"
Matches(e, t) == CASE t = "prefix" -> e.form \in {"prefix", "lfence"}
                   [] t = "postfix" -> e.form \in {"postfix", "rfence"}
                   [] OTHER -> e.form = "infix"
(* Identity of a dictionary entry, as is_nary's ptr_eq sees it.  The first entry of a symbol lives in the phf map and is its own
   object.  The later entries are promoted constants ('next: &Some(OperatorInfo{..})'): the compiler merges constants with equal
   contents, so the second entries of '_' and '____' (INFIX 900, next None) are ONE object - two such operators are "the same
   n-ary operator" for shift_stack.  (Observed: a _ x ____ y stays one flat row.) *)
FormCode(f) == CASE f = "prefix" -> 1 [] f = "infix" -> 2 [] f = "postfix" -> 3 [] f = "lfence" -> 4 [] OTHER -> 5
EntryCode(e) == FormCode(e.form) + 10 * e.prio
EntryId(tk, i) == IF i = 1 THEN <<tk.s, 1>>
                  ELSE <<DefaultS, 10 + EntryCode(tk.chain[i]) + (IF i < Len(tk.chain) THEN 100000 * EntryCode(tk.chain[i + 1]) ELSE 0)>>
(* find_operator + find_operator_info + op_not_in_operator_dictionary (no form attribute) *)
FindInfo(tok, t) ==
  LET ch == tok.chain
      hits == {i \in 1..Len(ch) : Matches(ch[i], t)}
      i == IF hits = {} THEN 1 ELSE CHOOSE j \in hits : \A k \in hits : j <= k
  IN IF ch = <<>> THEN Op(<<DefaultS, IF t = "prefix" THEN 1 ELSE IF t = "postfix" THEN 3 ELSE 2>>, t, 260)         \* every unlisted operator shares the three default entries
     ELSE Op(EntryId(tok, i), ch[i].form, ch[i].prio)
PlusMinus(o) == o.id \in {<<PlusS, 1>>, <<MinusS, 1>>}       \* ptr_eq(PLUS) / ptr_eq(MINUS): the infix entries
IsTimes(o)   == o.id \in {<<ItS, 1>>, <<TimesS, 1>>}
Nary(cur, prev) == cur.id = prev.id \/ (PlusMinus(cur) /\ PlusMinus(prev)) \/ (IsTimes(cur) /\ IsTimes(prev))

Opd == [t |-> "x"]
Mo(tok) == [t |-> "o", s |-> tok.s, chain |-> tok.chain]
ItTok == [s |-> ItS, chain |-> <<[form |-> "infix", prio |-> 390]>>]
Row(k) == [t |-> "r", kids |-> k, ad |-> 1]        \* ad = 1: a row made by the parser (data-changed='added'); 0: the author's own mrow
Frame(items, op, isOpd) == [items |-> items, op |-> op, isOpd |-> isOpd]
Top(st) == st[Len(st)]
Pop(st) == SubSeq(st, 1, Len(st) - 1)
Front(s) == SubSeq(s, 1, Len(s) - 1)
Last(s) == s[Len(s)]
Add(f, child, op) == IF op = NoOp THEN Frame(Append(f.items, child), f.op, TRUE)
                     ELSE Frame(Append(f.items, child), op, FALSE)

ReduceOne(st) == LET top == Top(st)
                     m == IF Len(top.items) = 1 THEN top.items[1] ELSE Row(top.items)
                     below == Top(Pop(st))
                 IN Append(Pop(Pop(st)), Add(below, m, NoOp))
RECURSIVE Reduce(_, _)
Reduce(st, p) == IF p < Top(st).op.prio /\ Len(st) > 1 THEN Reduce(ReduceOne(st), p) ELSE st

(* shift_stack: returns [st, child, op] *)
Shift(st, child, op) ==
  LET prev == Top(st).op IN
  IF Nary(op, prev) THEN [st |-> st, child |-> child, op |-> op]
  ELSE LET top == Top(st) rest == Pop(st) IN
       IF top.items = <<>> \/ (~top.isOpd /\ op.form # "rfence")
       THEN [st |-> Append(st, Frame(<<>>, Fencepost, FALSE)), child |-> child, op |-> op]
       ELSE IF op.form = "rfence"
       THEN LET kids == Append(top.items, child)
                first == kids[1]
                startsWithOpen == first.t = "o" /\ FindInfo([s |-> first.s, chain |-> first.chain], IF OpenTestAsPrefix THEN "prefix" ELSE "infix").form = "lfence"
            IN IF Len(kids) = 2 /\ ~startsWithOpen
               THEN [st |-> Append(rest, Frame(<<>>, Fencepost, FALSE)), child |-> Row(kids), op |-> NoOp]
               ELSE [st |-> rest, child |-> Row(kids), op |-> NoOp]
       ELSE IF IsPostfix(op)
       THEN [st |-> Append(rest, Frame(Front(top.items), top.op, FALSE)),
             child |-> Row(<<Last(top.items), child>>), op |-> NoOp]
       ELSE [st |-> Append(Append(rest, Frame(Front(top.items), top.op, FALSE)), Frame(<<Last(top.items)>>, op, FALSE)),
             child |-> child, op |-> op]

AddImplied(st) ==
  LET r == Reduce(st, ItOp.prio)
      s == Shift(r, Mo(ItTok), ItOp)
  IN Append(Pop(s.st), Add(Top(s.st), Mo(ItTok), ItOp))

(* compute_type_from_position for the mo at position i *)
OpAt(toks, i, st) ==
  LET top == Top(st)
      leftOperand == top.isOpd \/ IsPostfix(top.op)
      rightOperand == i < Len(toks) /\ toks[i + 1].k = "x"
      t == IF leftOperand /\ rightOperand THEN "infix" ELSE IF ~leftOperand /\ rightOperand THEN "prefix"
           ELSE IF leftOperand /\ ~rightOperand THEN "postfix" ELSE "infix"
  IN FindInfo(toks[i], t)

(***************************************************************************)
(* determine_vertical_bar_op: | and its relatives are an opening fence, a  *)
(* closing fence or an infix operator depending on the stack and on what   *)
(* follows.  OperatorVersions: the LAST entry of the chain for each role.  *)
(***************************************************************************)
EntryOp(tk, i) == Op(EntryId(tk, i), tk.chain[i].form, tk.chain[i].prio)
LastOf(tk, S) == IF S = {} THEN NoOp ELSE EntryOp(tk, CHOOSE i \in S : \A j \in S : j <= i)
VPrefix(tk)  == LastOf(tk, {i \in 1..Len(tk.chain) : tk.chain[i].form \in {"prefix", "lfence"}})
VInfix(tk)   == LastOf(tk, {i \in 1..Len(tk.chain) : tk.chain[i].form = "infix"})
VPostfix(tk) == LastOf(tk, {i \in 1..Len(tk.chain) : tk.chain[i].form \in {"postfix", "rfence"}})
BarOp(original, toks, i, st) ==
  LET tk == toks[i]
      top == Top(st)
      pre == VPrefix(tk) inf == VInfix(tk) post == VPostfix(tk)
      first == EntryOp(tk, 1)
      hasNext == i < Len(toks)
      leftMatch == pre # NoOp /\ (top.op.id = pre.id \/ (Len(st) > 2 /\ st[Len(st) - 1].op.id = pre.id))
      barsRight == Cardinality({j \in (i + 1)..Len(toks) : toks[j].k = "o" /\ toks[j].s = tk.s})
      nxt == toks[i + 1]
      \* find_operator(next, previous_operator = the infix version (or none), .., next_next)
      leftOperandForNext == inf = NoOp
      rightOperandForNext == i + 1 < Len(toks) /\ toks[i + 2].k = "x"
      tNext == IF leftOperandForNext /\ rightOperandForNext THEN "infix" ELSE IF ~leftOperandForNext /\ rightOperandForNext THEN "prefix"
               ELSE IF leftOperandForNext /\ ~rightOperandForNext THEN "postfix" ELSE "infix"
      nextOp == FindInfo(nxt, tNext)
  IN
  IF tk.chain = <<>> \/ tk.s \notin BarSyms THEN original
  ELSE IF pre # NoOp /\ (top.items = <<>> \/ ~top.isOpd) THEN pre
  ELSE IF post # NoOp /\ (~hasNext \/ leftMatch) THEN post
  ELSE IF ~hasNext THEN (IF inf = NoOp THEN first ELSE inf)
  ELSE IF pre # NoOp /\ barsRight % 2 = 1 THEN pre
  ELSE IF nxt.k = "o" /\ ~IsPrefix(nextOp) THEN (IF post # NoOp THEN post ELSE first)
  ELSE IF inf # NoOp THEN inf
  ELSE first

RECURSIVE Run(_, _, _)
Run(toks, i, st) ==
  IF i > Len(toks) THEN
     LET fin == Reduce(st, 0) top == Top(fin) IN
     IF Len(fin) # 1 THEN [t |-> "STACK", n |-> Len(fin)]
     ELSE IF Len(top.items) = 1 THEN top.items[1] ELSE Row(top.items)
  ELSE IF toks[i].k = "x" THEN
     LET top == Top(st)
         needImplied == top.items # <<>> /\ Last(top.items).t # "o"
         st1 == IF needImplied THEN AddImplied(st) ELSE st
     IN Run(toks, i + 1, Append(Pop(st1), Add(Top(st1), Opd, NoOp)))
  ELSE
     LET op == BarOp(OpAt(toks, i, st), toks, i, st) child == Mo(toks[i]) IN
     IF IsPrefix(op) THEN
        LET st1 == IF Top(st).isOpd THEN AddImplied(st) ELSE st
            st2 == Append(st1, Frame(<<>>, Fencepost, FALSE))
        IN Run(toks, i + 1, Append(Pop(st2), Add(Top(st2), child, op)))
     ELSE
        LET r == Reduce(st, op.prio)
            s == Shift(r, child, op)
        IN Run(toks, i + 1, Append(Pop(s.st), Add(Top(s.st), s.child, s.op)))

Parse(toks) == Run(toks, 1, <<Frame(<<>>, Fencepost, FALSE)>>)
RECURSIVE Strip(_)
Strip(n) == IF n.t = "r" THEN [t |-> "r", kids |-> [i \in 1..Len(n.kids) |-> Strip(n.kids[i])]]
            ELSE IF n.t = "o" THEN [t |-> "o", s |-> n.s] ELSE [t |-> n.t]

(***************************************************************************)
(* Part (a) of C03 on a tree whose mo leaves carry their chain:            *)
(*   [t |-> "o", s, chain]  [t |-> "x"]  [t |-> "r", kids]                 *)
(***************************************************************************)
IsMoT(n) == n.t = "o"
HasForm(n, f) == IsMoT(n) /\ \E i \in 1..Len(n.chain) : n.chain[i].form = f
Tok(n) == [s |-> n.s, chain |-> n.chain]
\* shape of a row: fenced / prefix / postfix / infix / other
Shape(r) ==
  LET k == r.kids n == Len(k) IN
  IF n \in {2, 3} /\ HasForm(k[1], "lfence") /\ HasForm(k[n], "rfence") /\ (n = 2 \/ TRUE) THEN "fenced"
  ELSE IF n = 2 /\ IsMoT(k[1]) /\ ~IsMoT(k[2]) THEN "prefix"
  ELSE IF n = 2 /\ ~IsMoT(k[1]) /\ IsMoT(k[2]) THEN "postfix"
  ELSE IF n >= 3 /\ n % 2 = 1 /\ (\A i \in 1..n : (i % 2 = 1) = ~IsMoT(k[i])) THEN "infix"
  ELSE "other"
\* priority with which the row's operator was parsed
RowPrio(r) ==
  LET k == r.kids IN
  CASE Shape(r) = "prefix" -> FindInfo(Tok(k[1]), "prefix").prio
    [] Shape(r) = "postfix" -> FindInfo(Tok(k[2]), "postfix").prio
    [] Shape(r) = "infix" -> FindInfo(Tok(k[2]), "infix").prio
    [] OTHER -> 0
AdjacentOperands(r) == \E i \in 1..(Len(r.kids) - 1) : ~IsMoT(r.kids[i]) /\ ~IsMoT(r.kids[i + 1])
MixedPriorities(r) == Shape(r) = "infix" /\ \E i, j \in 1..Len(r.kids) :
                         i % 2 = 0 /\ j % 2 = 0 /\ FindInfo(Tok(r.kids[i]), "infix").prio # FindInfo(Tok(r.kids[j]), "infix").prio
\* a nested infix/postfix row binds at least as tightly as the row that contains it
\* (a postfix row in front of an operator can only be that operator's left operand, whatever the priorities: (a') op b)
LooseChild(r) == Shape(r) \in {"infix", "prefix", "postfix"} /\
                 \E i \in 1..Len(r.kids) : /\ r.kids[i].t = "r" /\ r.kids[i].ad = 1 /\ RowPrio(r.kids[i]) < RowPrio(r)
                                            /\ (Shape(r.kids[i]) = "infix" \/ (Shape(r.kids[i]) = "postfix" /\ i > 1))
RECURSIVE RowsOf(_)
RowsOf(n) == IF n.t # "r" THEN {} ELSE {n} \cup UNION {RowsOf(n.kids[i]) : i \in 1..Len(n.kids)}
\* a row that starts with an opening and ends with a closing fence holds exactly its content
FenceEnclosesContent(r) == LET k == r.kids n == Len(k) IN
   (n >= 2 /\ IsMoT(k[1]) /\ IsMoT(k[n]) /\ FindInfo(Tok(k[1]), "prefix").form = "lfence" /\ FindInfo(Tok(k[n]), "postfix").form = "rfence") => n <= 3
WellBracketed(tree) == \A r \in RowsOf(tree) : ~AdjacentOperands(r) /\ ~MixedPriorities(r) /\ ~LooseChild(r) /\ FenceEnclosesContent(r)
(***************************************************************************)
(* The class of rows for which the row invariants are demanded.            *)
(* lenient: operand (infix operand)*, prefix operators before and postfix  *)
(*   operators after operands, balanced fences, listed operators only.     *)
(* strict: moreover every operator whose form depends on what follows      *)
(*   (one in prefix position; one that has a postfix form besides another) *)
(*   is directly followed by an operand - compute_type_from_position looks *)
(*   only at whether the next token is an mo (marked FIX in the source).   *)
(***************************************************************************)
HasF(tk, f) == \E j \in 1..Len(tk.chain) : tk.chain[j].form = f
PureOpen(tk) == tk.k = "o" /\ HasF(tk, "lfence") /\ ~HasF(tk, "infix") /\ ~HasF(tk, "rfence")
PureClose(tk) == tk.k = "o" /\ HasF(tk, "rfence") /\ ~HasF(tk, "infix") /\ ~HasF(tk, "lfence")
RECURSIVE WFT(_, _, _, _, _)
WFT(toks, i, needOperand, depth, strict) ==
  IF i > Len(toks) THEN ~needOperand /\ depth = 0
  ELSE LET tk == toks[i]
           nextIsOperand == i < Len(toks) /\ toks[i + 1].k = "x"
       IN
       IF tk.k = "x" THEN needOperand /\ WFT(toks, i + 1, FALSE, depth, strict)
       ELSE IF PureOpen(tk) THEN needOperand /\ WFT(toks, i + 1, TRUE, depth + 1, strict)
       ELSE IF PureClose(tk) THEN ~needOperand /\ depth > 0 /\ WFT(toks, i + 1, FALSE, depth - 1, strict)
       ELSE IF HasF(tk, "lfence") \/ HasF(tk, "rfence") THEN FALSE             \* vertical bars and the like
       ELSE IF needOperand THEN HasF(tk, "prefix") /\ (strict => nextIsOperand) /\ WFT(toks, i + 1, TRUE, depth, strict)
       ELSE \/ /\ HasF(tk, "postfix") /\ ~nextIsOperand /\ ~(i < Len(toks) /\ PureOpen(toks[i + 1]))
               /\ (strict => ~HasF(tk, "infix"))
               /\ WFT(toks, i + 1, FALSE, depth, strict)
            \/ /\ HasF(tk, "infix") /\ (strict /\ HasF(tk, "postfix") => nextIsOperand)
               /\ WFT(toks, i + 1, TRUE, depth, strict)
WellFormedToks(toks, strict) == Len(toks) > 0 /\ WFT(toks, 1, TRUE, 0, strict)

RECURSIVE Leaves(_)
Leaves(n) == IF n.t = "r" THEN (IF n.kids = <<>> THEN <<>> ELSE Leaves(n.kids[1]) \o Leaves([t |-> "r", kids |-> Tail(n.kids), ad |-> 1]))
             ELSE <<n>>
=============================================================================
