-------------------------------- MODULE Prefs --------------------------------
(***************************************************************************)
(* The preference store of a MathCAT session (prefs.rs: PreferenceManager  *)
(* with its two maps; interface.rs: set_preference / get_preference).      *)
(*                                                                         *)
(* Two maps name -> typed value: the user map (prefs.yaml + user defaults) *)
(* and the API map (API defaults + everything set through the API); a read *)
(* looks in the API map first.  set_preference dispatches to a boolean, a  *)
(* number or a string setter.  The as-built dispatch of the pinned commit  *)
(* (TypedDispatch = FALSE) looked at the VALUE: anything spelled           *)
(* true/false went to the boolean setter for any name; the string setter   *)
(* unwraps the stored value as a string.  The intended dispatch looks at   *)
(* the kind of the stored value.                                           *)
(***************************************************************************)
EXTENDS Naturals, Sequences, FiniteSets, TLC

CONSTANTS TypedDispatch,        \* TRUE: dispatch on the kind of the preference (after the fix); FALSE: as built at 519253d
          NavWritesBack        \* names that navigation writes back into the user map as strings

\* abstract names, one per class
Names == {"apiString", "userString", "apiBool", "userBool", "apiNumber", "unknown", "created"}
NumericByName == {"apiNumber"}                    \* the six names the as-built code routed to the float setter
Values == {"str1", "str2", "true", "false", "12.5", "bad"}     \* "bad": neither boolean nor number nor a legal string
IsBool(v) == v \in {"true", "false"}
IsNum(v) == v = "12.5"
Kind(v) == IF IsBool(v) THEN "boolean" ELSE IF IsNum(v) THEN "number" ELSE "string"
NoValue == [kind |-> "none", val |-> ""]
Val(k, v) == [kind |-> k, val |-> v]

VARIABLES user, api, alive, act
vars == <<user, api, alive, act>>

Init == /\ user = [n \in Names |-> CASE n = "userString" -> Val("string", "str1") [] n = "userBool" -> Val("boolean", "false")
                                     [] OTHER -> NoValue]
        /\ api = [n \in Names |-> CASE n = "apiString" -> Val("string", "str1") [] n = "apiBool" -> Val("boolean", "false")
                                    [] n = "apiNumber" -> Val("number", "12.5") [] OTHER -> NoValue]
        /\ alive = TRUE
        /\ act = [name |-> "", value |-> "", res |-> "init", before |-> "", kindBefore |-> "none"]

Read(n) == IF api[n] # NoValue THEN api[n] ELSE user[n]          \* pref_to_string: API map shadows the user map
Known(n) == Read(n) # NoValue

\* the three setters
SetBool(n, v) == api' = [api EXCEPT ![n] = Val("boolean", v)] /\ UNCHANGED user
SetNumber(n, v) == api' = [api EXCEPT ![n] = Val("number", v)] /\ UNCHANGED user
\* set_string_pref: unknown -> Err; stored value not a string -> as_str().unwrap() panics; value in the API map is replaced
\* there, otherwise the user map is written
StringSetterPanics(n) == Known(n) /\ Read(n).kind # "string"
SetString(n, v) == IF api[n] # NoValue /\ api[n].val # v
                   THEN api' = [api EXCEPT ![n] = Val("string", v)] /\ UNCHANGED user
                   ELSE user' = [user EXCEPT ![n] = Val("string", v)] /\ UNCHANGED api

Outcome(n, v) ==      \* "ok" | "err" | "panic" for set_preference(n, v)
  IF TypedDispatch THEN
       (IF ~Known(n) THEN "err"
        ELSE IF Read(n).kind = "boolean" THEN (IF IsBool(v) THEN "ok" ELSE "err")
        ELSE IF Read(n).kind = "number" THEN (IF IsNum(v) THEN "ok" ELSE "err")
        ELSE "ok")
  ELSE (IF IsBool(v) THEN "ok"
        ELSE IF n \in NumericByName THEN (IF IsNum(v) THEN "ok" ELSE "err")
        ELSE IF ~Known(n) THEN "err"
        ELSE IF StringSetterPanics(n) THEN "panic" ELSE "ok")

SetPreference(n, v) ==
  /\ alive
  /\ LET o == Outcome(n, v) IN
       /\ act' = [name |-> n, value |-> v, res |-> o, before |-> Read(n).val, kindBefore |-> Read(n).kind]
       /\ alive' = (o # "panic")
       /\ IF o # "ok" THEN UNCHANGED <<user, api>>
          ELSE IF TypedDispatch
               THEN (IF Read(n).kind = "boolean" THEN SetBool(n, v)
                     ELSE IF Read(n).kind = "number" THEN SetNumber(n, v) ELSE SetString(n, v))
               ELSE (IF IsBool(v) THEN SetBool(n, v)
                     ELSE IF n \in NumericByName THEN SetNumber(n, v) ELSE SetString(n, v))
\* set_mathml and the getters never write preferences
SetMathML == alive /\ act' = [name |-> "", value |-> "", res |-> "set_mathml", before |-> "", kindBefore |-> "none"]
             /\ UNCHANGED <<user, api, alive>>
\* do_navigate_command: apply_navigation_rules copies the navigation mode back into the USER map with set_user_prefs, which
\* stores a string whatever the preference is.  NavWritesBack: the names it does that for (as built: NavMode, a string).
Navigate == /\ alive
            /\ \E v \in {"str1", "str2"} :
                 user' = [n \in Names |-> IF n \notin NavWritesBack THEN user[n]
                                          ELSE Val("string", IF user[n] # NoValue /\ user[n].kind # "string" THEN user[n].val ELSE v)]
            /\ act' = [name |-> "", value |-> "", res |-> "navigate", before |-> "", kindBefore |-> "none"]
            /\ UNCHANGED <<api, alive>>
Next == (\E n \in Names \ {"created"}, v \in Values : SetPreference(n, v)) \/ SetMathML \/ Navigate
Spec == Init /\ [][Next]_vars

---------------------------------------------------------------------------
\* C12 on the design model
NoPanic == alive
ReadBack == act.res = "ok" => Read(act.name).val = act.value                                  \* reads back as set
UnknownRejected == (act.res \in {"ok", "err"} /\ act.kindBefore = "none" /\ act.name # "") => act.res = "err"
WrongKindRejected == (act.res \in {"ok", "err"} /\ act.name # "") =>
                        /\ (act.kindBefore = "boolean" /\ ~IsBool(act.value) => act.res = "err")
                        /\ (act.kindBefore = "number" /\ ~IsNum(act.value) => act.res = "err")
KindsStable == \A n \in Names : Known(n) => Read(n).kind = (CASE n \in {"apiString", "userString"} -> "string"
                                                             [] n \in {"apiBool", "userBool"} -> "boolean"
                                                             [] n = "apiNumber" -> "number" [] OTHER -> Read(n).kind)
NothingCreated == ~Known("unknown")
ErrChangesNothing == [][act'.res = "err" => (user' = user /\ api' = api)]_vars
OthersUntouched == [][act'.res = "ok" => \A m \in Names : m # act'.name => (user'[m] = user[m] /\ api'[m] = api[m])]_vars
PersistsAcrossSetMathML == [][act'.res = "set_mathml" => (user' = user /\ api' = api)]_vars
NavigationTouchesOnlyItsOwn == [][act'.res = "navigate" => (api' = api /\ \A m \in Names \ NavWritesBack : user'[m] = user[m])]_vars
=============================================================================
