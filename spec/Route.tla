-------------------------------- MODULE Route --------------------------------
(***************************************************************************)
(* Braille highlighting and cursor routing as queries over the session     *)
(* (braille.rs: braille_mathml with its highlight step,                    *)
(* get_navigation_node_from_braille_position; interface.rs: get_braille,   *)
(* get_braille_position).                                                  *)
(* Routing is implemented as: saved := BrailleNavHighlight; pref :=        *)
(* EndPoints; guided search that re-brailles the expression once per probe *)
(* (each probe may fail); pref := saved.  C20 demands that every such      *)
(* query is pure.  The deviation of the pinned commit: an error inside the *)
(* search returned through `?` BEFORE the restore.                         *)
(***************************************************************************)
EXTENDS Naturals, Sequences, TLC
CONSTANTS Styles,                 \* highlight styles, e.g. {"Off", "FirstChar", "EndPoints", "All"}
          MaxProbes,
          EarlyReturnSkipsRestore \* as built at 519253d
VARIABLES pref,     \* BrailleNavHighlight as get_preference reads it
          saved,    \* local of the routing call
          pc,       \* "idle" | "searching"
          probes,
          entry,    \* value of pref when the current query started
          act
vars == <<pref, saved, pc, probes, entry, act>>
Init == pref \in Styles /\ saved = "" /\ pc = "idle" /\ probes = 0 /\ entry = pref /\ act = "init"
\* an application changes the preference between queries
SetPref(s) == pc = "idle" /\ pref' = s /\ entry' = s /\ act' = "set" /\ UNCHANGED <<saved, pc, probes>>
\* get_braille(id) / get_braille_position: read-only
Highlight == pc = "idle" /\ act' = "get_braille" /\ UNCHANGED <<pref, saved, pc, probes, entry>>
Begin == /\ pc = "idle" /\ saved' = pref /\ pref' = "EndPoints" /\ pc' = "searching" /\ probes' = 0 /\ entry' = pref /\ act' = "begin"
ProbeOk == /\ pc = "searching" /\ probes < MaxProbes /\ probes' = probes + 1 /\ act' = "probe" /\ UNCHANGED <<pref, saved, pc, entry>>
ProbeErr == /\ pc = "searching"                       \* braille_mathml(...)? fails inside the search
            /\ pref' = IF EarlyReturnSkipsRestore THEN pref ELSE saved
            /\ pc' = "idle" /\ act' = "return-err" /\ UNCHANGED <<saved, probes, entry>>
Found == /\ pc = "searching" /\ pref' = saved /\ pc' = "idle" /\ act' = "return-ok" /\ UNCHANGED <<saved, probes, entry>>
Next == (\E s \in Styles : SetPref(s)) \/ Highlight \/ Begin \/ ProbeOk \/ ProbeErr \/ Found
Spec == Init /\ [][Next]_vars
\* C20: whenever a query has returned (Ok or Err) the preference is what it was when the query started
PrefRestored == act \in {"return-ok", "return-err", "get_braille"} => pref = entry
ProbesBounded == probes <= MaxProbes
=============================================================================
