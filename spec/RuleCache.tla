------------------------------ MODULE RuleCache ------------------------------
(***************************************************************************)
(* The lazily loaded rule tables of a MathCAT session and the file system  *)
(* under the rules directory (speech.rs: SpeechRules::read_files,          *)
(* FilesAndTimes::is_file_up_to_date, the full-Unicode lookup in           *)
(* replace_single_char; prefs.rs: the 11 file paths recomputed when        *)
(* Language / SpeechStyle / BrailleCode change).                           *)
(*                                                                         *)
(* Five rule sets (Intent, Speech, Overview, Navigation, Braille) each own *)
(* a rule table and remember the file it came from; the four speech-side   *)
(* sets SHARE one short Unicode table, one full Unicode table and one      *)
(* definition set (Braille has its own three).  A getter first calls       *)
(* read_files for the rule sets it uses; read_files reloads                *)
(*   (1) the set's own table, (2) the shared short table, (3) the shared   *)
(* definitions - each iff "not up to date" - and the full table is checked *)
(* only on a character-lookup miss, with its own flag.                     *)
(* A failed load leaves the table cleared and the remembered file/time     *)
(* untouched.  Environment actions damage, repair and touch files (C14).   *)
(* Deviations of the code from the intended design are CONSTANTS.          *)
(***************************************************************************)
EXTENDS Naturals, Sequences, FiniteSets, TLC

CONSTANTS Langs,             \* language tags, e.g. {"en", "engb", "es"}; "engb" is a regional variant of "en"
          Codes,             \* braille codes
          Faults,            \* TRUE: the environment may damage / repair files (C14); FALSE: C10
          MaxClock,
          MaxDamage,         \* at most this many Damage actions per behaviour
          FullFlagInverted,  \* as built: the full-Unicode check ignores file times exactly when CheckRuleFiles = "All"
          RegionSharesRules, \* a regional variant falls back to the language's rule files but has its own Unicode file
          FailedLoadKeepsRecord, \* as built at 519253d: a failed (re)load leaves the table's file/time record in place
          RepointKeepsTables     \* as built at 519253d: set_rules_dir does not forget the tables

Modes == {"Prefs", "All"}                       \* CheckRuleFiles ("None" behaves like "Prefs" for the tables)
SpeechSets == {"Intent", "Speech", "Overview", "Navigation"}
Sets == SpeechSets \cup {"Braille"}
Side(R) == IF R = "Braille" THEN "B" ELSE "S"
Sides == {"S", "B"}
Shapes == {"good", "broken", "degraded"}        \* broken: load fails (missing, empty, wrong type, bad xpath); degraded: truncated but valid

BaseLang(l) == IF RegionSharesRules /\ l = "engb" THEN "en" ELSE l
\* the file a table should hold, as a function of the preferences (find_file with its fallback chain)
RuleFile(R, lang, code) == IF R = "Braille" THEN <<"rules", R, code>>
                           ELSE IF R = "Intent" THEN <<"rules", R, "all">>          \* Rules/intent.yaml is language independent
                           ELSE <<"rules", R, BaseLang(lang)>>
UniFile(side, lang, code) == IF side = "B" THEN <<"uni", code>> ELSE <<"uni", lang>>
FullFile(side, lang, code) == IF side = "B" THEN <<"full", code>> ELSE <<"full", BaseLang(lang)>>
DefsFile(side, lang, code) == IF side = "B" THEN <<"defs", code>> ELSE <<"defs", BaseLang(lang)>>
AllFiles == {RuleFile(R, l, c) : R \in Sets, l \in Langs, c \in Codes}
            \cup {UniFile(s, l, c) : s \in Sides, l \in Langs, c \in Codes}
            \cup {FullFile(s, l, c) : s \in Sides, l \in Langs, c \in Codes}
            \cup {DefsFile(s, l, c) : s \in Sides, l \in Langs, c \in Codes}

None == <<"none">>
\* what a table holds: the recorded file and time, the version and shape of the content; partial = the content is the debris
\* of a failed load although the record still names a file
Entry(f, v, t, sh) == [file |-> f, ver |-> v, time |-> t, shape |-> sh, partial |-> FALSE]
Empty == Entry(None, 0, 0, "good")
Failed(e) == IF FailedLoadKeepsRecord /\ e.file # None THEN [e EXCEPT !.partial = TRUE] ELSE Empty

VARIABLES lang, code, mode,     \* preferences
          fs,                   \* [AllFiles -> [ver, mtime, shape]]
          clock,
          own,                  \* [Sets -> Entry]       the set's own rule table
          loaded,               \* [Sets -> BOOLEAN]     table non-empty (a failed load leaves it cleared)
          ushort, ufull, defs,  \* [Sides -> Entry]      shared tables
          ushortLoaded, ufullLoaded,
          damaged,              \* number of Damage actions so far
          repointed,            \* set_rules_dir was called after the last repair (all files good) and nothing was damaged since
          act                   \* last action: [name, arg, res, stale]
vars == <<lang, code, mode, fs, clock, own, loaded, ushort, ufull, defs, ushortLoaded, ufullLoaded, damaged, repointed, act>>

Init == /\ lang \in Langs /\ code \in Codes /\ mode = "Prefs"
        /\ fs = [f \in AllFiles |-> [ver |-> 1, mtime |-> 1, shape |-> "good"]]
        /\ clock = 1
        /\ own = [R \in Sets |-> Empty] /\ loaded = [R \in Sets |-> FALSE]
        /\ ushort = [s \in Sides |-> Empty] /\ ufull = [s \in Sides |-> Empty] /\ defs = [s \in Sides |-> Empty]
        /\ ushortLoaded = [s \in Sides |-> FALSE] /\ ufullLoaded = [s \in Sides |-> FALSE]
        /\ damaged = 0 /\ repointed = FALSE
        /\ act = [name |-> "init", arg |-> "", res |-> "ok", stale |-> FALSE]

\* FilesAndTimes::is_file_up_to_date
UpToDate(e, prefFile, ignoreTime) ==
  /\ e.file # None /\ e.file = prefFile
  /\ (ignoreTime \/ (e.time # 0 /\ e.time >= fs[prefFile].mtime))
LoadOf(f) == Entry(f, fs[f].ver, fs[f].mtime, fs[f].shape)

\* read_files for one rule set, as a function from the cache state to the new cache state and a result.
\* st = [own, loaded, ushort, ushortLoaded, defs]
ReadFiles(R, st) ==
  LET ignoreTime == mode # "All"
      s == Side(R)
      rf == RuleFile(R, lang, code)
      needOwn == ~st.loaded[R] \/ ~UpToDate(st.own[R], rf, ignoreTime)
      st1 == IF ~needOwn THEN [st EXCEPT !.ok = TRUE]
             ELSE IF fs[rf].shape = "broken"
                  \* rules.clear(); read()? fails: the table is empty or half filled (non-empty!)
                  THEN [st EXCEPT !.own[R] = Failed(@), !.loaded[R] = (FailedLoadKeepsRecord /\ st.own[R].file # None), !.ok = FALSE]
                  ELSE [st EXCEPT !.own[R] = LoadOf(rf), !.loaded[R] = TRUE, !.ok = TRUE]
      uf == UniFile(s, lang, code)
      needUni == ~UpToDate(st1.ushort[s], uf, ignoreTime)
      st2 == IF ~st1.ok \/ ~needUni THEN st1
             ELSE IF fs[uf].shape = "broken"
                  THEN [st1 EXCEPT !.ushort[s] = Failed(@), !.ushortLoaded[s] = FALSE, !.ok = FALSE]
                  ELSE [st1 EXCEPT !.ushort[s] = LoadOf(uf), !.ushortLoaded[s] = TRUE]
      df == DefsFile(s, lang, code)
      needDefs == ~UpToDate(st2.defs[s], df, ignoreTime)
      st3 == IF ~st2.ok \/ ~needDefs THEN st2
             ELSE IF fs[df].shape = "broken" THEN [st2 EXCEPT !.defs[s] = Failed(@), !.ok = FALSE]
                  ELSE [st2 EXCEPT !.defs[s] = LoadOf(df)]
  IN st3

\* the full table is consulted on a lookup miss (modelled: every getter call may or may not miss)
FullLookup(s, uf0, ufl0) ==
  LET ff == FullFile(s, lang, code)
      ignoreTime == IF FullFlagInverted THEN mode = "All" ELSE mode # "All"
      need == ~ufl0[s] \/ ~UpToDate(uf0[s], ff, ignoreTime)
  IN IF ~need THEN [ufull |-> uf0, ufl |-> ufl0, ok |-> TRUE]
     ELSE IF fs[ff].shape = "broken" THEN [ufull |-> [uf0 EXCEPT ![s] = Failed(@)], ufl |-> [ufl0 EXCEPT ![s] = (FailedLoadKeepsRecord /\ uf0[s].file # None)], ok |-> FALSE]
     ELSE [ufull |-> [uf0 EXCEPT ![s] = LoadOf(ff)], ufl |-> [ufl0 EXCEPT ![s] = TRUE], ok |-> TRUE]

\* rule sets a public getter reads, in order
Uses(g) == CASE g = "speech" -> <<"Intent", "Speech">>
             [] g = "overview" -> <<"Overview">>
             [] g = "braille" -> <<"Braille">>
             [] g = "navigate" -> <<"Navigation", "Intent", "Speech">>
             [] g = "set_mathml" -> <<"Speech">>

RECURSIVE ReadAll(_, _)
ReadAll(rs, st) == IF rs = <<>> \/ ~st.ok THEN st ELSE ReadAll(Tail(rs), ReadFiles(Head(rs), st))

\* Is what the getter consulted what the preferences and the file system say it should be?
FreshEntry(e, f) == e.file = f /\ e.ver = fs[f].ver /\ ~e.partial
StaleAfter(g, st, full, miss) ==
  LET s == Side(Uses(g)[1]) IN
  \/ \E i \in 1..Len(Uses(g)) : ~FreshEntry(st.own[Uses(g)[i]], RuleFile(Uses(g)[i], lang, code))
  \/ ~FreshEntry(st.ushort[s], UniFile(s, lang, code))
  \/ ~FreshEntry(st.defs[s], DefsFile(s, lang, code))
  \/ (miss /\ ~FreshEntry(full[s], FullFile(s, lang, code)))

Getter(g, miss) ==
  LET st0 == [own |-> own, loaded |-> loaded, ushort |-> ushort, ushortLoaded |-> ushortLoaded, defs |-> defs, ok |-> TRUE]
      st == ReadAll(Uses(g), st0)
      s == Side(Uses(g)[1])
      fl == IF st.ok /\ miss /\ g # "set_mathml" THEN FullLookup(s, ufull, ufullLoaded)
            ELSE [ufull |-> ufull, ufl |-> ufullLoaded, ok |-> TRUE]
      ok == st.ok /\ fl.ok
  IN /\ own' = st.own /\ loaded' = st.loaded /\ ushort' = st.ushort /\ ushortLoaded' = st.ushortLoaded /\ defs' = st.defs
     /\ ufull' = fl.ufull /\ ufullLoaded' = fl.ufl
     /\ act' = [name |-> g, arg |-> IF miss THEN "miss" ELSE "hit", res |-> IF ok THEN "ok" ELSE "err",
                stale |-> ok /\ StaleAfter(g, st, fl.ufull, miss /\ g # "set_mathml")]
     /\ UNCHANGED <<lang, code, mode, fs, clock, damaged, repointed>>

SetLanguage(l) == /\ l # lang /\ lang' = l
                  /\ act' = [name |-> "Language", arg |-> l, res |-> "ok", stale |-> FALSE]
                  /\ UNCHANGED <<code, mode, fs, clock, own, loaded, ushort, ufull, defs, ushortLoaded, ufullLoaded, damaged, repointed>>
SetCode(c) == /\ c # code /\ code' = c
              /\ act' = [name |-> "BrailleCode", arg |-> c, res |-> "ok", stale |-> FALSE]
              /\ UNCHANGED <<lang, mode, fs, clock, own, loaded, ushort, ufull, defs, ushortLoaded, ufullLoaded, damaged, repointed>>
SetMode(m) == /\ m # mode /\ mode' = m
              /\ act' = [name |-> "CheckRuleFiles", arg |-> m, res |-> "ok", stale |-> FALSE]
              /\ UNCHANGED <<lang, code, fs, clock, own, loaded, ushort, ufull, defs, ushortLoaded, ufullLoaded, damaged, repointed>>

AllGood == \A f \in AllFiles : fs[f].shape = "good"
\* set_rules_dir (same directory): the documented way to recover when file times are not checked
SetRulesDir == /\ Faults
               /\ IF RepointKeepsTables
                  THEN UNCHANGED <<own, loaded, ushort, ufull, defs, ushortLoaded, ufullLoaded>>
                  ELSE /\ own' = [R \in Sets |-> Empty] /\ loaded' = [R \in Sets |-> FALSE]
                       /\ ushort' = [s \in Sides |-> Empty] /\ ufull' = [s \in Sides |-> Empty] /\ defs' = [s \in Sides |-> Empty]
                       /\ ushortLoaded' = [s \in Sides |-> FALSE] /\ ufullLoaded' = [s \in Sides |-> FALSE]
               /\ act' = [name |-> "SetRulesDir", arg |-> "", res |-> "ok", stale |-> FALSE]
               /\ repointed' = AllGood
               /\ UNCHANGED <<lang, code, mode, fs, clock, damaged>>

\* environment
Damage(f, sh) == /\ Faults /\ damaged < MaxDamage /\ clock < MaxClock /\ fs[f].shape = "good" /\ sh # "good"
                 /\ clock' = clock + 1 /\ damaged' = damaged + 1
                 /\ fs' = [fs EXCEPT ![f] = [ver |-> @.ver + 1, mtime |-> clock + 1, shape |-> sh]]
                 /\ act' = [name |-> "Damage", arg |-> f, res |-> sh, stale |-> FALSE]
                 /\ repointed' = FALSE
                 /\ UNCHANGED <<lang, code, mode, own, loaded, ushort, ufull, defs, ushortLoaded, ufullLoaded>>
Repair(f) == /\ Faults /\ clock < MaxClock /\ fs[f].shape # "good"
             /\ clock' = clock + 1
             /\ fs' = [fs EXCEPT ![f] = [ver |-> 1, mtime |-> clock + 1, shape |-> "good"]]    \* original content, new time
             /\ act' = [name |-> "Repair", arg |-> f, res |-> "ok", stale |-> FALSE]
             /\ repointed' = FALSE
             /\ UNCHANGED <<lang, code, mode, own, loaded, ushort, ufull, defs, ushortLoaded, ufullLoaded, damaged>>

Getters == {"set_mathml", "speech", "overview", "braille", "navigate"}
Next == \/ \E g \in Getters, miss \in BOOLEAN : Getter(g, miss)
        \/ \E l \in Langs : SetLanguage(l)
        \/ \E c \in Codes : SetCode(c)
        \/ \E m \in Modes : SetMode(m)
        \/ \E f \in AllFiles, sh \in Shapes : Damage(f, sh)
        \/ \E f \in AllFiles : Repair(f)
        \/ SetRulesDir
Spec == Init /\ [][Next]_vars

---------------------------------------------------------------------------
TypeOK == lang \in Langs /\ code \in Codes /\ mode \in Modes
\* C10: whenever a getter answers (no faults), every table it consulted holds the file the preferences name
Fresh == (~Faults /\ act.res = "ok") => ~act.stale
\* C14: with every file repaired and file checking enabled, an answer is never computed from stale or degraded tables
RecoveredUnderAll == (Faults /\ AllGood /\ mode = "All" /\ act.name \in Getters /\ act.res = "ok") => ~act.stale
\* C14: ... or after re-pointing the rules directory, whatever the file-checking mode
RecoveredAfterRepoint == (Faults /\ AllGood /\ repointed /\ act.name \in Getters) => (act.res = "ok" /\ ~act.stale)
\* C14: with every file good, no getter fails
NoErrorWhenAllGood == (AllGood /\ act.name \in Getters /\ mode = "All") => act.res = "ok"
=============================================================================
