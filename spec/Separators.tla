----------------------------- MODULE Separators -----------------------------
(***************************************************************************)
(* The derived number separators of a session (prefs.rs: set_string_pref   *)
(* and set_separators).  DecimalSeparators / BlockSeparators are written   *)
(* by the library itself as a function of Language and DecimalSeparator;   *)
(* a caller may also write them directly (the "Custom" route).             *)
(*                                                                         *)
(* Recomputation happens when DecimalSeparator is CHANGED, and when        *)
(* Language is CHANGED while DecimalSeparator is Auto.  It does nothing    *)
(* for DecimalSeparator outside {Auto , .} and for Language = Auto with    *)
(* DecimalSeparator = Auto.                                                *)
(***************************************************************************)
EXTENDS Naturals, TLC
CONSTANTS AutoGuardOnBothBranches   \* FALSE: as described above; TRUE: the slip "old DecimalSeparator = Auto /\ (either changed)"

Languages == {"en", "sv", "de-ch", "Auto"}
DecSeps == {"Auto", ",", ".", "Custom"}
UsesPeriod(l) == l = "en"
Swiss(l) == l = "de-ch"
F(l, ds) == LET period == ds = "." \/ (ds = "Auto" /\ UsesPeriod(l)) IN
            [dec |-> IF period THEN "." ELSE ",", block |-> (IF period THEN "comma-and-spaces" ELSE "point-and-spaces"), swiss |-> Swiss(l)]
VARIABLES lang, ds, seps, direct     \* direct: the caller wrote the separators since the library last computed them
vars == <<lang, ds, seps, direct>>
Init == lang = "en" /\ ds = "Auto" /\ seps = F("en", "Auto") /\ direct = FALSE

Recompute(l, d) == IF d \in {"Auto", ",", "."} /\ ~(l = "Auto" /\ d = "Auto")
                   THEN seps' = F(l, d) /\ direct' = FALSE
                   ELSE UNCHANGED <<seps, direct>>
SetDecimalSeparator(v) ==
  /\ ds' = v /\ UNCHANGED lang
  /\ IF (IF AutoGuardOnBothBranches THEN ds = "Auto" /\ v # ds ELSE v # ds) THEN Recompute(lang, v) ELSE UNCHANGED <<seps, direct>>
SetLanguage(l) ==
  /\ lang' = l /\ UNCHANGED ds
  /\ IF ds = "Auto" /\ l # lang THEN Recompute(l, ds) ELSE UNCHANGED <<seps, direct>>
SetDirectly(d, b) == seps' = [dec |-> d, block |-> b, swiss |-> FALSE] /\ direct' = TRUE /\ UNCHANGED <<lang, ds>>
Next == \/ \E v \in DecSeps : SetDecimalSeparator(v)
        \/ \E l \in Languages : SetLanguage(l)
        \/ \E d \in {".", ","}, b \in {"comma-and-spaces", "point-and-spaces"} : SetDirectly(d, b)
Spec == Init /\ [][Next]_vars

\* an explicit decimal mark is the decimal mark, whatever came before (unless the caller overrode the derived values afterwards)
ExplicitMarkWins == (ds \in {",", "."} /\ ~direct) => seps.dec = ds
\* with Auto the separators follow the language (same proviso; Language = Auto says nothing)
AutoFollowsLanguage == (ds = "Auto" /\ lang # "Auto" /\ ~direct) => seps = F(lang, "Auto")
\* a step that sets DecimalSeparator to one of , . Auto (to a new value) leaves the separators a function of the setting
LastValueWins == [][ds' # ds /\ ds' \in {",", ".", "Auto"} /\ ~(lang' = "Auto" /\ ds' = "Auto") => seps' = F(lang', ds')]_vars
=============================================================================
