------------------------------- MODULE Session -------------------------------
(***************************************************************************)
(* The umbrella specification: one MathCAT session (= one thread) as a     *)
(* state machine whose actions are the public entry points and the         *)
(* environment's actions on the rule files.  The subsystem modules (Nav,   *)
(* RuleCache, Prefs, Route, Locate, Api) say how each part behaves in      *)
(* depth; this module says how the parts act on ONE state, so that         *)
(* interleavings across subsystems are explored: a language switch in the  *)
(* middle of a navigation, a damaged rule file between two getters, a      *)
(* routing query while a place marker is set, a new expression after a     *)
(* failed one.                                                             *)
(*                                                                         *)
(* Abstractions.  An expression is an identifier with a finite set of node *)
(* ids and a root.  Navigation moves are data (YAML rules): a move goes to *)
(* SOME node of the current expression.  A rule table is identified by     *)
(* what it was loaded for (language / code) and the version of its file.   *)
(***************************************************************************)
EXTENDS Naturals, Sequences, FiniteSets, TLC

CONSTANTS Exprs,          \* expression identifiers
          NodesOf,        \* expression -> set of node ids (disjoint between expressions)
          RootOf,         \* expression -> its root id
          Langs, Codes,   \* selectable languages and braille codes
          MaxStack, MaxVer,
          \* deviations (TRUE = the behaviour of the pinned commit, refuted by TLC; the code has been repaired)
          NewExprKeepsMarkers,      \* 06d544b
          RouteLeaksOverrideOnErr,  \* 51cc898
          SameDirKeepsTables        \* 2c590d9

NoExpr == "#none"
NoNode == "#nonode"
Kinds == {"speech", "braille"}

VARIABLES ready,          \* set_rules_dir has succeeded
          lang, code,     \* the Language and BrailleCode preferences
          highlight,      \* BrailleNavHighlight
          expr,           \* current expression or NoExpr
          pos, stack, markers,   \* navigation: current node, earlier positions, place markers
          table,          \* kind -> [for |-> language/code it was loaded for (or "#none"), ver |-> file version]
          file,           \* kind -> selection -> [ver, good]  the rule file of each language / code on disk
          checkAll,       \* CheckRuleFiles = All (file versions are looked at on every use) or Prefs (only when a selection changes)
          repointVer,     \* kind -> version of the file at the last set_rules_dir (history: what a re-pointed session must at least see)
          last            \* [op, res] of the last call (observation only)
vars == <<ready, lang, code, highlight, expr, pos, stack, markers, table, file, checkAll, repointVer, last>>

Sel(k) == IF k = "speech" THEN lang ELSE code
Cur(k) == file[k][Sel(k)]                                    \* the file of the current selection
Fresh(k) == table[k].for = Sel(k) /\ (checkAll => table[k].ver = Cur(k).ver)
Nodes == IF expr = NoExpr THEN {} ELSE NodesOf[expr]

Init == /\ ready = FALSE /\ lang \in Langs /\ code \in Codes /\ highlight = "Off"
        /\ expr = NoExpr /\ pos = NoNode /\ stack = <<>> /\ markers = {}
        /\ table = [k \in Kinds |-> [for |-> "#none", ver |-> 0]]
        /\ file = [k \in Kinds |-> [x \in (IF k = "speech" THEN Langs ELSE Codes) |-> [ver |-> 1, good |-> TRUE]]]
        /\ checkAll \in BOOLEAN /\ repointVer = [k \in Kinds |-> [x \in (IF k = "speech" THEN Langs ELSE Codes) |-> 0]]
        /\ last = [op |-> "init", res |-> "ok"]

Ret(op, res) == last' = [op |-> op, res |-> res]

(* lazy (re)load of one table on use: succeeds iff the file is good; a failed load leaves NO table (562846e) *)
Load(k) == IF Fresh(k) THEN table' = table
           ELSE IF Cur(k).good THEN table' = [table EXCEPT ![k] = [for |-> Sel(k), ver |-> Cur(k).ver]]
           ELSE table' = [table EXCEPT ![k] = [for |-> "#none", ver |-> 0]]
LoadOk(k) == Fresh(k) \/ Cur(k).good

MaybeLoad(k) == table' = table \/ Load(k)
AnyRes(op) == \E r \in {"ok", "err"} : Ret(op, r)

SetRulesDir ==
  /\ ready' = TRUE
  /\ table' = IF SameDirKeepsTables /\ ready THEN table ELSE [k \in Kinds |-> [for |-> "#none", ver |-> 0]]
  /\ repointVer' = [k \in Kinds |-> [x \in DOMAIN file[k] |-> file[k][x].ver]]
  /\ highlight' \in (IF ready THEN {highlight} ELSE {"Off", "EndPoints"})      \* the first one reads prefs.yaml
  /\ Ret("set_rules_dir", "ok")
  /\ UNCHANGED <<lang, code, expr, pos, stack, markers, file, checkAll>>

SetLanguage(l) == /\ ready /\ lang' = l /\ Ret("set_preference", "ok")
                  /\ UNCHANGED <<ready, code, highlight, expr, pos, stack, markers, table, file, checkAll, repointVer>>
SetCode(c) == /\ ready /\ code' = c /\ Ret("set_preference", "ok")
              /\ UNCHANGED <<ready, lang, highlight, expr, pos, stack, markers, table, file, checkAll, repointVer>>
SetHighlight(h) == /\ ready /\ highlight' = h /\ Ret("set_preference", "ok")
                   /\ UNCHANGED <<ready, lang, code, expr, pos, stack, markers, table, file, checkAll, repointVer>>
NotReady(op) == /\ ~ready /\ Ret(op, "err")
                /\ UNCHANGED <<ready, lang, code, highlight, expr, pos, stack, markers, table, file, checkAll, repointVer>>

(* set_mathml: needs the speech definitions; on success the navigation starts over at the root *)
SetMathML(e, wellFormed) ==
  /\ ready
  /\ Load("speech")
  /\ IF LoadOk("speech") /\ wellFormed
     THEN /\ expr' = e /\ pos' = RootOf[e] /\ stack' = <<>>
          /\ markers' = IF NewExprKeepsMarkers THEN markers ELSE {}
          /\ Ret("set_mathml", "ok")
     ELSE \* an input that is rejected leaves the old expression in place, but the navigation state was already reset
          /\ expr' = expr /\ pos' = (IF expr = NoExpr THEN NoNode ELSE RootOf[expr]) /\ stack' = <<>>
          /\ markers' = IF NewExprKeepsMarkers THEN markers ELSE {}
          /\ Ret("set_mathml", "err")
  /\ UNCHANGED <<ready, lang, code, highlight, file, checkAll, repointVer>>

(* get_spoken_text / get_overview_text / get_braille: pure on everything but the tables *)
Getter(k) ==
  /\ ready /\ expr # NoExpr
  /\ Load(k)
  /\ Ret(IF k = "speech" THEN "get_spoken_text" ELSE "get_braille", IF LoadOk(k) THEN "ok" ELSE "err")
  /\ UNCHANGED <<ready, lang, code, highlight, expr, pos, stack, markers, file, checkAll, repointVer>>
GetterNoExpr(k) ==          \* nothing to speak: the empty answer or an error, after looking at the rule table all the same
  /\ ready /\ expr = NoExpr /\ MaybeLoad(k)
  /\ AnyRes(IF k = "speech" THEN "get_spoken_text" ELSE "get_braille")
  /\ UNCHANGED <<ready, lang, code, highlight, expr, pos, stack, markers, file, checkAll, repointVer>>

(* do_navigate_command.  What a command says comes from the navigation rules and, when it reads part of the expression, from the
   speech rules: it may or may not need the speech table, and it may fail for reasons of its own (nothing to move to, no such
   marker, a table that does not load) - also AFTER it has moved.  What the model fixes is where the position can be. *)
Push == IF Len(stack) < MaxStack THEN Append(stack, pos) ELSE stack
Move(n) ==
  /\ ready /\ expr # NoExpr /\ n \in Nodes
  /\ MaybeLoad("speech")
  /\ pos' = n /\ stack' \in {stack, Push}
  /\ AnyRes("do_navigate_command")
  /\ UNCHANGED <<ready, lang, code, highlight, expr, markers, file, checkAll, repointVer>>
MoveBack ==
  /\ ready /\ expr # NoExpr /\ stack # <<>>
  /\ MaybeLoad("speech")
  /\ pos' = stack[Len(stack)] /\ stack' = SubSeq(stack, 1, Len(stack) - 1)
  /\ AnyRes("do_navigate_command")
  /\ UNCHANGED <<ready, lang, code, highlight, expr, markers, file, checkAll, repointVer>>
\* (a place marker lives in a numbered slot: setting a slot that is in use drops the node it held)
SetMarker == /\ ready /\ expr # NoExpr /\ (\E m \in markers \cup {NoNode} : markers' = (markers \ {m}) \cup {pos})
             /\ MaybeLoad("speech") /\ AnyRes("do_navigate_command")
             /\ UNCHANGED <<ready, lang, code, highlight, expr, pos, stack, file, checkAll, repointVer>>
GoToMarker(m) == /\ ready /\ expr # NoExpr /\ m \in markers
                 /\ MaybeLoad("speech")
                 /\ pos' = m /\ stack' \in {stack, Push}
                 /\ AnyRes("do_navigate_command")
                 /\ UNCHANGED <<ready, lang, code, highlight, expr, markers, file, checkAll, repointVer>>
SetNavNode(n) ==
  /\ ready /\ expr # NoExpr
  /\ IF n \in Nodes THEN pos' = n /\ stack' \in {<<>>, stack, Push} /\ Ret("set_navigation_node", "ok")
     ELSE UNCHANGED <<pos, stack>> /\ Ret("set_navigation_node", "err")
  /\ UNCHANGED <<ready, lang, code, highlight, expr, markers, table, file, checkAll, repointVer>>
SetNavNodeUnknown ==        \* an id that no expression has
  /\ ready /\ expr # NoExpr /\ Ret("set_navigation_node", "err")
  /\ UNCHANGED <<ready, lang, code, highlight, expr, pos, stack, markers, table, file, checkAll, repointVer>>
\* with no expression every navigation entry point answers Err and changes nothing
NoExprErr(op) == /\ ready /\ expr = NoExpr /\ Ret(op, "err")
                 /\ UNCHANGED <<ready, lang, code, highlight, expr, pos, stack, markers, table, file, checkAll, repointVer>>
SetCheck(b) == /\ ready /\ checkAll' = b /\ Ret("set_preference", "ok")
               /\ UNCHANGED <<ready, lang, code, highlight, expr, pos, stack, markers, table, file, repointVer>>

(* get_navigation_node_from_braille_position: overrides the highlight preference for its search and restores it *)
Route(fails) ==
  /\ ready /\ expr # NoExpr
  /\ Load("braille")
  /\ LET ok == LoadOk("braille") /\ ~fails IN
     /\ highlight' = IF ~ok /\ RouteLeaksOverrideOnErr THEN "EndPoints" ELSE highlight
     /\ Ret("get_navigation_node_from_braille_position", IF ok THEN "ok" ELSE "err")
  /\ UNCHANGED <<ready, lang, code, expr, pos, stack, markers, file, checkAll, repointVer>>

(* the environment: a rule file of the current selection is damaged or repaired (each changes its version) *)
Damage(k, x) == /\ file[k][x].ver < MaxVer /\ file' = [file EXCEPT ![k][x] = [ver |-> file[k][x].ver + 1, good |-> FALSE]]
             /\ UNCHANGED <<ready, lang, code, highlight, expr, pos, stack, markers, table, last, checkAll, repointVer>>
Repair(k, x) == /\ file[k][x].ver < MaxVer /\ ~file[k][x].good /\ file' = [file EXCEPT ![k][x] = [ver |-> file[k][x].ver + 1, good |-> TRUE]]
             /\ UNCHANGED <<ready, lang, code, highlight, expr, pos, stack, markers, table, last, checkAll, repointVer>>

Next == \/ SetRulesDir
        \/ \E l \in Langs : SetLanguage(l)
        \/ \E c \in Codes : SetCode(c)
        \/ \E h \in {"Off", "EndPoints", "All", "FirstChar"} : SetHighlight(h)
        \/ \E op \in {"set_preference", "set_mathml", "get_spoken_text", "get_braille", "do_navigate_command"} : NotReady(op)
        \/ \E e \in Exprs, wf \in BOOLEAN : SetMathML(e, wf)
        \/ \E k \in Kinds : Getter(k) \/ GetterNoExpr(k)
        \/ \E n \in UNION {NodesOf[e] : e \in Exprs} : Move(n) \/ SetNavNode(n) \/ GoToMarker(n)
        \/ MoveBack \/ SetMarker \/ SetNavNodeUnknown
        \/ \E f \in BOOLEAN : Route(f)
        \/ \E k \in Kinds : \E x \in DOMAIN file[k] : Damage(k, x) \/ Repair(k, x)
        \/ \E b \in BOOLEAN : SetCheck(b)
        \/ \E op \in {"do_navigate_command", "set_navigation_node", "get_navigation_node_from_braille_position"} : NoExprErr(op)
Spec == Init /\ [][Next]_vars

(***************************************************************************)
(* Properties that cut across the subsystems.                              *)
(***************************************************************************)
TypeOK == /\ expr \in Exprs \cup {NoExpr} /\ pos \in Nodes \cup {NoNode} /\ Len(stack) <= MaxStack
\* C11: the navigation state only ever names nodes of the current expression
NavInExpr == expr # NoExpr => pos \in Nodes /\ (\A i \in 1..Len(stack) : stack[i] \in Nodes) /\ markers \subseteq Nodes
\* C10 / C14: an answer is computed from the tables of the current selection and the current files
\* (every API action sets 'last'; only the environment leaves it alone, and it changes 'file')
FreshAfter(k) == LET sel == IF k = "speech" THEN lang' ELSE code' IN
                 /\ table'[k].for = sel
                 /\ (checkAll => table'[k].ver = file'[k][sel].ver)
                 /\ table'[k].ver >= repointVer'[k][sel]             \* C14: set_rules_dir makes the session look at the files again
AnswerIsFresh == [][file' = file /\ expr # NoExpr /\ last'.res = "ok" /\ last'.op = "get_spoken_text" => FreshAfter("speech")]_vars
AnswerIsFreshBraille == [][file' = file /\ expr # NoExpr /\ last'.res = "ok" /\ last'.op \in {"get_braille", "get_navigation_node_from_braille_position"} => FreshAfter("braille")]_vars
\* C20: a query never changes a preference (action property, checked as: the highlight style is only changed by set_preference)
QueriesKeepPreferences == [][last'.op \in {"get_spoken_text", "get_braille", "get_navigation_node_from_braille_position", "do_navigate_command", "set_navigation_node", "set_mathml"}
                              => highlight' = highlight /\ lang' = lang /\ code' = code]_vars
\* C08 / C14: a failure is reported, and the session recovers: once the files are good again every getter answers
RecoversAfterRepair == [][file' = file /\ checkAll /\ (\A k \in Kinds : Cur(k).good) /\ ready /\ expr # NoExpr /\ last'.op \in {"get_spoken_text", "get_braille"} => last'.res = "ok"]_vars
=============================================================================
