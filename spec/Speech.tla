-------------------------------- MODULE Speech --------------------------------
(***************************************************************************)
(* The string post-processing of the rule engine (speech.rs:               *)
(* ReplacementArray::replace_array_string with is_repetitive, the top-level*)
(* marker stripping of speak_rules, tts.rs merge_pauses).                  *)
(* A rule's replacement is a list of child strings; a child string is a    *)
(* sequence of tokens:                                                     *)
(*    "num"          an operand of the expression (what C04 protects)      *)
(*    <<"w", x>>     a word                                                *)
(*    <<"opt", x>>   an optional word: deleted when it repeats the word    *)
(*                   that ends the previous string ("the the")             *)
(*    "pause", "auto" explicit pause, auto pause placeholder               *)
(*    "concat"       the concatenation marker                              *)
(* C04/C05 at design level: post-processing never deletes an operand, and  *)
(* no marker survives to the caller.  The deviation of the pinned commit:  *)
(* is_repetitive returned only the text AFTER the optional word, whatever  *)
(* stood in front of it in that child string.                              *)
(***************************************************************************)
EXTENDS Naturals, Sequences, FiniteSets, TLC
CONSTANTS IsRepetitiveAsBuilt,   \* TRUE: as built at 519253d
          MaxLen                 \* length bound of a child string
W(x) == <<"w", x>>
Opt(x) == <<"opt", x>>
Num == <<"num", "">>
Auto == <<"auto", "">>
Concat == <<"concat", "">>
Pause == <<"pause", "">>
Alphabet == {Num, W("the"), W("of"), Opt("the"), Auto, Concat}     \* (all tokens are pairs: TLC cannot compare a string with a tuple)
StringsUpTo(m) == UNION {[1..n -> Alphabet] : n \in 0..m}
IsOpt(t) == t[1] = "opt"
IsWord(t) == t[1] = "w"
LastWord(s) == IF s # <<>> /\ (IsWord(s[Len(s)]) \/ IsOpt(s[Len(s)])) THEN s[Len(s)][2] ELSE ""
FirstOpt(s) == LET ks == {k \in 1..Len(s) : IsOpt(s[k])} IN IF ks = {} THEN 0 ELSE CHOOSE k \in ks : \A j \in ks : k <= j
\* is_repetitive(prev, cur): the string that replaces cur, or cur itself
Dedup(prev, cur) ==
  LET k == FirstOpt(cur) IN
  IF k = 0 THEN cur
  ELSE IF LastWord(prev) = cur[k][2] /\ Len(prev) > 0
       THEN IF IsRepetitiveAsBuilt THEN SubSeq(cur, k + 1, Len(cur))                 \* drops cur[1..k-1] as well
            ELSE IF k = 1 THEN SubSeq(cur, 2, Len(cur)) ELSE cur                      \* only an optional word that starts the string
       ELSE cur
RECURSIVE Flat(_)
Flat(ss) == IF ss = <<>> THEN <<>> ELSE Head(ss) \o Flat(Tail(ss))
\* replace_array_string: drop empty strings, de-duplicate optional words of the inner strings (the loop skips the first and the
\* last string), substitute auto pauses, join
NonEmpty(ss) == SelectSeq(ss, LAMBDA s : s # <<>>)
Process(ss) == LET ne == NonEmpty(ss)
                   dd == [i \in 1..Len(ne) |-> IF i > 1 /\ i < Len(ne) THEN Dedup(ne[i - 1], ne[i]) ELSE ne[i]]
                   sub == [i \in 1..Len(dd) |-> [k \in 1..Len(dd[i]) |-> IF dd[i][k] = Auto THEN Pause ELSE dd[i][k]]]
               IN Flat(sub)
\* top level: strip the markers (an optional word that survived is spoken), merge pauses
Strip(s) == LET t == SelectSeq(s, LAMBDA x : x # Concat) IN [k \in 1..Len(t) |-> IF IsOpt(t[k]) THEN W(t[k][2]) ELSE t[k]]
RECURSIVE MergePauses(_)
MergePauses(s) == IF Len(s) < 2 THEN s ELSE IF s[1] = Pause /\ s[2] = Pause THEN MergePauses(Tail(s)) ELSE <<s[1]>> \o MergePauses(Tail(s))
Final(ss) == MergePauses(Strip(Process(ss)))
Nums(s) == Cardinality({k \in 1..Len(s) : s[k] = Num})

VARIABLES a, b, c
vars == <<a, b, c>>
Init == a \in StringsUpTo(2) /\ b \in StringsUpTo(MaxLen) /\ c \in StringsUpTo(1)
Next == UNCHANGED vars
Spec == Init /\ [][Next]_vars
OperandsKept == Nums(Final(<<a, b, c>>)) = Nums(a) + Nums(b) + Nums(c)         \* C04
NoMarkers == \A k \in 1..Len(Final(<<a, b, c>>)) : LET t == Final(<<a, b, c>>)[k] IN t = Num \/ t = Pause \/ IsWord(t)   \* C05
=============================================================================
