--------------------------------- MODULE TTS ---------------------------------
(***************************************************************************)
(* Speech-engine markup (tts.rs: get_string_ssml / get_string_sapi5 /      *)
(* get_string_none, replace_string, merge_pauses).                         *)
(* A TTS command of a rule wraps its contents: Start(cmd) contents End(cmd)*)
(* Start/End are tables per engine, transcribed below.  Speech is a        *)
(* sequence of tokens: words, and tags [kind, name] with kind "open",      *)
(* "close" or "empty".  C13 demands that the tags of a speech string are   *)
(* of the engine's vocabulary, properly nested and closed, and that        *)
(* removing them leaves the words.  The deviation of the pinned commit:    *)
(* the SAPI5 end tags of pitch, gender and voice were </prosody>.          *)
(***************************************************************************)
EXTENDS Naturals, Sequences, FiniteSets, TLC

CONSTANTS Sapi5EndTagsAsBuilt     \* TRUE: as built at 519253d
Engines == {"None", "SSML", "SAPI5"}
Commands == {"pause", "rate", "volume", "pitch", "audio", "gender", "voice", "spell", "pronounce"}
Wrapping == Commands \ {"pause"}          \* commands with contents

Vocabulary(e) == CASE e = "SSML" -> {"break", "prosody", "say-as", "phoneme", "audio", "voice", "mark"}
                   [] e = "SAPI5" -> {"silence", "pitch", "rate", "volume", "spell", "pron", "voice", "bookmark"}
                   [] OTHER -> {}
Open(n) == [kind |-> "open", name |-> n]
Close(n) == [kind |-> "close", name |-> n]
Empty(n) == [kind |-> "empty", name |-> n]
Word(w) == [kind |-> "word", name |-> w]

\* element name opened by a command
StartName(e, c) ==
  IF e = "SSML" THEN (CASE c \in {"rate", "volume", "pitch"} -> "prosody" [] c = "audio" -> "audio" [] c \in {"gender", "voice"} -> "voice"
                        [] c = "spell" -> "say-as" [] c = "pronounce" -> "phoneme")
  ELSE (CASE c = "pitch" -> "pitch" [] c = "rate" -> "rate" [] c = "volume" -> "volume" [] c \in {"gender", "voice"} -> "voice"
          [] c = "spell" -> "spell" [] c = "pronounce" -> "pron" [] c = "audio" -> "")          \* SAPI5 has no audio
EndName(e, c) ==
  IF e = "SAPI5" /\ Sapi5EndTagsAsBuilt /\ c \in {"pitch", "gender", "voice"} THEN "prosody"
  ELSE StartName(e, c)
Start(e, c) == IF e = "None" \/ StartName(e, c) = "" THEN <<>> ELSE <<Open(StartName(e, c))>>
End(e, c) == IF e = "None" \/ StartName(e, c) = "" THEN <<>> ELSE <<Close(EndName(e, c))>>
Pause(e) == CASE e = "SSML" -> <<Empty("break")>> [] e = "SAPI5" -> <<Empty("silence")>> [] OTHER -> <<>>

\* speech built by nesting commands around words and pauses
RECURSIVE Render(_, _)
\* item: <<"w", word>> | <<"p">> | <<"c", cmd, items>>
Render(e, items) ==
  IF items = <<>> THEN <<>>
  ELSE LET it == Head(items)
           here == CASE it[1] = "w" -> <<Word(it[2])>>
                     [] it[1] = "p" -> Pause(e)
                     [] OTHER -> Start(e, it[2]) \o Render(e, it[3]) \o End(e, it[2])
       IN here \o Render(e, Tail(items))
\* merge_pauses: a run of two or more pause elements becomes one
RECURSIVE MergePauses(_)
IsPause(t) == t.kind = "empty" /\ t.name \in {"break", "silence"}
MergePauses(s) == IF Len(s) < 2 THEN s
                  ELSE IF IsPause(s[1]) /\ IsPause(s[2]) THEN MergePauses(Tail(s))
                  ELSE <<s[1]>> \o MergePauses(Tail(s))

\* the pushdown automaton that judges a token sequence (also used on real speech by Trace_TTS)
RECURSIVE Balanced(_, _)
Balanced(s, stack) ==
  IF s = <<>> THEN stack = <<>>
  ELSE LET t == Head(s) IN
       IF t.kind = "open" THEN Balanced(Tail(s), <<t.name>> \o stack)
       ELSE IF t.kind = "close" THEN (stack # <<>> /\ Head(stack) = t.name /\ Balanced(Tail(s), Tail(stack)))
       ELSE Balanced(Tail(s), stack)
InVocabulary(e, s) == \A i \in 1..Len(s) : s[i].kind = "word" \/ s[i].name \in Vocabulary(e)
Words(s) == SelectSeq(s, LAMBDA t : t.kind = "word")

\* the model: all nestings of <= 2 commands around words and pauses
Leaf == {<<<<"w", "x">>>>, <<<<"w", "x">>, <<"p">>, <<"p">>, <<"w", "y">>>>, <<<<"p">>>>, <<>>}
Level1 == Leaf \cup {<<<<"c", c, b>>>> : c \in Wrapping, b \in Leaf} \cup {<<<<"w", "a">>, <<"c", c, b>>, <<"p">>>> : c \in Wrapping, b \in Leaf}
Level2 == Level1 \cup {<<<<"c", c, b>>>> : c \in Wrapping, b \in {x \in Level1 : Len(x) <= 1}}
VARIABLES engine, items
vars == <<engine, items>>
Init == engine \in Engines /\ items \in Level2
Next == UNCHANGED vars
Spec == Init /\ [][Next]_vars
Speech == MergePauses(Render(engine, items))
WellNested == Balanced(Speech, <<>>)
OnlyEngineTags == InVocabulary(engine, Speech)
WordsUnchanged == Words(Speech) = Words(MergePauses(Render("None", items)))
NoMarkupWithoutEngine == engine = "None" => \A i \in 1..Len(Speech) : Speech[i].kind = "word"
=============================================================================
