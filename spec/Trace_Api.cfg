SPECIFICATION TSpec
CONSTANT MaxLen = 0
POSTCONDITION Consumed
CHECK_DEADLOCK FALSE
