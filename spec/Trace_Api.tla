------------------------------ MODULE Trace_Api ------------------------------
(* M3 for C08: every recorded public call answers Ok or Err within the time bound - whatever the arguments and the   *)
(* history.  The abstract state of Api.tla (rules directory accepted, expression set) is re-bound from the log, and   *)
(* the model's prediction of WHICH answer comes is compared at refinement level only.                                *)
EXTENDS Api, IOUtils
Rec == ndJsonDeserialize(IOEnv.TRACE)
VARIABLE l
tvars == <<l, rules, expr, alive, last, hist>>
Bound == 15000        \* ms
\* hb / ha: fingerprint of get_preference over every known name before / after the call ("" when not recorded).  Only
\* set_preference and set_rules_dir (which reads prefs.yaml) may change it: "an error leaves the session as it was" and "a valid
\* expression after it behaves as in a fresh session" both fail when some other call leaves a preference changed behind.
\* (navigation writes its mode back: NavMode is not among the names that are read for the fingerprint)
\* (before a rules directory is accepted the first call of any kind makes the API defaults appear: not judged)
PrefsKept(e) == ~rules \/ e.call \in {"set_preference", "set_rules_dir"} \/ e.hb = "" \/ e.ha = "" \/ e.hb = e.ha
Reason(e) == IF e.res \notin {"ok", "err"} THEN "no-answer-" \o e.res
             ELSE IF e.ms > Bound THEN "too-slow"
             ELSE IF ~PrefsKept(e) THEN "call-left-a-preference-changed" ELSE "ok"
TInit == l = 1 /\ rules = FALSE /\ expr = FALSE /\ alive = TRUE /\ last = [call |-> <<"init", "-">>, res |-> "ok"] /\ hist = <<>>
TNext == /\ l <= Len(Rec)
         /\ LET e == Rec[l] c == <<e.call, e.cls>> IN
              IF e.call = "session" THEN rules' = FALSE /\ expr' = FALSE /\ UNCHANGED <<alive, last, hist>>
              ELSE /\ (Reason(e) # "ok" => PrintT(<<"REJECT", l, Reason(e)>>))
                   /\ (Reason(e) = "ok" /\ e.probe = 0 /\ Predicted(c) # "either" /\ Predicted(c) # e.res
                          => PrintT(<<"DRIFT", l, "predicted-" \o Predicted(c)>>))
                   /\ rules' = (rules \/ (e.call = "set_rules_dir" /\ e.res = "ok"))
                   /\ expr' = (expr \/ (e.call = "set_mathml" /\ e.res = "ok"))
                   /\ UNCHANGED <<alive, last, hist>>
         /\ l' = l + 1
TSpec == TInit /\ [][TNext]_tvars
Consumed == PrintT(<<"CONSUMED", TLCGet("stats").diameter - 1>>)
=============================================================================
