------------------------------ MODULE Trace_Api ------------------------------
(* M3 for C08: every recorded public call answers Ok or Err within the time bound - whatever the arguments and the   *)
(* history.  The abstract state of Api.tla (rules directory accepted, expression set) is re-bound from the log, and   *)
(* the model's prediction of WHICH answer comes is compared at refinement level only.                                *)
EXTENDS Api, IOUtils
Rec == ndJsonDeserialize(IOEnv.TRACE)
VARIABLE l
tvars == <<l, rules, expr, alive, last, hist>>
Bound == 15000        \* ms
Reason(e) == IF e.res \notin {"ok", "err"} THEN "no-answer-" \o e.res
             ELSE IF e.ms > Bound THEN "too-slow" ELSE "ok"
TInit == l = 1 /\ rules = FALSE /\ expr = FALSE /\ alive = TRUE /\ last = [call |-> <<"init", "-">>, res |-> "ok"] /\ hist = <<>>
TNext == /\ l <= Len(Rec)
         /\ LET e == Rec[l] c == <<e.call, e.cls>> IN
              IF e.call = "session" THEN rules' = FALSE /\ expr' = FALSE /\ UNCHANGED <<alive, last, hist>>
              ELSE /\ (Reason(e) # "ok" => PrintT(<<"REJECT", l, Reason(e)>>))
                   /\ (Reason(e) = "ok" /\ e.probe = 0 /\ Predicted(c) # "either" /\ Predicted(c) # e.res
                          => PrintT(<<"DRIFT", l, "predicted-" \o Predicted(c)>>))
                   /\ rules' = (rules \/ (e.call = "set_rules_dir" /\ e.res = "ok"))
                   /\ expr' = (expr \/ (e.call = "set_mathml" /\ e.res = "ok"))
                   /\ UNCHANGED <<alive, last, hist>>
         /\ l' = l + 1
TSpec == TInit /\ [][TNext]_tvars
Consumed == PrintT(<<"CONSUMED", TLCGet("stats").diameter - 1>>)
=============================================================================
