---------------------------- MODULE Trace_Braille ----------------------------
(***************************************************************************)
(* M3 for C07: the braille string uses only the target alphabet.           *)
(* Event: [kind, res, visible, out, undef, hlSame, allowed8]               *)
(*  kind     "cell" (Nemeth, UEB, CMU, Vietnam) | "text" (LaTeX, ASCIIMath)*)
(*  out      code points of get_braille("") with highlighting Off          *)
(*  undef    code points of the characters of the canonical MathML for     *)
(*           which the code's Unicode files define nothing (pass-through   *)
(*           by design: outside the guarantee)                             *)
(*  hlSame   1 iff for every highlight style get_braille("") and           *)
(*           get_braille(unknown id) equal the Off output                  *)
(*  allowed8 8-dot cells that literally occur in the code's rule files     *)
(***************************************************************************)
EXTENDS Naturals, Sequences, FiniteSets, TLC, Json, IOUtils
Rec == ndJsonDeserialize(IOEnv.TRACE)
VARIABLE l
ToSet(s) == {s[i] : i \in 1..Len(s)}
Cells == 10240..10495                           \* U+2800..U+28FF
SixDot == 10240..10303                          \* U+2800..U+283F
Markers == {63742, 63741, 63738, 57354} \cup (57344..63743)   \* the library's private-use markers (all of the BMP private-use area)
Printable(c) == c >= 32 /\ c # 127
Reason(e) ==
  IF e.kind = "cellhl" THEN      \* get_braille(id of the expression) under a highlight style: cells only (6- or 8-dot)
       (IF e.res # "ok" THEN "ok"      \* success for ids of the expression is C20's clause
        ELSE IF \E c \in ToSet(e.out) : c \notin Cells /\ c \notin ToSet(e.undef) THEN "non-braille-character-in-highlighted-output" ELSE "ok")
  ELSE IF e.kind = "texthl" THEN      \* text codes: nothing but printable ASCII and the characters of the unhighlighted output
       (IF e.res # "ok" THEN "ok"
        ELSE IF \E c \in ToSet(e.out) : c \notin 32..126 /\ c \notin ToSet(e.off) /\ c \notin ToSet(e.undef) THEN "marker-in-highlighted-text-code-output" ELSE "ok")
  ELSE IF e.res # "ok" THEN (IF e.visible = 1 THEN "no-braille-" \o e.res ELSE "ok")
  ELSE IF e.visible = 1 /\ e.out = <<>> THEN "empty-braille-for-visible-content"
  ELSE IF e.kind = "cell" /\ \E c \in ToSet(e.out) : c \notin Cells /\ c \notin ToSet(e.undef) THEN "non-braille-character-in-output"
  ELSE IF e.kind = "cell" /\ \E c \in ToSet(e.out) : c \in Cells /\ c \notin SixDot /\ c \notin ToSet(e.allowed8) THEN "dots-7-8-without-highlight"
  ELSE IF e.hlSame # 1 THEN "highlight-without-a-navigation-node"
  ELSE IF e.kind = "text" /\ \E c \in ToSet(e.out) : (c \in Markers \/ ~Printable(c)) /\ c \notin ToSet(e.undef) THEN "marker-or-unprintable-in-text-code"
  ELSE "ok"
TInit == l = 1
TNext == /\ l <= Len(Rec)
         /\ LET e == Rec[l] IN (Reason(e) # "ok" => PrintT(<<"REJECT", l, Reason(e)>>))
         /\ l' = l + 1
TSpec == TInit /\ [][TNext]_l
Consumed == PrintT(<<"CONSUMED", TLCGet("stats").diameter - 1>>)
=============================================================================
