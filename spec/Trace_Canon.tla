----------------------------- MODULE Trace_Canon -----------------------------
(***************************************************************************)
(* M3 for C01, C02, C09: every recorded set_mathml(input) = Ok(output) of  *)
(* the real library is judged by the oracles of Canon.tla.                 *)
(* Event: [inp (tree or leaf "none"), hasInp, out (tree), parses, dupIds]  *)
(* One event per step; verdicts are printed as                             *)
(*   <<"REJECT", index, "<property>:<reason>">>.                           *)
(***************************************************************************)
EXTENDS Canon, Json, IOUtils

Rec == ndJsonDeserialize(IOEnv.TRACE)
VARIABLE l

\* C01: nothing visible lost or invented (only when the driver could parse the input independently)
C01Reason(e) == IF e.parses = 1 /\ e.hasInp = 1 /\ ~SameVisible(e.inp, e.out) THEN "C01:visible-content-differs" ELSE "ok"
\* C02: the returned string is well-formed canonical MathML
C02Reason(e) == IF e.parses # 1 THEN "C02:returned-string-is-not-well-formed-xml"
                ELSE IF e.out.tag # "math" THEN "C02:root-is-not-math"
                ELSE IF FirstBad(e.out) # "ok" THEN "C02:" \o FirstBad(e.out)
                ELSE "ok"
\* C09: ids
C09Reason(e) ==
  IF e.parses # 1 THEN "ok"
  ELSE IF ~AllHaveIds(e.out) THEN "C09:element-without-id"
  ELSE IF ~LibraryIdsFresh(e.out) THEN "C09:library-id-not-fresh"
  ELSE IF e.hasInp = 1 /\ e.dupIds = 0 /\ ~Distinct(IdSeq(e.out)) THEN "C09:duplicate-ids"
  ELSE IF e.hasInp = 1 /\ e.dupIds = 0 /\ \E tok \in ToSet(TokensWithIds(e.inp)) :
                                                  SurvivesInOneToken(e.out, tok, e.inp) /\ ~AuthorIdKept(e.out, tok)
       THEN "C09:author-id-not-on-its-token"
  ELSE "ok"

TInit == l = 1
TNext == /\ l <= Len(Rec)
         /\ LET e == Rec[l] IN
              /\ (C01Reason(e) # "ok" => PrintT(<<"REJECT", l, C01Reason(e)>>))
              /\ (C02Reason(e) # "ok" => PrintT(<<"REJECT", l, C02Reason(e)>>))
              /\ (C09Reason(e) # "ok" => PrintT(<<"REJECT", l, C09Reason(e)>>))
         /\ l' = l + 1
TSpec == TInit /\ [][TNext]_l
Consumed == PrintT(<<"CONSUMED", TLCGet("stats").diameter - 1>>)
=============================================================================
