----------------------------- MODULE Trace_Chem -----------------------------
(***************************************************************************)
(* M3 for Chem.tla: one event per set_mathml from the hook chem_scan       *)
(*   [before  rows that canonicalization had added when the chemistry scan *)
(*            started (mrow data-changed='added')                          *)
(*    after   ... when it returned                                         *)
(*    reparse 1: the scan asked canonicalize() for the second parse]       *)
(* The observed step is bound to the state of Chem.tla after Decide with   *)
(* one region: rows went away <=> the region is not parsed; the model's    *)
(* RowsLostImpliesReparse is evaluated on it (property level: a place      *)
(* whose rows were removed and that is not parsed again is not bracketed). *)
(***************************************************************************)
EXTENDS Naturals, Sequences, TLC, Json, IOUtils
Rec == ndJsonDeserialize(IOEnv.TRACE)
VARIABLES pc, topMarked, topChem, cellMarked, cellRows, cellParsed, topParsed, tableMark, walked, reparse, l
C == INSTANCE Chem WITH Cells <- {"region"}, CellUnmarkDropsChange <- FALSE
TInit == /\ l = 1 /\ pc = "parsed1" /\ topMarked = FALSE /\ topChem = FALSE /\ cellMarked = [c \in {"region"} |-> FALSE]
         /\ cellRows = [c \in {"region"} |-> TRUE] /\ cellParsed = [c \in {"region"} |-> TRUE] /\ topParsed = TRUE
         /\ tableMark = FALSE /\ walked = FALSE /\ reparse = FALSE
TNext == /\ l <= Len(Rec)
         /\ LET e == Rec[l] IN
              /\ pc' = "decided" /\ reparse' = (e.reparse = 1)
              /\ cellParsed' = [c \in {"region"} |-> e.after >= e.before] /\ topParsed' = TRUE
              /\ UNCHANGED <<topMarked, topChem, cellMarked, cellRows, tableMark, walked>>
              /\ (~C!RowsLostImpliesReparse' => PrintT(<<"REJECT", l, "rows-removed-by-the-chemistry-scan-and-no-second-parse">>))
         /\ l' = l + 1
TSpec == TInit /\ [][TNext]_<<pc, topMarked, topChem, cellMarked, cellRows, cellParsed, topParsed, tableMark, walked, reparse, l>>
Consumed == PrintT(<<"CONSUMED", TLCGet("stats").diameter - 1>>)
=============================================================================
