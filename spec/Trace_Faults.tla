----------------------------- MODULE Trace_Faults -----------------------------
(***************************************************************************)
(* M3 for C14 (first half): every public call made while a rule file is    *)
(* damaged.  Event: [call, res, phase, readDamaged, namesFile, shape].     *)
(*  - nothing panics, aborts or hangs, whatever the damage                 *)
(*  - a call that fails while the loading layer was reading the damaged    *)
(*    file (the file-read hook saw it in this call) names that file        *)
(*  - Ok answers are allowed (served from cache; a truncated but valid     *)
(*    file simply is a smaller rule set)                                   *)
(*  - with every file good again (phase "post") and file checking on or    *)
(*    the directory re-pointed, no call fails                              *)
(* The "identical to what it was before the fault" half is the memo rule   *)
(* (Trace_Memo.tla) over the pre-fault, reference and post-repair outputs. *)
(***************************************************************************)
EXTENDS Naturals, Sequences, TLC, Json, IOUtils
Rec == ndJsonDeserialize(IOEnv.TRACE)
VARIABLE l
Reason(e) ==
  IF e.res \notin {"ok", "err"} THEN "no-answer-" \o e.res
  ELSE IF e.phase = "fault" /\ e.res = "err" /\ e.readDamaged = 1 /\ e.namesFile = 0 THEN "error-does-not-name-the-damaged-file"
  ELSE IF e.phase = "post" /\ e.res = "err" THEN "still-failing-after-repair"
  ELSE "ok"
TInit == l = 1
TNext == /\ l <= Len(Rec)
         /\ LET e == Rec[l] IN (Reason(e) # "ok" => PrintT(<<"REJECT", l, Reason(e)>>))
         /\ l' = l + 1
TSpec == TInit /\ [][TNext]_l
Consumed == PrintT(<<"CONSUMED", TLCGet("stats").diameter - 1>>)
=============================================================================
