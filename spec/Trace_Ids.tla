------------------------------ MODULE Trace_Ids ------------------------------
(* M3 for the second clause of C09 (and the bookmark clause of C13): every id the library hands out after    *)
(* set_mathml - bookmark marks embedded in speech, the node under a braille cell, the navigation node -       *)
(* is an id present in the MathML that set_mathml returned.  Event: [ids, handed, kind].                      *)
EXTENDS Naturals, Sequences, FiniteSets, TLC, Json, IOUtils
Rec == ndJsonDeserialize(IOEnv.TRACE)
VARIABLE l
ToSet(s) == {s[i] : i \in 1..Len(s)}
Foreign(e) == ToSet(e.handed) \ ToSet(e.ids)
TInit == l = 1
TNext == /\ l <= Len(Rec)
         /\ LET e == Rec[l] IN (Foreign(e) # {} => PrintT(<<"REJECT", l, "handed-out-id-not-in-returned-mathml:" \o e.kind>>))
         /\ l' = l + 1
TSpec == TInit /\ [][TNext]_l
Consumed == PrintT(<<"CONSUMED", TLCGet("stats").diameter - 1>>)
=============================================================================
