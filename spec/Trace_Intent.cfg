SPECIFICATION TSpec
CONSTANTS MaxLen = 0
POSTCONDITION Consumed
CHECK_DEADLOCK FALSE
