----------------------------- MODULE Trace_Intent -----------------------------
(***************************************************************************)
(* M2/M3 for C19.  One event per (intent value, host expression):          *)
(*  [s          the value as character classes                             *)
(*   dangling   1: a $name of the value has no matching arg below the host *)
(*   refPlaces  where the arg of each resolvable $name sits (Placements of  *)
(*              Intent.tla)                                                *)
(*   known      1: the head is a concept some rule file knows              *)
(*   setOk      set_mathml accepted the expression with the attribute      *)
(*   ignoreRes, errorRes   "ok" | "err" | "panic" of get_spoken_text under *)
(*              IntentErrorRecovery = IgnoreIntent / Error                 *)
(*   ignoreIsPlain   IgnoreIntent speech = speech without the attribute    *)
(*   bothEqual       the two modes give the same speech                    *)
(*   mentions   1: the speech has the words of the head and the speech of  *)
(*              every referenced argument                                  *)
(*   pure       1: afterwards the expression still has the attribute, no   *)
(*              data-intent-property, and the same braille as before]      *)
(***************************************************************************)
EXTENDS Intent, IOUtils
Rec == ndJsonDeserialize(IOEnv.TRACE)
VARIABLE l
Dangling(e) == e.dangling = 1 \/ \E i \in 1..Len(e.refPlaces) : ~InScope(e.refPlaces[i])
Reason(e) ==
  IF e.setOk = 0 THEN "intent-value-makes-set_mathml-fail"
  ELSE IF e.ignoreRes # "ok" THEN "speech-fails-although-intent-errors-are-to-be-ignored"
  ELSE IF e.errorRes = "panic" THEN "panic-in-error-mode"
  ELSE IF e.errorRes = "err" /\ e.ignoreIsPlain = 0 THEN "ignored-intent-changes-the-speech"
  ELSE IF e.errorRes = "ok" /\ e.bothEqual = 0 THEN "modes-disagree-on-an-accepted-intent"
  ELSE IF (ClearlyIllegal(e.s) \/ (Dangling(e) /\ Legal(e.s, FALSE))) /\ e.errorRes = "ok" THEN "illegal-intent-not-reported-in-error-mode"
  ELSE IF (ClearlyLegalSimple(e.s) \/ ClearlyLegalChain(e.s)) /\ ~Dangling(e) /\ e.known = 0 /\ e.errorRes # "ok" THEN "legal-intent-rejected"
  ELSE IF (ClearlyLegalSimple(e.s) \/ ClearlyLegalChain(e.s)) /\ ~Dangling(e) /\ e.known = 0 /\ e.mentions = 0 THEN "legal-intent-not-honoured"
  ELSE IF e.pure = 0 THEN "speaking-changed-the-expression"
  ELSE "ok"
TInit == l = 1 /\ str = <<>>
TNext == /\ l <= Len(Rec)
         /\ LET e == Rec[l] IN (Reason(e) # "ok" => PrintT(<<"REJECT", l, Reason(e)>>))
         /\ l' = l + 1 /\ UNCHANGED str
TSpec == TInit /\ [][TNext]_<<l, str>>
Consumed == PrintT(<<"CONSUMED", TLCGet("stats").diameter - 1>>)
=============================================================================
