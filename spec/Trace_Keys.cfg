SPECIFICATION TSpec
CONSTANT KeyUniverse = {0}
POSTCONDITION Consumed
CHECK_DEADLOCK FALSE
