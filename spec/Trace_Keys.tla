----------------------------- MODULE Trace_Keys -----------------------------
(***************************************************************************)
(* M2/M3 for the key-press entry point: every (key, modifiers) of Keys.tla *)
(* was pressed in the real library from several start states, and the      *)
(* command the table of Keys.tla names was executed from the same start    *)
(* state (the twin).                                                       *)
(*                                                                         *)
(* Property level: the call answers (C08) and leaves the position on a     *)
(* node of the expression (C11) - whatever the key means.                  *)
(* Refinement level (MODEL-DRIFT): a key press is exactly the command of   *)
(* the table - same answer class, same landing position, same speech; a    *)
(* refused combination answers Err and does not move.  A maintainer may    *)
(* re-map keys without breaking any listed property, hence drift only.     *)
(***************************************************************************)
EXTENDS Keys, Json, IOUtils
Rec == ndJsonDeserialize(IOEnv.TRACE)
VARIABLES l, nodes
tvars == <<l, nodes, key, mods, out>>
ToSet(s) == {s[i] : i \in 1..Len(s)}
M(e) == [shift |-> e.shift, ctrl |-> e.ctrl, alt |-> e.alt, meta |-> e.meta]

Reason(e) ==
  IF e.res \notin {"ok", "err"} THEN "key-press-no-answer-" \o e.res
  ELSE IF nodes # {} /\ e.after[1] \notin nodes THEN "position-not-in-expression-after-key-press"
  ELSE "ok"
Drift(e) ==
  LET c == KeyCommand(e.key, M(e)) IN
  IF e.twinCmd # c THEN "driver-used-another-command-than-the-table"
  ELSE IF c = "bail" THEN (IF e.res # "err" THEN "refused-combination-answered-ok"
                           ELSE IF e.after # e.before THEN "refused-combination-moved" ELSE "ok")
  ELSE IF c = "Error" THEN (IF e.after # e.before THEN "error-command-moved" ELSE "ok")
  ELSE IF e.res # e.twinRes THEN "key-answers-" \o e.res \o "-command-answers-" \o e.twinRes
  ELSE IF e.after # e.twinAfter THEN "key-lands-elsewhere-than-its-command"
  \* (ToggleSpeakMode flips NavigationState.speak_overview, which is neither a preference nor reset by set_mathml: the twin, executed
  \*  after the key press, flips it back and says the opposite phrase - the session is in its start state again afterwards)
  ELSE IF c # "ToggleSpeakMode" /\ e.say # e.twinSay THEN "key-speaks-differently-from-its-command"
  ELSE IF Class(c) \in {"Read", "Describe", "WhereAmI", "ToggleSpeak", "SetPlacemarker", "Exit"} /\ e.after # e.before THEN "read-only-key-moved"
  ELSE "ok"

TInit == l = 1 /\ nodes = {} /\ key = 0 /\ mods = [shift |-> FALSE, ctrl |-> FALSE, alt |-> FALSE, meta |-> FALSE] /\ out = "trace"
TNext == /\ l <= Len(Rec)
         /\ LET e == Rec[l] IN
              IF e.k = "set" THEN nodes' = ToSet(e.nodes)
              ELSE /\ (Reason(e) # "ok" => PrintT(<<"REJECT", l, Reason(e)>>))
                   /\ (Reason(e) = "ok" /\ Drift(e) # "ok" => PrintT(<<"DRIFT", l, Drift(e)>>))
                   /\ UNCHANGED nodes
         /\ l' = l + 1 /\ UNCHANGED <<key, mods, out>>
TSpec == TInit /\ [][TNext]_tvars
Consumed == PrintT(<<"CONSUMED", TLCGet("stats").diameter - 1>>)
=============================================================================
