SPECIFICATION TSpec
CONSTANTS
  Langs = {"en", "sv", "es"}
  Styles = {"ClearSpeak", "SimpleSpeak"}
  StyleUnderAutoIsEn = FALSE
  AutoRecordsEn = FALSE
  RepointUnderAutoIsEn = FALSE
POSTCONDITION Consumed
CHECK_DEADLOCK FALSE
