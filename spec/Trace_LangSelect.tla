--------------------------- MODULE Trace_LangSelect ---------------------------
(***************************************************************************)
(* Behaviours of LangSelect.tla (every sequence of at most Depth calls,    *)
(* exported by TLC) executed in the real library; after each call the      *)
(* three preferences are read back and the files the speech rule table     *)
(* actually loaded are projected from the cache_state hook.                *)
(*                                                                         *)
(* Property level (C10): the files in use are a function of the CURRENT    *)
(* values of Language, LanguageAuto and SpeechStyle - the same values      *)
(* reached by another history (in any session of the run) show the same    *)
(* files.  Refinement level: each recorded step is a step of               *)
(* LangSelect!Next (the action named by the event, evaluated as a          *)
(* predicate on the recorded state before and after).                      *)
(***************************************************************************)
EXTENDS LangSelect, Json, IOUtils
Rec == ndJsonDeserialize(IOEnv.TRACE)
VARIABLES l, memo
tvars == <<l, memo, lang, langAuto, style, files, act>>

Obs(e) == Files(e.obs[1], e.obs[2], e.obs[3])
Key(e) == <<e.lang, e.langAuto, e.style>>
StepOf(e) == IF e.name = "Language" THEN SetLanguage(e.value)
             ELSE IF e.name = "LanguageAuto" THEN SetLanguageAuto(e.value)
             ELSE IF e.name = "SpeechStyle" THEN SetStyle(e.value)
             ELSE Repoint

TInit == /\ l = 1 /\ memo = [k \in {} |-> Files("", "", "")]
         /\ lang = "Auto" /\ langAuto = "" /\ style = "ClearSpeak" /\ files = Files("en", "ClearSpeak", "en") /\ act = <<"init", "">>
TNext ==
  /\ l <= Len(Rec)
  /\ LET e == Rec[l] IN
       IF e.k = "session"         \* a fresh thread: the state of LangSelect!Init with the style the session starts with
       THEN /\ lang' = "Auto" /\ langAuto' = "" /\ style' = e.style /\ files' = Files("en", e.style, "en") /\ act' = <<"init", "">>
            /\ UNCHANGED memo
       ELSE /\ lang' = e.lang /\ langAuto' = e.langAuto /\ style' = e.style /\ files' = Obs(e) /\ act' = <<e.name, e.value>>
            /\ (e.res # "ok" => PrintT(<<"DRIFT", l, "call-answered-" \o e.res>>))
            /\ (e.res = "ok" /\ Key(e) \in DOMAIN memo /\ memo[Key(e)] # Obs(e) => PrintT(<<"REJECT", l, "same-preferences-different-files">>))
            /\ (e.res = "ok" /\ ~(Key(e) \in DOMAIN memo /\ memo[Key(e)] # Obs(e)) /\ ~StepOf(e) => PrintT(<<"DRIFT", l, "not-a-step-of-LangSelect-" \o e.name>>))
            /\ memo' = IF e.res = "ok" /\ Key(e) \notin DOMAIN memo THEN memo @@ (Key(e) :> Obs(e)) ELSE memo
  /\ l' = l + 1
TSpec == TInit /\ [][TNext]_tvars
Consumed == PrintT(<<"CONSUMED", TLCGet("stats").diameter - 1>>)
=============================================================================
