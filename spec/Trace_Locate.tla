----------------------------- MODULE Trace_Locate -----------------------------
(***************************************************************************)
(* M2/M3 for C15: the files a session resolved (prefs_dump hook) against   *)
(* LocateOps on the tree the session ran on.  One event per selection:     *)
(*  [files, dirs        the tree (paths relative to the rules directory)   *)
(*   lang               language tag split at '-'                          *)
(*   sf, cf             style / code rule file names                       *)
(*   code               [name, parts]                                      *)
(*   res                "ok" | "err" (of the set_preference calls)         *)
(*   got                kind -> resolved path ([] when unknown)            *)
(*   styleFiles]        the names in this tree or request that end with _Rules.yaml *)
(***************************************************************************)
EXTENDS Naturals, Sequences, FiniteSets, TLC, Json, IOUtils
Rec == ndJsonDeserialize(IOEnv.TRACE)
VARIABLE l
ToSet(s) == {s[i] : i \in 1..Len(s)}
StyleFilesAll == UNION {IF "styleFiles" \in DOMAIN Rec[i] THEN ToSet(Rec[i].styleFiles) ELSE {} : i \in 1..Len(Rec)}
Ops == INSTANCE LocateOps WITH StyleFiles <- StyleFilesAll, CodeTakenLiterally <- FALSE, EmptyDirIsNoLanguage <- TRUE
Intended == INSTANCE LocateOps WITH StyleFiles <- StyleFilesAll, CodeTakenLiterally <- TRUE, EmptyDirIsNoLanguage <- TRUE
DefLang == <<"en">>
DefCode == [name |-> "UEB", parts |-> <<"UEB">>]
Kinds == Ops!SpeechKinds \cup Ops!BrailleKinds \cup {"speech", "braille"}
Expected(e) == Ops!ResolveF(ToSet(e.dirs), ToSet(e.files), e.lang, e.sf, e.code, e.cf, DefLang, DefCode)
Wanted(e) == Intended!ResolveF(ToSet(e.dirs), ToSet(e.files), e.lang, e.sf, e.code, e.cf, DefLang, DefCode)
\* a second kind of event: after a getter, the first file each table was loaded from (cache_state hook) against what the
\* session resolved (prefs_dump hook): [loaded |-> kind -> path, resolved |-> kind -> path]
Reason(e) ==
  LET x == Expected(e) IN
  IF "loaded" \in DOMAIN e THEN
     (IF \E k \in DOMAIN e.loaded : e.loaded[k] # e.resolved[k] THEN "loaded-differs-from-resolved" ELSE "ok")
  ELSE IF e.res # "ok" THEN (IF \A k \in Kinds : x[k] # {} THEN "selection-failed" ELSE "ok")
  ELSE IF \E k \in Kinds : x[k] = {} THEN "selection-succeeded-without-files"
  ELSE IF \E k \in Kinds : e.got[k] \notin x[k] THEN "resolved-elsewhere"
  \* property level: a code (language) that has a directory of its own with rule files is served from it
  ELSE IF \E k \in {"braille"} : e.got[k] \notin Wanted(e)[k] THEN "shipped-code-not-served-from-its-directory"
  ELSE "ok"
TInit == l = 1
TNext == /\ l <= Len(Rec)
         /\ LET e == Rec[l] IN (Reason(e) # "ok" => PrintT(<<"REJECT", l, Reason(e)>>))
         /\ l' = l + 1
TSpec == TInit /\ [][TNext]_l
Consumed == PrintT(<<"CONSUMED", TLCGet("stats").diameter - 1>>)
=============================================================================
