------------------------- MODULE Trace_MathVariant -------------------------
(* M3 for C18: every recorded (mathvariant, token text) -> returned text pair of the real library is judged  *)
(* by the predicates of MathVariant.tla.  One event per step; the verdicts are printed, never guessed.       *)
EXTENDS MathVariant, IOUtils, SequencesExt

Rec == ndJsonDeserialize(IOEnv.TRACE)

VARIABLES l, seen
tvars == <<l, seen, style, ch>>

Ev == Rec[l]

\* property level: exactly what C18 states
LengthKept(e) == Len(e.out) = Len(e.inp)
PointwiseAccepted(e) == \A i \in 1..Len(e.inp) : e.out[i] \in Accept(e.style, e.inp[i])
NoUnassigned(e) == \A i \in 1..Len(e.out) : e.out[i] \in UcdAssigned \/ (i <= Len(e.inp) /\ e.out[i] = e.inp[i])
\* one-to-one within a style, over everything observed so far in the run (only base characters are judged)
Pairs(e) == {<<e.style, e.inp[i], e.out[i]>> : i \in {j \in 1..Len(e.inp) : e.inp[j] \in BaseChars}}
Clash(e) == \E p \in Pairs(e), q \in seen \cup Pairs(e) : p[1] = q[1] /\ p[3] = q[3] /\ p[2] # q[2]

Reason(e) == IF ~LengthKept(e) THEN "length"
             ELSE IF ~PointwiseAccepted(e) THEN "not-the-unicode-character"
             ELSE IF ~NoUnassigned(e) THEN "unassigned"
             ELSE IF Clash(e) THEN "not-injective" ELSE "ok"
\* refinement level: the as-built model predicts the exact character
Drift(e) == LengthKept(e) /\ \E i \in 1..Len(e.inp) : e.out[i] # Impl(e.style, e.inp[i])

TInit == l = 1 /\ seen = {} /\ style = "normal" /\ ch = 0
TNext == /\ l <= Len(Rec)
         /\ LET e == Ev r == Reason(e) IN
              /\ (r # "ok" => PrintT(<<"REJECT", l, r>>))
              /\ (r = "ok" /\ Drift(e) => PrintT(<<"DRIFT", l, "impl-model">>))
              /\ seen' = IF LengthKept(e) THEN seen \cup Pairs(e) ELSE seen
         /\ l' = l + 1
         /\ UNCHANGED <<style, ch>>
TSpec == TInit /\ [][TNext]_tvars

Consumed == PrintT(<<"CONSUMED", TLCGet("stats").diameter - 1>>) /\
            (TLCGet("stats").diameter - 1 = Len(Rec) \/ PrintT("TRACE-NOT-CONSUMED"))
=============================================================================
