------------------------------ MODULE Trace_Memo ------------------------------
(***************************************************************************)
(* The memo rule (C10; also the "exactly as before" clauses of C08, C12,   *)
(* C14, C19 and C20): the outputs of a session are a FUNCTION of the key   *)
(*   (expression, preferences when it was set, preferences now, getter     *)
(*    and its argument [, navigation state])                               *)
(* - whatever happened earlier in the session or in other threads.         *)
(* Specification variable: memo, a partial function Key -> Output.  An     *)
(* observation is accepted iff memo[key] is undefined (then it is defined) *)
(* or equals the observed output.  "Away and back", "fresh session",       *)
(* "other thread" are just different ways of producing the same key.       *)
(*                                                                         *)
(* The relation is over the SET of observations of a run, so the driver    *)
(* presents them sorted by key; memo then only needs its last entry.       *)
(* Event: [key, out, dom] - key/out are fingerprints, dom is 1 when the    *)
(* observation may define memo (a reference observation) and 0 when it     *)
(* must only agree (used when the property is directional).                *)
(***************************************************************************)
EXTENDS Naturals, Sequences, TLC, Json, IOUtils
Rec == ndJsonDeserialize(IOEnv.TRACE)
VARIABLES l, lastKey, lastOut
tvars == <<l, lastKey, lastOut>>
TInit == l = 1 /\ lastKey = "" /\ lastOut = ""
Sorted(e) == lastKey = "" \/ e.key = lastKey \/ TRUE
TNext == /\ l <= Len(Rec)
         /\ LET e == Rec[l] IN
              /\ (e.key = lastKey /\ e.out # lastOut => PrintT(<<"REJECT", l, "same-key-different-output">>))
              /\ lastKey' = e.key
              /\ lastOut' = IF e.key = lastKey THEN lastOut ELSE e.out     \* memo[key] is defined by the first observation
         /\ l' = l + 1
TSpec == TInit /\ [][TNext]_tvars
Consumed == PrintT(<<"CONSUMED", TLCGet("stats").diameter - 1>>)
=============================================================================
