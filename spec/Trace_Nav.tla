------------------------------ MODULE Trace_Nav ------------------------------
(***************************************************************************)
(* M3 for C11 (also used by C09 and C20): a recorded navigation session    *)
(* of the real library is validated against the navigation model.          *)
(*                                                                         *)
(* Property level (can fail the check) = exactly what C11 states; the      *)
(* state of the trace specification is re-bound from the log after every   *)
(* event, so one mismatch never derails the rest of the trace.             *)
(* Refinement level (MODEL-DRIFT only) = the stack discipline of Nav.tla   *)
(* compared with what the nav_state hook reports.                          *)
(***************************************************************************)
EXTENDS Naturals, Sequences, FiniteSets, TLC, Json, IOUtils

Rec == ndJsonDeserialize(IOEnv.TRACE)
NotSet == "!not set"
NoPos == <<NotSet, 0>>

VARIABLES l,          \* next event
          nodes,      \* ids of the current expression (from the last successful set_mathml)
          root,       \* id of its math element
          marks,      \* [0..9 -> position]: markers set during the life of the current expression
          lastFrom,   \* position before the last successful move if nothing but read-only commands followed it
          depth       \* position-stack depth reported by the hook after the previous event
tvars == <<l, nodes, root, marks, lastFrom, depth>>

MoveClasses == {"Move", "Zoom", "MoveTo"}
ReadOnlyClasses == {"Read", "Describe", "WhereAmI", "ToggleSpeak", "SetPlacemarker", "Exit", "Unknown"}
ToSet(s) == {s[i] : i \in 1..Len(s)}
NoMarks == [i \in 0..9 |-> NoPos]

\* ---- property level ----------------------------------------------------------------------------------
SetOK(e) ==            \* a new expression puts the position back on the whole expression and forgets the old one
  e.res = "ok" => (e.after[1] = e.root /\ e.navOk = 1)
CmdReason(e) ==
  LET nd == IF e.k = "set" /\ e.res = "ok" THEN ToSet(e.nodes) ELSE nodes IN
  IF e.k = "session" \/ nd = {} THEN "ok"                                   \* no expression has been set successfully yet: C11 is silent
  ELSE IF e.res \in {"panic", "crash", "hang"} THEN "ok" \* a crash is C08's verdict; the *next* event still judges the state
  ELSE IF e.after[1] \notin nd THEN "position-not-in-expression"
  ELSE IF e.navOk # 1 THEN "navigation-mathml-not-retrievable"
  ELSE IF e.k = "set" THEN (IF SetOK(e) THEN "ok" ELSE "set_mathml-did-not-reset-position")
  ELSE IF e.k = "setnode" THEN
       (IF e.res = "ok" /\ e.after # e.want THEN "set_navigation_node-not-honoured"
        ELSE IF e.res = "err" /\ e.after # e.before THEN "failed-set_navigation_node-moved" ELSE "ok")
  ELSE IF e.cls \in ReadOnlyClasses /\ e.after # e.before THEN "read-only-command-moved"
  \* (a command that reports an error and leaves the position alone has not "moved to"/"undone" anything)
  \* (C11 speaks of the marked NODE: the character offset inside a leaf is not part of the clause)
  ELSE IF e.cls = "MoveTo" /\ marks[e.idx] # NoPos /\ marks[e.idx][1] # root /\ e.after[1] # marks[e.idx][1]
          /\ ~(e.res = "err" /\ e.after = e.before)
       THEN "moveto-did-not-return-to-marker"
  ELSE IF e.cls = "MoveLastLocation" /\ lastFrom # NoPos /\ e.after[1] # lastFrom[1] /\ ~(e.res = "err" /\ e.after = e.before)
       THEN "undo-did-not-return"
  ELSE "ok"

\* ---- refinement level (Nav.tla's stack discipline against the hook) --------------------------------------
DriftReason(e) ==
  IF e.k = "session" THEN "ok"
  ELSE IF e.depthP # e.depthC THEN "stacks-out-of-step"
  ELSE IF e.k = "set" /\ e.res = "ok" /\ e.depthP # 0 THEN "reset-left-stack"
  ELSE IF e.k = "set" /\ e.res = "ok" /\ \E i \in 1..Len(e.markers) : e.markers[i] # NotSet THEN "reset-kept-markers"
  ELSE IF e.k = "cmd" /\ e.res = "ok" /\ e.cls \in ReadOnlyClasses \cup {"Toggle"} /\ e.depthP # (IF depth = 0 THEN 1 ELSE depth)
       THEN "read-only-command-changed-stack-depth"
  ELSE IF e.k = "cmd" /\ e.res = "ok" /\ e.cls = "MoveLastLocation" /\ e.depthP # (IF depth <= 1 THEN 0 ELSE depth - 1)
       THEN "undo-did-not-pop-exactly-one"
  ELSE IF e.k = "cmd" /\ e.res = "ok" /\ e.cls \in MoveClasses /\ e.depthP > (IF depth = 0 THEN 1 ELSE depth) + 1
       THEN "move-left-intermediate-positions-on-stack"
  ELSE "ok"

TInit == /\ l = 1 /\ nodes = {} /\ root = NotSet /\ marks = NoMarks /\ lastFrom = NoPos /\ depth = 0
\* A key press is recorded with the class of the command that Keys.tla's table names for it (e.viaKey = 1).  Which command a key means
\* is not part of C11 - a maintainer may re-map keys -, so the clauses that depend on the class are refinement level for key presses;
\* "on a node of the expression, retrievable" stays property level whatever the key means.
ClassFree == {"ok", "position-not-in-expression", "navigation-mathml-not-retrievable"}
TNext ==
  /\ l <= Len(Rec)
  /\ LET e == Rec[l] r0 == CmdReason(e)
         r == IF e.viaKey = 1 /\ r0 \notin ClassFree THEN "ok" ELSE r0
         d == IF e.viaKey = 1 /\ r0 \notin ClassFree THEN "key-press-" \o r0 ELSE DriftReason(e) IN
       /\ (r # "ok" => PrintT(<<"REJECT", l, r>>))
       /\ (r = "ok" /\ d # "ok" => PrintT(<<"DRIFT", l, d>>))
       \* re-bind the state from the log
       /\ IF e.k = "session"                                  \* a fresh thread = a fresh MathCAT session
          THEN nodes' = {} /\ root' = NotSet /\ marks' = NoMarks
          ELSE IF e.k = "set" /\ e.res = "ok"
          THEN nodes' = ToSet(e.nodes) /\ root' = e.root /\ marks' = NoMarks
          ELSE /\ UNCHANGED <<nodes, root>>
               \* a failed set_mathml keeps the old expression but has already reset navigation: the marker clause is
               \* only asserted between two set_mathml calls
               \* (a key press whose meaning the table does not give - cls "Key" - may set any marker: markers are unknown afterwards)
               /\ marks' = IF e.k = "set" \/ (e.k = "cmd" /\ e.cls = "Key") THEN NoMarks
                           ELSE IF e.k = "cmd" /\ e.cls = "SetPlacemarker" /\ e.res = "ok"
                           THEN [marks EXCEPT ![e.idx] = e.after]
                           \* a SetPlacemarker that reports an error may or may not have set the marker: not judged afterwards
                           ELSE IF e.k = "cmd" /\ e.cls = "SetPlacemarker" THEN [marks EXCEPT ![e.idx] = NoPos]
                           ELSE marks
       /\ lastFrom' = IF e.k = "cmd" /\ e.res = "ok" /\ e.cls \in MoveClasses /\ e.after[1] # e.before[1] THEN e.before
                      ELSE IF e.k = "cmd" /\ e.res = "ok" /\ e.cls \in (ReadOnlyClasses \ {"Exit", "Unknown"}) THEN lastFrom
                      ELSE NoPos
       /\ depth' = IF e.k = "session" THEN 0 ELSE e.depthP
  /\ l' = l + 1
TSpec == TInit /\ [][TNext]_tvars

Consumed == PrintT(<<"CONSUMED", TLCGet("stats").diameter - 1>>)
=============================================================================
