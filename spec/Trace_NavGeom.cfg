SPECIFICATION TSpec
POSTCONDITION Consumed
CHECK_DEADLOCK FALSE
