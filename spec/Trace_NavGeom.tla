---------------------------- MODULE Trace_NavGeom ----------------------------
(***************************************************************************)
(* Recorded navigation sessions of the real library against the landing    *)
(* laws of NavGeom.tla.  Refinement level only (MODEL-DRIFT): C11 says     *)
(* "on a node of the expression", not where - the laws describe what the   *)
(* shipped navigation rules do in all three modes, and a recorded step     *)
(* that breaks one says that rules and specification have diverged.        *)
(* Events: "set" carries the geometry of the new expression (id -> <<lo,   *)
(* hi>> preorder interval), "cmd" the command, its answer and the node ids *)
(* before and after.                                                       *)
(***************************************************************************)
EXTENDS Naturals, Sequences, FiniteSets, TLC, Json, IOUtils
Rec == ndJsonDeserialize(IOEnv.TRACE)
VARIABLES l, geo
tvars == <<l, geo>>

In == {"ZoomIn", "ZoomInAll"}
Out == {"ZoomOut", "ZoomOutAll"}
Fwd == {"MoveNext", "MoveCellNext", "MoveCellDown", "MoveColumnEnd"}
Bwd == {"MovePrevious", "MoveCellPrevious", "MoveCellUp", "MoveColumnStart"}
Start == {"MoveStart", "MoveLineStart"}
End == {"MoveEnd", "MoveLineEnd"}

\* the predicates of NavGeom.tla on intervals <<lo, hi>>
Inside(a, b) == b[1] <= a[1] /\ a[2] <= b[2]
LandsInside(b, a) == Inside(a, b)
LandsOutside(b, a) == Inside(b, a)
LandsForward(b, a) == a = b \/ (a[1] > b[1] /\ ~Inside(b, a))
LandsBackward(b, a) == a = b \/ (a[1] < b[1] /\ ~Inside(b, a))
LandsAtStart(b, a) == a = b \/ (~Inside(b, a) /\ a[1] <= b[2])
LandsAtEnd(b, a) == a = b \/ (~Inside(b, a) /\ a[2] >= b[1])

Law(e) ==
  IF e.before \notin DOMAIN geo \/ e.after \notin DOMAIN geo THEN "ok"      \* (not on the expression: Trace_Nav's business)
  ELSE LET b == geo[e.before] a == geo[e.after] IN
       IF e.name \in (Fwd \cup Bwd \cup Start \cup End) /\ a # b /\ Inside(b, a) THEN "move-landed-on-an-ancestor"    \* NavGeom!EdgeZoomOut
       ELSE IF e.name \in In /\ ~LandsInside(b, a) THEN "zoom-in-left-the-node"
       ELSE IF e.name \in Out /\ ~LandsOutside(b, a) THEN "zoom-out-did-not-land-on-an-ancestor"
       ELSE IF e.name \in Fwd /\ ~LandsForward(b, a) THEN "forward-move-went-backward-or-out"
       ELSE IF e.name \in Bwd /\ ~LandsBackward(b, a) THEN "backward-move-went-forward-or-out"
       ELSE IF e.name \in Start /\ ~LandsAtStart(b, a) THEN "move-to-start-went-behind-or-out"
       ELSE IF e.name \in End /\ ~LandsAtEnd(b, a) THEN "move-to-end-went-before-or-out"
       ELSE IF e.res = "err" /\ a # b THEN "error-answer-moved-the-position"
       ELSE "ok"

TInit == l = 1 /\ geo = [x \in {} |-> <<0, 0>>]
TNext == /\ l <= Len(Rec)
         /\ LET e == Rec[l] IN
              IF e.k = "set" THEN geo' = e.geo
              ELSE /\ (Law(e) # "ok" => PrintT(<<"DRIFT", l, Law(e)>>))
                   /\ UNCHANGED geo
         /\ l' = l + 1
TSpec == TInit /\ [][TNext]_tvars
Consumed == PrintT(<<"CONSUMED", TLCGet("stats").diameter - 1>>)
=============================================================================
