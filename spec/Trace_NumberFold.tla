--------------------------- MODULE Trace_NumberFold ---------------------------
(***************************************************************************)
(* M2/M3 for C16.  One event per (written number, cut, context, locale):   *)
(*  [w, sep         the case (sep[i] = "own" | "glued" | "-" per position) *)
(*   ctx, blockIsComma                                                     *)
(*   folded         canonical MathML of the cut form = that of the one-mn  *)
(*                  form (ids renamed)                                     *)
(*   absorbed       the written forms (over d b m, x = anything else) of   *)
(*                  the mn's of the canonical form that hold a separator   *)
(*                  which was a token of its own                           *)
(*   speechEq, brailleEq   get_spoken_text / get_braille agree]            *)
(***************************************************************************)
EXTENDS NumberFold, IOUtils
Rec == ndJsonDeserialize(IOEnv.TRACE)
VARIABLE l
Reason(e) ==
  LET cl == Class(e) IN
  IF cl = "Required" /\ e.folded = 0 THEN "split-number-not-folded"
  ELSE IF cl = "Required" /\ e.speechEq = 0 THEN "split-number-spoken-differently"
  ELSE IF cl = "Required" /\ e.brailleEq = 0 THEN "split-number-brailled-differently"
  \* never absorbs anything that is not part of a syntactically valid number: every mn that took in a separator is itself not a
  \* clear non-number (a sub-sequence of a non-number may well be a number: '9.1' in '. , , 9.1')
  ELSE IF \E i \in 1..Len(e.absorbed) : NotANumber(e.absorbed[i]) \/ \E j \in 1..Len(e.absorbed[i]) : e.absorbed[i][j] = "x"
       THEN "absorbed-what-is-not-a-number"
  \* (judged when the whole written form is the list: every separator a token of its own)
  ELSE IF e.ctx \in FencedList /\ e.commaAbsorbed = 1 /\ InGrammar(e.w) /\ (\A i \in Seps(e.w) : e.sep[i] = "own")
       THEN "comma-list-inside-fences-folded"
  ELSE "ok"
TInit == l = 1 /\ w = <<>> /\ done = FALSE
TNext == /\ l <= Len(Rec)
         /\ LET e == Rec[l] IN /\ (Reason(e) # "ok" => PrintT(<<"REJECT", l, Reason(e)>>))
                               /\ PrintT(<<"CLASS", l, Class(e)>>)
         /\ l' = l + 1 /\ UNCHANGED <<w, done>>
TSpec == TInit /\ [][TNext]_<<l, w, done>>
Consumed == PrintT(<<"CONSUMED", TLCGet("stats").diameter - 1>>)
=============================================================================
