---------------------------- MODULE Trace_OpPrec ----------------------------
(***************************************************************************)
(* M2/M3 for C03.  One event per row:                                      *)
(*  [toks   the row that was given to set_mathml (<<>> for rows taken from *)
(*          the canonical form of suite expressions)                       *)
(*   got    the row structure of the canonical MathML, mo leaves carrying  *)
(*          their operator-dictionary chain                                *)
(*   wf     1: the row is in the class for which the row invariants are    *)
(*          demanded (well-formed, listed operators, no heuristic input)   *)
(*   plain  1: the parse of OpPrecOps is demanded (no construct for which  *)
(*          canonicalize.rs has a heuristic outside the parser)]           *)
(***************************************************************************)
EXTENDS Naturals, Sequences, FiniteSets, TLC, Json, IOUtils
Rec == ndJsonDeserialize(IOEnv.TRACE)
VARIABLE l
P == INSTANCE OpPrecOps WITH PlusS <- <<43>>, MinusS <- <<45>>, TimesS <- <<215>>, ItS <- <<8290>>, FenceS <- <<0>>, NoneS <- <<1>>, DefaultS <- <<2>>, BarSyms <- {<<124>>, <<8741>>, <<8214>>}, OpenTestAsPrefix <- TRUE
Reason(e) ==
  LET strictWF == e.plain = 1 /\ e.toks # <<>> /\ P!WellFormedToks(e.toks, TRUE)
      lenientWF == e.plain = 1 /\ e.toks # <<>> /\ P!WellFormedToks(e.toks, FALSE)
      rowsOf == P!RowsOf(e.got)
      structural == e.wf = 1 \/ lenientWF           \* suite rows (wf = 1) and generated well-formed rows
      priorities == (e.wf = 1 /\ e.heur = 0) \/ lenientWF
      bad == IF structural /\ \E r \in rowsOf : P!AdjacentOperands(r) THEN "adjacent-operands"
             ELSE IF structural /\ \E r \in rowsOf : ~P!FenceEnclosesContent(r) THEN "fence-encloses-more-than-its-content"
             ELSE IF priorities /\ \E r \in rowsOf : P!MixedPriorities(r) THEN "operators-of-different-priority-in-one-row"
             ELSE IF priorities /\ \E r \in rowsOf : P!LooseChild(r) THEN "nested-row-binds-less-tightly"
             ELSE "ok"
  IN
  IF e.plain = 1 /\ e.toks # <<>> /\ P!Strip(P!Parse(e.toks)) # P!Strip(e.got) THEN "parse-differs-from-operator-precedence-parse"
  ELSE IF bad = "ok" THEN "ok"
  ELSE IF lenientWF /\ ~strictWF THEN bad \o "(form-chosen-without-looking-past-the-next-operator)"
  ELSE bad
TInit == l = 1
TNext == /\ l <= Len(Rec)
         /\ LET e == Rec[l] IN (Reason(e) # "ok" => PrintT(<<"REJECT", l, Reason(e)>>))
         /\ l' = l + 1
TSpec == TInit /\ [][TNext]_l
Consumed == PrintT(<<"CONSUMED", TLCGet("stats").diameter - 1>>)
=============================================================================
