---------------------------- MODULE Trace_Operands ----------------------------
(***************************************************************************)
(* M3 for C04 (speech) and C06 (braille): every numeric literal planted in *)
(* the expression occurs in the output at least as often as in the         *)
(* expression - as its digit string (speech; digit boundaries respected)   *)
(* or as the contiguous run of its cells (braille).  More occurrences than *)
(* planted is refinement level only (ClearSpeak repeats interval end       *)
(* points by design).                                                      *)
(* Event: [kind, res, out (code points), lits <<[runs, n]>>, boundary]     *)
(***************************************************************************)
EXTENDS Naturals, Sequences, FiniteSets, TLC, Json, IOUtils
Rec == ndJsonDeserialize(IOEnv.TRACE)
VARIABLE l
IsDigit(c) == c \in 48..57
At(run, s, i) == /\ i + Len(run) - 1 <= Len(s)
                 /\ \A k \in 1..Len(run) : s[i + k - 1] = run[k]
Bounded(run, s, i) == /\ (i = 1 \/ ~IsDigit(s[i - 1]))
                      /\ (i + Len(run) > Len(s) \/ ~IsDigit(s[i + Len(run)]))
Count(run, s, boundary) == Cardinality({i \in 1..Len(s) : At(run, s, i) /\ (boundary = 0 \/ Bounded(run, s, i))})
\* a literal may be written in more than one way by a code (upper digits, or lowered digits in simple fractions / "drop numbers"):
\* runs is the sequence of its (distinct) renderings
RECURSIVE Total(_, _, _)
Total(runs, s, boundary) == IF runs = <<>> THEN 0 ELSE Count(Head(runs), s, boundary) + Total(Tail(runs), s, boundary)
Missing(e) == {k \in 1..Len(e.lits) : Total(e.lits[k].runs, e.out, e.boundary) < e.lits[k].n}
Extra(e) == {k \in 1..Len(e.lits) : Total(e.lits[k].runs, e.out, e.boundary) > e.lits[k].n}
TInit == l = 1
TNext == /\ l <= Len(Rec)
         /\ LET e == Rec[l] IN
              /\ (e.res = "ok" /\ Missing(e) # {} => PrintT(<<"REJECT", l, "operand-missing">>))
              /\ (e.res # "ok" => PrintT(<<"REJECT", l, "no-output-" \o e.res>>))
              /\ (e.res = "ok" /\ Missing(e) = {} /\ Extra(e) # {} => PrintT(<<"DRIFT", l, "operand-repeated">>))
         /\ l' = l + 1
TSpec == TInit /\ [][TNext]_l
Consumed == PrintT(<<"CONSUMED", TLCGet("stats").diameter - 1>>)
=============================================================================
