----------------------------- MODULE Trace_Prefs -----------------------------
(***************************************************************************)
(* M3 for C12: a recorded session of set_preference / set_mathml calls     *)
(* with the complete read-back (get_preference of every known name) before *)
(* and after each call, judged with exactly the clauses of C12.            *)
(* Event: [k, name, value, res, kind, vclass, langOk, expect, before,      *)
(*         after, spB, spA, brB, brA]                                      *)
(*   kind   - kind of the value stored under name when the session started *)
(*            ("boolean" | "number" | "string" | "none"), from the hook    *)
(*   vclass - "bool" | "num" | "other"                                     *)
(*   expect - the value after the documented normalisations                *)
(***************************************************************************)
EXTENDS Naturals, Sequences, FiniteSets, TLC, Json, IOUtils
Rec == ndJsonDeserialize(IOEnv.TRACE)
VARIABLE l

Numeric == {"Pitch", "Rate", "Volume", "CapitalLetters_Pitch", "MathRate", "PauseFactor"}
Derived(n) == CASE n = "Language" -> {"LanguageAuto", "DecimalSeparators", "BlockSeparators"}
                [] n = "LanguageAuto" -> {"DecimalSeparators", "BlockSeparators"}
                [] n = "DecimalSeparator" -> {"DecimalSeparators", "BlockSeparators"}
                [] OTHER -> {}
\* documented impact: braille preferences never change speech; speech/engine preferences never change braille
BrailleOnly == {"BrailleCode", "BrailleNavHighlight", "UEB_START_MODE", "UEB_UseSpacesAroundAllOperators", "UseSpacesAroundAllOperators",
                "LaTeX_UseShortName", "Vietnam_UseDropNumbers", "CopyAs"}
SpeechOnly == {"TTS", "Pitch", "Rate", "Volume", "Voice", "Gender", "Bookmark", "SpeechStyle", "Verbosity", "MathRate", "PauseFactor",
               "CapitalLetters_Pitch", "CapitalLetters_Beep", "CapitalLetters_UseWord", "SpeechOverrides_CapitalLetters",
               "ClearSpeak_Fractions", "ClearSpeak_Exponents", "ClearSpeak_Roots", "ClearSpeak_Paren", "NavMode", "NavVerbosity",
               "Overview", "AutoZoomOut", "IntentErrorRecovery"}
Same(a, b) == \A n \in DOMAIN a : a[n] = b[n]
SameExcept(a, b, S) == \A n \in DOMAIN a : n \notin S => a[n] = b[n]

ErrRequired(e) == \/ e.kind = "none"                                     \* unknown preference
                  \/ (e.name \in Numeric /\ e.vclass # "num")             \* not a number
                  \/ (e.kind = "boolean" /\ e.vclass # "bool")            \* not a boolean
                  \/ (e.name \in {"Language", "LanguageAuto"} /\ e.langOk = 0)
(* set_separators: DecimalSeparators / BlockSeparators are a function of Language and DecimalSeparator; they are recomputed when
   DecimalSeparator changes, and when Language changes while DecimalSeparator was Auto.  DecimalSeparator = Custom (or anything
   but Auto , .) leaves them to the caller, and so does Language = Auto with DecimalSeparator = Auto.
   e.period: the language of e.after is in the list of decimal-point languages of prefs.rs; e.swiss: its country is ch or li. *)
SeparatorsOwed(e) ==
  /\ e.name \in {"DecimalSeparator", "Language"} /\ e.before[e.name] # e.after[e.name]
  /\ (e.name = "DecimalSeparator" \/ e.before["DecimalSeparator"] = "Auto")
  /\ e.after["DecimalSeparator"] \in {"Auto", ",", "."}
  /\ ~(e.after["Language"] = "Auto" /\ e.after["DecimalSeparator"] = "Auto")
SeparatorsRight(e) ==
  LET ds == e.after["DecimalSeparator"]
      usePeriod == ds = "." \/ (ds = "Auto" /\ e.period = 1)
  IN /\ e.after["DecimalSeparators"] = (IF usePeriod THEN "." ELSE ",")
     /\ e.after["BlockSeparators"] = (IF usePeriod THEN e.blockPeriod ELSE e.blockComma) \o (IF e.swiss = 1 THEN "'" ELSE "")
Reason(e) ==
  IF e.k = "setmathml" THEN (IF Same(e.before, e.after) THEN "ok" ELSE "set_mathml-changed-a-preference")
  \* navigation keeps its own state in NavMode (written back after every command); nothing else is its business
  ELSE IF e.k = "nav" THEN (IF SameExcept(e.before, e.after, {"NavMode"}) THEN "ok" ELSE "navigation-changed-a-preference")
  ELSE IF e.res \notin {"ok", "err"} THEN "no-answer-" \o e.res
  ELSE IF e.res = "ok" /\ ErrRequired(e) THEN "bad-setting-accepted"
  ELSE IF e.res = "err" /\ ~Same(e.before, e.after) THEN "rejected-setting-changed-preferences"
  ELSE IF e.res = "ok" /\ e.after[e.name] # e.expect THEN "does-not-read-back-as-set"
  ELSE IF e.res = "ok" /\ ~SameExcept(e.before, e.after, Derived(e.name) \cup {e.name}) THEN "other-preference-changed"
  ELSE IF e.res = "ok" /\ SeparatorsOwed(e) /\ ~SeparatorsRight(e) THEN "derived-separators-do-not-follow-the-setting"
  ELSE IF e.res = "err" /\ (e.spB # e.spA \/ e.brB # e.brA) THEN "rejected-setting-changed-output"
  ELSE IF e.res = "ok" /\ e.name \in BrailleOnly /\ e.spB # e.spA THEN "braille-preference-changed-speech"
  ELSE IF e.res = "ok" /\ e.name \in SpeechOnly /\ e.brB # e.brA THEN "speech-preference-changed-braille"
  ELSE "ok"
TInit == l = 1
TNext == /\ l <= Len(Rec)
         /\ LET e == Rec[l] IN (e.k # "session" /\ Reason(e) # "ok" => PrintT(<<"REJECT", l, Reason(e)>>))
         /\ l' = l + 1
TSpec == TInit /\ [][TNext]_l
Consumed == PrintT(<<"CONSUMED", TLCGet("stats").diameter - 1>>)
=============================================================================
