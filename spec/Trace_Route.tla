----------------------------- MODULE Trace_Route -----------------------------
(***************************************************************************)
(* M3 for C20: recorded highlight / position / routing queries.            *)
(* Events (all fields always present):                                     *)
(*  [k, style, res, out, a, b, n, id, pref, nav, sp]                       *)
(*  k = "expr"   : new expression; ids = its ids, out = plain braille      *)
(*                 (get_braille("")), n = its length in cells, pref/nav/sp *)
(*                 = highlight preference, navigation id, speech           *)
(*  k = "hl"     : get_braille(id); a = 1 iff id is an id of the expression*)
(*                 (the id is named when the driver knows it: the highlight*)
(*                 of one node under one style is one string, whatever was *)
(*                 asked in between - in particular a routing query)       *)
(*  k = "pos"    : get_braille_position -> (a, b), n = length of the       *)
(*                 braille returned by get_braille(navigation id)          *)
(*  k = "route"  : get_navigation_node_from_braille_position(a) -> id      *)
(*  k = "end"    : get_braille("") and speech again                        *)
(* after every query pref and nav are read back.                           *)
(***************************************************************************)
EXTENDS Naturals, Sequences, FiniteSets, TLC, Json, IOUtils
Rec == ndJsonDeserialize(IOEnv.TRACE)
VARIABLES l, ids, plain, len, pref, nav, sp, hl        \* hl: the <<id, braille>> pairs answered so far for this expression
tvars == <<l, ids, plain, len, pref, nav, sp, hl>>
ToSet(s) == {s[i] : i \in 1..Len(s)}
Pure(e) == e.pref = pref /\ e.nav = nav
Reason(e) ==
  IF e.k \in {"expr", "nav"} THEN "ok"
  ELSE IF e.res \notin {"ok", "err"} THEN "no-answer-" \o e.res
  ELSE IF ~Pure(e) THEN "query-changed-preference-or-navigation-position"
  ELSE IF e.k = "hl" THEN
       (IF e.res # "ok" /\ e.a = 1 THEN "get_braille-failed-for-an-id-of-the-expression"
        ELSE IF e.res = "ok" /\ (e.style = "Off" \/ e.a = 0) /\ e.out # plain THEN "braille-differs-from-unhighlighted-braille"
        ELSE IF e.res = "ok" /\ e.a = 1 /\ e.id # "" /\ (\E p \in hl : p[1] = e.id /\ p[2] # e.out) THEN "highlighted-braille-of-a-node-changed"
        ELSE "ok")
  ELSE IF e.k = "pos" THEN
       (IF e.res # "ok" THEN "get_braille_position-failed"
        ELSE IF ~(e.a <= e.b /\ e.b <= e.n) THEN "position-outside-braille" ELSE "ok")
  ELSE IF e.k = "route" THEN
       (IF e.a < len /\ e.res # "ok" THEN "routing-failed-for-a-cell-of-the-braille"
        ELSE IF e.res = "ok" /\ e.id \notin ids THEN "routed-id-not-in-expression" ELSE "ok")
  ELSE IF e.k = "end" THEN
       (IF e.out # plain THEN "later-braille-changed" ELSE IF e.sp # sp THEN "later-speech-changed" ELSE "ok")
  ELSE "ok"
TInit == l = 1 /\ ids = {} /\ plain = "" /\ len = 0 /\ pref = "" /\ nav = "" /\ sp = "" /\ hl = {}
TNext == /\ l <= Len(Rec)
         /\ LET e == Rec[l] IN
              /\ (Reason(e) # "ok" => PrintT(<<"REJECT", l, Reason(e)>>))
              /\ IF e.k = "expr"
                 THEN ids' = ToSet(e.ids) /\ plain' = e.out /\ len' = e.n /\ pref' = e.pref /\ nav' = e.nav /\ sp' = e.sp /\ hl' = {}
                 ELSE IF e.k = "nav"          \* the driver moved the navigation position on purpose
                 THEN nav' = e.nav /\ UNCHANGED <<ids, plain, len, pref, sp, hl>>
                 ELSE IF e.k = "hl" /\ e.res = "ok" /\ e.a = 1 /\ e.id # ""
                 THEN hl' = hl \cup {<<e.id, e.out>>} /\ UNCHANGED <<ids, plain, len, pref, nav, sp>>
                 ELSE UNCHANGED <<ids, plain, len, pref, nav, sp, hl>>
         /\ l' = l + 1
TSpec == TInit /\ [][TNext]_tvars
Consumed == PrintT(<<"CONSUMED", TLCGet("stats").diameter - 1>>)
=============================================================================
