---------------------------- MODULE Trace_Session ----------------------------
(***************************************************************************)
(* M3 for the umbrella specification: walks over ALL subsystems recorded   *)
(* from one session (preferences, expressions, getters, navigation,        *)
(* routing, rule files damaged and repaired in between), every event with  *)
(* the complete projected state after the call (hooks nav_state,           *)
(* prefs_dump, cache_state; the file versions are the modification times   *)
(* the driver set).  The state is re-bound from the log at every step;     *)
(*   REJECT (property level): NavInExpr, AnswerIsFresh, QueriesKeep-       *)
(*          Preferences, RecoversAfterRepair on the observed step;         *)
(*   DRIFT  (refinement level): the observed step is not a step of         *)
(*          Session!Next.                                                  *)
(* event: [op, res, st]; st = the variables of Session after the call.     *)
(* A selection (language / code) is named by the path of its rule file.    *)
(***************************************************************************)
EXTENDS Naturals, Sequences, FiniteSets, TLC, Json, IOUtils
Rec == ndJsonDeserialize(IOEnv.TRACE)
ToSet(s) == {s[i] : i \in 1..Len(s)}
VARIABLES ready, lang, code, highlight, expr, pos, stack, markers, table, file, checkAll, repointVer, last, l,
          memo       \* <<getter, text of the expression, selection, answer>> of every Ok answer so far (C10: an answer is a function
                     \* of the expression and the selection - whatever was selected, damaged, repaired or navigated in between)

\* the constants of Session, read off the trace
Seen == {Rec[i].st.expr : i \in 1..Len(Rec)} \ {"#none"}
TExprs == Seen \cup {"#never-set"}          \* (a walk may never get an expression accepted: the quantifiers still need a domain)
TNodesOf == [e \in TExprs |-> IF e \in Seen THEN ToSet(Rec[CHOOSE i \in 1..Len(Rec) : Rec[i].st.expr = e].st.nodes) ELSE {"#n"}]
TRootOf == [e \in TExprs |-> IF e \in Seen THEN Rec[CHOOSE i \in 1..Len(Rec) : Rec[i].st.expr = e].st.root ELSE "#n"]
TLangs == UNION {DOMAIN Rec[i].st.file.speech : i \in 1..Len(Rec)}
TCodes == UNION {DOMAIN Rec[i].st.file.braille : i \in 1..Len(Rec)}
S == INSTANCE Session WITH Exprs <- TExprs, NodesOf <- TNodesOf, RootOf <- TRootOf, Langs <- TLangs, Codes <- TCodes,
                           MaxStack <- 100000, MaxVer <- 2000000000,
                           NewExprKeepsMarkers <- FALSE, RouteLeaksOverrideOnErr <- FALSE, SameDirKeepsTables <- FALSE

Bind(st, op, res) ==
  /\ ready' = st.ready /\ lang' = st.lang /\ code' = st.code /\ highlight' = st.highlight /\ expr' = st.expr
  /\ pos' = st.pos /\ stack' = st.stack /\ markers' = ToSet(st.markers)
  /\ table' = st.table /\ file' = st.file /\ checkAll' = st.checkAll /\ repointVer' = st.repointVer
  /\ last' = [op |-> op, res |-> res]

Queries == {"get_spoken_text", "get_braille", "get_navigation_node_from_braille_position", "do_navigate_command", "set_navigation_node", "set_mathml",
            "get_navigation_mathml"}
\* property level, on the observed step (the primed variables are the logged state)
StepReason(e) ==
  LET nodes == IF expr' = "#none" THEN {} ELSE TNodesOf[expr'] IN
  IF e.res = "panic" THEN "panic"
  ELSE IF expr' # "#none" /\ ~(pos' \in nodes /\ (\A i \in 1..Len(stack') : stack'[i] \in nodes) /\ markers' \subseteq nodes)
       THEN "navigation-state-names-a-node-outside-the-expression"
  ELSE IF e.op \in Queries /\ (highlight' # highlight \/ lang' # lang \/ code' # code) THEN "a-query-changed-a-preference"
  ELSE IF e.op = "get_spoken_text" /\ e.res = "ok" /\ expr # "#none" /\ ~S!FreshAfter("speech") THEN "speech-from-a-table-that-is-not-the-current-one"
  ELSE IF e.op \in {"get_braille", "get_navigation_node_from_braille_position"} /\ e.res = "ok" /\ expr # "#none" /\ ~S!FreshAfter("braille")
       THEN "braille-from-a-table-that-is-not-the-current-one"
  ELSE IF e.op \in {"get_spoken_text", "get_braille"} /\ e.res = "ok" /\ "out" \in DOMAIN e /\ e.out # ""
          /\ (\E m \in memo : m[1] = e.op /\ m[2] = e.text /\ m[3] = (IF e.op = "get_spoken_text" THEN <<lang'>> ELSE <<code', lang'>>) /\ m[4] # e.out)
       THEN "answer-differs-for-the-same-expression-and-selection"
  ELSE IF e.op \in {"get_spoken_text", "get_braille"} /\ e.res # "ok" /\ file' = file /\ checkAll /\ ready /\ expr # "#none"
          /\ (\A k \in {"speech", "braille"} : S!Cur(k).good) THEN "getter-fails-although-every-rule-file-is-good"
  ELSE "ok"

TInit == /\ l = 1 /\ ready = FALSE /\ lang = Rec[1].st0.lang /\ code = Rec[1].st0.code /\ highlight = "Off" /\ expr = "#none" /\ pos = "#nonode"
         /\ stack = <<>> /\ markers = {} /\ table = Rec[1].st0.table /\ file = Rec[1].st0.file /\ checkAll = Rec[1].st0.checkAll
         /\ repointVer = Rec[1].st0.repointVer /\ last = [op |-> "init", res |-> "ok"] /\ memo = {}
TNext == /\ l <= Len(Rec)
         /\ l' = l + 1
         /\ LET e == Rec[l] IN
            /\ Bind(e.st, e.op, e.res)
            /\ (StepReason(e) # "ok" => PrintT(<<"REJECT", l, StepReason(e)>>))
            /\ IF e.op = "environment" \/ S!Next THEN TRUE ELSE PrintT(<<"DRIFT", l, e.op>>)
            /\ memo' = IF e.op \in {"get_spoken_text", "get_braille"} /\ e.res = "ok" /\ "out" \in DOMAIN e /\ e.out # ""
                       THEN memo \cup {<<e.op, e.text, IF e.op = "get_spoken_text" THEN <<e.st.lang>> ELSE <<e.st.code, e.st.lang>>, e.out>>} ELSE memo
TSpec == TInit /\ [][TNext]_<<ready, lang, code, highlight, expr, pos, stack, markers, table, file, checkAll, repointVer, last, l, memo>>
Consumed == PrintT(<<"CONSUMED", TLCGet("stats").diameter - 1>>)
=============================================================================
