----------------------------- MODULE Trace_Speech -----------------------------
(***************************************************************************)
(* M3 for C05: speech returned for an expression with visible content is   *)
(* clean, non-empty text.  Event: [getter, res, visible, out, inp]         *)
(*  out  code points of the returned string (TTS=None)                     *)
(*  inp  code points that occur in the token text of the canonical MathML  *)
(*       (a private-use character or '<' that the author wrote may be      *)
(*       passed through)                                                   *)
(***************************************************************************)
EXTENDS Naturals, Sequences, FiniteSets, TLC, Json, IOUtils
Rec == ndJsonDeserialize(IOEnv.TRACE)
VARIABLE l
ToSet(s) == {s[i] : i \in 1..Len(s)}
PrivateUse == 57344..63743                     \* U+E000..U+F8FF (the library's markers U+F8FE, U+F8FD, U+F8FA, U+E00A live here)
Invisible == 8289..8292                        \* U+2061..U+2064
Blank == {32, 9, 10, 13, 160, 44, 59}          \* white space and the pause punctuation
HasPair(s, c) == \E i \in 1..(Len(s) - 1) : s[i] = c /\ s[i + 1] = c
\* C15 also sends braille results and pairs (output under a fallback selection, output under what it falls back to)
Reason(e) ==
  IF "ref" \in DOMAIN e THEN (IF e.res # "ok" THEN "fallback-fails" ELSE IF e.out # e.ref THEN "fallback-differs" ELSE "ok")
  ELSE IF e.visible = 0 THEN "ok"
  ELSE IF e.res # "ok" THEN "no-speech-" \o e.res
  ELSE IF e.getter = "braille" THEN (IF ToSet(e.out) \subseteq {32, 9, 10, 13, 160, 10240} THEN "empty-braille-for-visible-content" ELSE "ok")
  ELSE IF e.getter = "must-answer" THEN "ok"
  ELSE IF ToSet(e.out) \subseteq Blank THEN "empty-speech-for-visible-content"
  ELSE IF \E c \in ToSet(e.out) : c \in PrivateUse /\ c \notin ToSet(e.inp) THEN "internal-marker-in-speech"
  ELSE IF HasPair(e.out, 91) \/ HasPair(e.out, 93) THEN "navigation-brackets-in-speech"
  ELSE IF \E c \in ToSet(e.out) : c \in Invisible THEN "raw-invisible-operator-in-speech"
  \* (with an engine selected - e.engine = 1 - markup is what is asked for: C13 judges it)
  ELSE IF ("engine" \in DOMAIN e /\ e.engine = 1) THEN "ok"
  ELSE IF (60 \in ToSet(e.out) /\ 60 \notin ToSet(e.inp)) \/ (62 \in ToSet(e.out) /\ 62 \notin ToSet(e.inp)) THEN "markup-without-engine"
  ELSE "ok"
TInit == l = 1
TNext == /\ l <= Len(Rec)
         /\ LET e == Rec[l] IN (Reason(e) # "ok" => PrintT(<<"REJECT", l, Reason(e)>>))
         /\ l' = l + 1
TSpec == TInit /\ [][TNext]_l
Consumed == PrintT(<<"CONSUMED", TLCGet("stats").diameter - 1>>)
=============================================================================
