SPECIFICATION TSpec
CONSTANT Sapi5EndTagsAsBuilt = FALSE
POSTCONDITION Consumed
CHECK_DEADLOCK FALSE
