------------------------------ MODULE Trace_TTS ------------------------------
(***************************************************************************)
(* M3 for C13: real speech strings, tokenised by the driver into words and *)
(* tags ([kind, name, attrsOk]), judged by the automaton of TTS.tla.       *)
(* Event: [engine, toks, chars, plainChars, marks, ids, malformed]         *)
(*   chars      - non-blank characters of the speech with tags removed     *)
(*   plainChars - the same under TTS=None with the pause punctuation ,;    *)
(*                removed                                                  *)
(*   malformed  - 1 if the lexer met something that is not a tag or text   *)
(*                (a stray '<', an attribute without quotes, '==')         *)
(***************************************************************************)
EXTENDS TTS, Json, IOUtils
Rec == ndJsonDeserialize(IOEnv.TRACE)
VARIABLE l
ToSet(s) == {s[i] : i \in 1..Len(s)}
Reason(e) ==
  IF e.engine = "None" THEN (IF e.hasMarkup = 1 THEN "markup-without-engine" ELSE "ok")
  ELSE IF e.malformed = 1 THEN "malformed-tag-or-attribute"
  ELSE IF e.malformed = 2 THEN "unescaped-angle-bracket-of-the-expression-text"
  ELSE IF ~InVocabulary(e.engine, e.toks) THEN "tag-not-in-engine-vocabulary"
  ELSE IF ~Balanced(e.toks, <<>>) THEN "tags-not-properly-nested-or-closed"
  ELSE IF e.chars # e.plainChars THEN "markup-changed-the-words"
  ELSE IF ToSet(e.marks) \ ToSet(e.ids) # {} THEN "bookmark-names-no-id-of-the-expression"
  ELSE "ok"
TInit == l = 1 /\ engine = "None" /\ items = <<>>
TNext == /\ l <= Len(Rec)
         /\ LET e == Rec[l] IN (Reason(e) # "ok" => PrintT(<<"REJECT", l, Reason(e)>>))
         /\ l' = l + 1 /\ UNCHANGED <<engine, items>>
TSpec == TInit /\ [][TNext]_<<l, engine, items>>
Consumed == PrintT(<<"CONSUMED", TLCGet("stats").diameter - 1>>)
=============================================================================
