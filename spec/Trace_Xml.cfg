SPECIFICATION TSpec
CONSTANTS EntityRegexAllowsDigits = TRUE
POSTCONDITION Consumed
CHECK_DEADLOCK FALSE
