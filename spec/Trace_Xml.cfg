SPECIFICATION TSpec
CONSTANTS EntityRegexAllowsDigits = TRUE FirstDeclarationBecomesDefault = FALSE
POSTCONDITION Consumed
CHECK_DEADLOCK FALSE
