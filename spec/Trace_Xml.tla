------------------------------ MODULE Trace_Xml ------------------------------
(***************************************************************************)
(* M2/M3 for C17.  Two kinds of events.                                    *)
(*  spelling  [sp      the surface choices (record of XmlSurface)          *)
(*             res     "ok" | "err" of set_mathml on the variant           *)
(*             same    1: canonical MathML (ids renamed), speech and       *)
(*                     braille of the variant equal those of the base      *)
(*             named   1: the error text names the entity]                 *)
(*  entity    [name class: "plain" | "with-digit" | "unknown", res, same,  *)
(*             named]   <mi>&name;</mi> against its numeric spelling       *)
(***************************************************************************)
EXTENDS XmlSurface, IOUtils
Rec == ndJsonDeserialize(IOEnv.TRACE)
VARIABLE l
SpReason(e) ==
  LET s == e.sp r == Result(s) IN
  IF s.entity = "unknown-name" THEN (IF e.res = "err" /\ e.named = 1 THEN "ok" ELSE "unknown-entity-not-reported")
  \* property level: every spelling of the document gives the base's results
  ELSE IF e.res # "ok" THEN "equivalent-spelling-rejected"
  ELSE IF e.same = 0 /\ s.lookalike # "none" THEN "text-that-looks-like-markup-was-changed"
  ELSE IF e.same = 0 THEN "equivalent-spelling-gives-different-result"
  ELSE "ok"
\* refinement level: the as-built model predicts the outcome
SpDrift(e) ==
  LET r == Result(e.sp) IN
  IF (r.err # "") # (e.res = "err") THEN "model-and-library-disagree-on-error"
  ELSE IF r.err = "" /\ (r.text # e.sp.lookalike) # (e.same = 0) THEN "model-and-library-disagree-on-text"
  ELSE "ok"
EnReason(e) ==
  IF e.class = "unknown" THEN (IF e.res = "err" /\ e.named = 1 THEN "ok" ELSE "unknown-entity-not-reported")
  ELSE IF e.class = "insignificant-text" THEN (IF e.res # "ok" THEN "text-in-a-comment-or-instruction-rejected"
                                               ELSE IF e.same = 0 THEN "text-in-a-comment-or-instruction-changed-the-result" ELSE "ok")
  ELSE IF e.res # "ok" THEN "entity-of-the-table-rejected"
  ELSE IF e.same = 0 THEN "entity-differs-from-its-numeric-spelling"
  ELSE "ok"
Reason(e) == IF "sp" \in DOMAIN e THEN SpReason(e) ELSE EnReason(e)
TInit == l = 1 /\ sp = Base /\ n = 0
TNext == /\ l <= Len(Rec)
         /\ LET e == Rec[l] IN /\ (Reason(e) # "ok" => PrintT(<<"REJECT", l, Reason(e)>>))
                               /\ ("sp" \in DOMAIN e /\ SpDrift(e) # "ok" => PrintT(<<"DRIFT", l, SpDrift(e)>>))
         /\ l' = l + 1 /\ UNCHANGED <<sp, n>>
TSpec == TInit /\ [][TNext]_<<l, sp, n>>
Consumed == PrintT(<<"CONSUMED", TLCGet("stats").diameter - 1>>)
=============================================================================
