------------------------------- MODULE TreeGen -------------------------------
(***************************************************************************)
(* Generator of abstract presentation-MathML trees (M2 input side for      *)
(* C01/C02/C09 and others).  A tree is built from the inside out: start    *)
(* from a leaf class or a degenerate filler, then repeatedly Wrap(P, i):   *)
(* put the current tree into slot i of element kind P, the other slots     *)
(* being default leaves.  Breadth-first search to depth 2 enumerates       *)
(* exactly the contexts Ctx(P, i, Q(.., filler at j, ..)) of the design;   *)
(* -simulate builds deeper nestings.  The harness concretises leaf classes *)
(* into token text.                                                        *)
(***************************************************************************)
EXTENDS Naturals, Sequences, TLC, Json

CONSTANTS MaxDepth

LeafClasses == {"id", "num", "op", "text"}
Fillers == {"emptyMrow", "emptyMi", "emptyMn", "emptyMo", "emptyMtext", "wsMtext", "none", "mspace", "mphantom",
            "emptyMstyle", "nestedEmptyMrow", "emptyMrowIntent", "allPhantomMrow", "malignRow"}
Kinds == {"mrow", "mfrac", "msqrt", "mroot", "msub", "msup", "msubsup", "munder", "mover", "munderover",
          "mmultiscripts", "mtable", "mfenced", "mstyle", "mpadded", "menclose", "semantics", "mrow1", "mstyle1", "msqrt1"}
\* number of slots of the default shape of each kind ("mrow1"/"mstyle1"/"msqrt1" = the same element with a single child)
Slots(P) == CASE P \in {"mrow", "msubsup", "munderover", "mfenced", "mstyle"} -> 3
              [] P \in {"mfrac", "mroot", "msub", "msup", "munder", "mover", "mtable", "msqrt", "mpadded"} -> 2
              [] P = "mmultiscripts" -> 5
              [] OTHER -> 1
Leaf(c) == [tag |-> "leaf", cls |-> c, kids |-> <<>>]
Filler(c) == [tag |-> "filler", cls |-> c, kids |-> <<>>]
DefaultLeaf(P, k) == IF P = "mrow" /\ k = 2 THEN Leaf("op") ELSE IF k % 2 = 1 THEN Leaf("id") ELSE Leaf("num")
Mk(P, i, t) == [tag |-> P, cls |-> "", kids |-> [k \in 1..Slots(P) |-> IF k = i THEN t ELSE DefaultLeaf(P, k)]]

VARIABLES tree, depth
vars == <<tree, depth>>
Init == /\ depth = 0
        /\ tree \in {Leaf(c) : c \in LeafClasses} \cup {Filler(c) : c \in Fillers}
Wrap(P, i) == /\ depth < MaxDepth
              /\ tree' = Mk(P, i, tree)
              /\ depth' = depth + 1
Next == \E P \in Kinds : \E i \in 1..Slots(P) : Wrap(P, i)
Spec == Init /\ [][Next]_vars

\* every generated tree is an implementation test
Export == depth >= 1 => PrintT(<<"REPLAY", ToJson(tree)>>)
ExportDeep == depth = MaxDepth => PrintT(<<"REPLAY", ToJson(tree)>>)
=============================================================================
