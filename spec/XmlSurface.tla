----------------------------- MODULE XmlSurface -----------------------------
(***************************************************************************)
(* C17: the string passes of interface.rs::set_mathml in front of the XML  *)
(* parser (entity substitution, MathJax class stripping, namespace prefix  *)
(* stripping) and trim_element behind it, on the lexical features of a     *)
(* document.  A spelling of a document is a record of surface choices; the *)
(* actions are the infoset-preserving rewrites of the property.            *)
(*                                                                         *)
(*  entity      how a non-ASCII / special character of token text is       *)
(*              written: "raw" | "named" | "named-with-digit" | "dec" |    *)
(*              "hex" | "unknown-name"                                     *)
(*  prefix      "none" | "m" | "mml" (elements written m:mi with           *)
(*              xmlns:m=...)                                               *)
(*  space       extra white space / newlines between elements and around   *)
(*              token text                                                 *)
(*  comment, pi a comment / processing instruction between elements        *)
(*  quote       attribute values in ' or "                                 *)
(*  mjx         "none" | "v2" (class='MJX-..') | "v3" (class='data-mjx-..')*)
(*  lookalike   token TEXT that looks like what a pass deletes:            *)
(*              "none" | "class" (the text class='MJX-1') | "prefix" (the  *)
(*              text xmlns:m='..MathML')                                   *)
(*  defaultDecl the root carries xmlns='http://www.w3.org/1998/Math/MathML'*)
(*              (only when prefix = "none")                                *)
(*  otherNs     a declaration of ANOTHER namespace (xmlns:xlink=...) on    *)
(*              the root: "none" | "after" | "before" the MathML           *)
(*              declaration                                                *)
(*  emptyTok    how a token element WITHOUT text is written: "bare"        *)
(*              (<mi></mi>) | "space" | "ref" (&#x20;) | "comment" | "pi"  *)
(*              - inside a token, white space is trimmed and comments and  *)
(*              processing instructions are no content: all five are the   *)
(*              empty token                                                *)
(***************************************************************************)
EXTENDS Naturals, Sequences, FiniteSets, TLC, Json
CONSTANTS EntityRegexAllowsDigits,    \* TRUE: &([a-zA-Z0-9]+?); (the code since the fix); FALSE: pinned commit &([a-zA-Z]+?);
          FirstDeclarationBecomesDefault    \* TRUE: pinned commit - the FIRST 'xmlns:name' of the string is rewritten to 'xmlns' whatever it declares;
                                            \* FALSE: only the declaration of the MathML namespace (the code since the fix)

Entities == {"raw", "named", "named-with-digit", "dec", "hex"}
Spellings == [entity : Entities \cup {"unknown-name"}, prefix : {"none", "m", "mml"}, space : BOOLEAN, comment : BOOLEAN, pi : BOOLEAN,
              quote : {"single", "double"}, mjx : {"none", "v2", "v3"}, lookalike : {"none", "class", "prefix"},
              defaultDecl : BOOLEAN, otherNs : {"none", "after", "before"}, emptyTok : {"bare", "space", "ref", "comment", "pi"}]
Base == [entity |-> "raw", prefix |-> "none", space |-> FALSE, comment |-> FALSE, pi |-> FALSE, quote |-> "single", mjx |-> "none", lookalike |-> "none",
         defaultDecl |-> FALSE, otherNs |-> "none", emptyTok |-> "bare"]

(* What the XML infoset of a spelling is (what an XML processor that knows the named entities would see), as far as MathCAT is
   concerned: the character, the local element names, the token text, and no MathJax bookkeeping. *)
Infoset(s) == [char |-> IF s.entity = "unknown-name" THEN "undefined" ELSE "the-character", text |-> s.lookalike]

(* The passes, in the order of set_mathml.  Result: an infoset or an error. *)
EntityPass(s) ==          \* HTML_ENTITIES.replace_all
  CASE s.entity = "named" -> [s EXCEPT !.entity = "raw"]
    [] s.entity = "named-with-digit" -> IF EntityRegexAllowsDigits THEN [s EXCEPT !.entity = "raw"] ELSE s     \* not matched: left for the parser
    [] s.entity = "unknown-name" -> [s EXCEPT !.entity = "error-no-entity-named"]
    [] OTHER -> s
MathJaxPass(s) ==         \* MATHJAX_V2 / V3 .replace_all on the whole string: attributes AND text that looks like them
  [s EXCEPT !.mjx = "none", !.lookalike = IF s.lookalike = "class" /\ s.quote = s.quote THEN "class-deleted" ELSE s.lookalike]
PrefixPass(s) ==          \* NAMESPACE_DECL.replace (first match only), then PREFIX.replace_all: '(</?)alpha+:' - text written with &lt; is safe.
  \* pinned commit: the first 'xmlns:name' becomes 'xmlns' - the MathML declaration if it comes first; ANOTHER declaration if that one
  \* comes first (a second default namespace next to xmlns='..MathML': parse error);
  \* with no declaration at all, text that reads 'xmlns:name'.  Since the fix: only a declaration of the MathML namespace.
  LET firstIsOther == s.otherNs # "none" /\ (s.prefix = "none" \/ s.otherNs = "before")
      breaks == FirstDeclarationBecomesDefault /\ firstIsOther /\ s.prefix = "none" /\ s.defaultDecl
  IN [s EXCEPT !.prefix = IF breaks THEN "error-namespace" ELSE "none",
               \* text that reads  xmlns:m='http://www.w3.org/1998/Math/MathML'  is the first match when no prefixed declaration precedes it
               !.lookalike = IF s.lookalike = "prefix" /\ s.prefix = "none" /\ (FirstDeclarationBecomesDefault => s.otherNs = "none") THEN "prefix-deleted" ELSE s.lookalike]
Parser(s) ==              \* sxd_document: numeric references are resolved; a named entity it does not know is an error
  IF s.entity = "error-no-entity-named" THEN [err |-> "No entity named", char |-> "", text |-> ""]
  ELSE IF s.prefix = "error-namespace" THEN [err |-> "invalid MathML (namespace)", char |-> "", text |-> ""]
  ELSE IF s.entity = "named-with-digit" THEN [err |-> "invalid MathML (undeclared entity)", char |-> "", text |-> ""]
  ELSE [err |-> "", char |-> "the-character", text |-> s.lookalike]          \* trim_element removes comments, PIs and insignificant white space
Result(s) == Parser(PrefixPass(MathJaxPass(EntityPass(s))))

VARIABLES sp, n
Init == sp = Base /\ n = 0
Rewrite(f, v) == n < 3 /\ sp[f] # v /\ sp' = [sp EXCEPT ![f] = v] /\ n' = n + 1
Next == \/ \E v \in Entities \cup {"unknown-name"} : Rewrite("entity", v)
        \/ \E v \in {"none", "m", "mml"} : Rewrite("prefix", v)
        \/ \E v \in BOOLEAN : Rewrite("space", v) \/ Rewrite("comment", v) \/ Rewrite("pi", v)
        \/ \E v \in {"single", "double"} : Rewrite("quote", v)
        \/ \E v \in {"none", "v2", "v3"} : Rewrite("mjx", v)
        \/ \E v \in {"none", "class", "prefix"} : Rewrite("lookalike", v)
        \/ \E v \in BOOLEAN : sp.prefix = "none" /\ Rewrite("defaultDecl", v)
        \/ \E v \in {"none", "after", "before"} : Rewrite("otherNs", v)
        \/ \E v \in {"bare", "space", "ref", "comment", "pi"} : Rewrite("emptyTok", v)
Spec == Init /\ [][Next]_<<sp, n>>

\* spellings of one document (same infoset) give the same result; an unknown name is reported
\* (every spelling with the infoset of Base gives Base's result: by transitivity any two of them agree - cheaper than quantifying
\*  over all pairs)
SameResult == Infoset(sp) = Infoset(Base) /\ sp.entity # "unknown-name" /\ sp.lookalike = "none" => Result(sp) = Result(Base)
KnownNamesResolve == sp.entity \in Entities => Result(sp).err = "" /\ Result(sp).char = "the-character"
UnknownNameIsReported == sp.entity = "unknown-name" => Result(sp).err = "No entity named"
TextIsKept == sp.entity \in Entities /\ Result(sp).err = "" => Result(sp).text = sp.lookalike          \* refuted: text that looks like a MathJax class is deleted
Emit == PrintT(<<"REPLAY", ToJson(sp)>>)
=============================================================================
